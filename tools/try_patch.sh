#!/bin/sh
# try_patch.sh <patch.diff> <check ids...> : run checks against a scratch copy of /repo/src with the patch applied
P=$(readlink -f "$1"); shift
D=$(mktemp -d /tmp/tp.XXXXXX)
cp -r /repo/src "$D/src"
( cd "$D" && git init -q . >/dev/null 2>&1; patch -p1 -s < "$P" ) || { echo "patch failed"; rm -rf "$D"; exit 2; }
cd "$(dirname "$0")/.."
for c in "$@"; do
  out=$(VERIF_REPO_SRC="$D/src" ./check "$c" --tier "${TIER:-quick}" 2>&1); code=$?
  echo "$out" | grep -E "^  sig=" | cut -c1-220 | sort -u | head -${NSIG:-4}
  echo "$out" | grep -E "^HARNESS-ERROR" | head -3 | cut -c1-300
  echo "== $c exit=$code $(echo "$out" | tail -1 | cut -c1-120)"
done
rm -rf "$D"
