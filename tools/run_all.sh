#!/bin/sh
# run every registered check (quick tier by default) against /repo and print one line each
cd "$(dirname "$0")/.." || exit 2
TIER="${1:-quick}"
rc=0
for id in $(/venv/bin/python -c "import json;print(' '.join(c['property_id'] for c in json.load(open('MANIFEST.json'))['checks']))"); do
  out=$(./check "$id" --tier "$TIER" 2>&1); code=$?
  echo "$out" | grep -E "^(VIOLATION|KNOWN-FINDING|HARNESS-ERROR)" | cut -c1-200
  echo "$out" | tail -1 | cut -c1-260
  [ $code -ne 0 ] && rc=1
done
exit $rc
