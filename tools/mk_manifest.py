import json
checks = {
 "C01": ("model_checking", "E-SCHED", "stateless exhaustive exploration of the real send_message coroutine on a virtual-time event loop: all incoming-message histories up to length L x all anchor-relative arrival placements (incl. both orders of ties with library timers), judged by a sequential reference scan",
         "Every history of length <=2 over a 12-symbol alphabet (plus a pre-queued message) at every placement relative to the 0.5 s poll timer and the deadline is executed on the real code (length 3 within a deviation bound; thorough: length 3 fully, length 4 bounded); no sampling.",
         "Trusted: the virtual loop's FIFO/timer semantics match stock asyncio (audited by re-running a subset); alphabet excludes top-level result:null and non-string ids, which are outside the function's documented contract.", "6/C01"),
}
m = {
 "version": 1,
 "setup_cmd": "/venv/bin/python -c \"import sys; sys.path[:0]=['/repo/src','/verif']; import chuk_mcp, anyio, httpx, vf.vloop, vf.explorer; print('ok')\"",
 "hooks": {"guard": "CHUK_MCP_VERIF", "enable": "checks import /repo/src directly (PYTHONPATH) with CHUK_MCP_VERIF=1 exported by ./check; no source hooks exist - all seams are external substitutions (anyio.open_process, httpx transport, uuid.uuid4, session clock)",
           "baseline_off_cmd": "cd /repo && /venv/bin/python -m pytest -ra -q -p no:cacheprovider --timeout=900 --continue-on-collection-errors",
           "source_commits": [], "add_only": True},
 "engines": [
  {"name": "E-SCHED", "path": "vf/vloop.py, vf/explorer.py, vf/sched.py", "serves_properties": ["C01"], "kind_free_text": "virtual-time asyncio loop + stateless choice-vector DFS explorer with prefix replay, deviation bounds, determinism audit, 16-process pool"},
 ],
 "checks": [],
 "notes": "See DESIGN.md. ./check <ID> --tier quick|thorough; exit 0 held / 1 VIOLATION / 2 harness error.",
 "not_applicable": [],
}
allp = [json.loads(l)["id"] for l in open("/verif/properties.jsonl")]
for pid in allp:
    if pid in checks:
        cat, eng, tech, text, note, ref = checks[pid]
        m["checks"].append({"property_id": pid, "quick_cmd": f"./check {pid} --tier quick", "thorough_cmd": f"./check {pid} --tier thorough",
            "evidence_file": f"/verif/evidence/{pid}.json", "replay_cmd_template": f"./check {pid} --replay {{path}}", "engine": eng,
            "level_claimed": {"category": cat, "text": text, "design_ref": ref}, "level_note": note, "technique": tech})
    else:
        m["not_applicable"].append({"property_id": pid, "reason": "check not built yet in this round (planned: bounded exhaustive exploration, see DESIGN.md section 6)"})
json.dump(m, open("/verif/MANIFEST.json", "w"), indent=1)
