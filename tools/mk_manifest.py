#!/venv/bin/python
"""Regenerate /verif/MANIFEST.json from the table below (only checks whose module exists are claimed)."""
import json
import os

ROOT = os.path.dirname(os.path.dirname(os.path.abspath(__file__)))

SCHED = "stateless exhaustive exploration of the real coroutines on a virtual-time asyncio loop (choice-vector DFS with prefix replay; every placement relative to library timers incl. both tie orders)"
CHECKS = {
    "C01": ("model_checking", "E-SCHED",
            SCHED + "; all incoming-message histories up to length L judged by a sequential reference scan",
            "Every history of length <=2 over a 12-symbol alphabet (plus a pre-queued message) at every placement relative to the 0.5 s poll timer and the deadline is executed on the real send_message (length 3 within a deviation bound; thorough: length 3 fully, length 4 bounded). No sampling.",
            "Trusted: virtual loop FIFO/timer semantics match stock asyncio (determinism audited by re-running a subset in another process); top-level result:null and non-string ids are outside send_message's documented contract.", "6/C01"),
    "C02": ("exploration", "E-INPUT",
            "bounded-exhaustive enumeration of all discovered emitters x JSON payload grammar x id shapes, each output judged by an independent JSON-RPC 2.0 envelope reference and re-parsed by the library's parser",
            "All emitters found by introspection (create_*, send_* helpers driven on the virtual loop, server handler, transports' serialisers) over the bounded JSON grammar and all id shapes; exhaustive within the grammar.",
            "Trusted: the independent envelope validator vf/jsonrpc_ref.py; default (Pydantic) backend only - backend agreement is C09.", "6/C02"),
    "C03": ("model_checking", "E-SCHED",
            SCHED + "; full grid supported-list x preferred x server answer x answer time x distractor x tracked client",
            "All non-empty repetition-free supported lists (<=2 quick, <=3 thorough) over a 6-version universe x 8 preferred values x 33 server answers x 3 answer times, run through the real send_initialize(+client tracking) against a scripted server.",
            "Trusted: virtual loop; which of the two error classes a code maps to is C07's subject.", "6/C03"),
    "C04": ("exploration", "E-INPUT + E-SCHED pairing",
            "exhaustive enumeration of requested protocolVersion values (full date grid) against the real ProtocolHandler, plus every client-list x preferred pairing of the real send_initialize with the real handler over in-memory streams on the virtual loop",
            "Every dddd-dd-dd string in the window, malformed strings, non-strings, absent; every client supported list x preferred for the end-to-end handshake.",
            "Trusted: virtual loop for the pairing part; the library's own supported-version list is read from the code.", "6/C04"),
    "C05": ("fault_enumeration", "E-SCHED",
            "exhaustive enumeration of chunk-cut positions (the fault) over all line sequences of a bounded alphabet, real StdioClient reader on the virtual loop over a scripted process; oracle = split-at-LF reference + independent envelope validator",
            "All sequences of <=2 lines (thorough; quick 1 + interesting cuts of 2) over 15 line kinds x LF/CRLF, every single cut position, every pair of cuts on short streams, every pair with a cut inside a multi-byte character or CRLF on long ones; thorough adds triples and byte-at-a-time.",
            "Trusted: scripted process implements the subset of anyio.abc.Process the transport uses; lines with wrong/missing jsonrpc member are outside the alphabet (suite pins them accepted).", "6/C05"),
    "C06": ("fault_enumeration", "E-SCHED",
            "exhaustive enumeration of outbound item sequences (typed / dict / pre-serialised / unserialisable at every position) through the real stdio writer on the virtual loop; stdin bytes compared with an independently computed expectation",
            "All sequences of <=3 (thorough 4) items over 14 item kinds x {burst, stepwise}, plus every JSON value of the bounded grammar as payload in three shapes.",
            "Trusted: scripted process stdin; pre-serialised strings are compact single JSON texts.", "6/C06"),
    "C07": ("exploration", "E-INPUT",
            "exhaustive enumeration of error codes x error shapes through the real send_message and every discovered send_* helper on the virtual loop, against pinned copies of the documented code sets",
            "Every integer in -33100..-31900 and -200..200 plus 32/64-bit boundaries x 10 error shapes; every typed request helper discovered by walking the package.",
            "Trusted: the pinned permanent/retryable sets inside the check (copied from the documentation).", "6/C07"),
    "C08": ("exploration", "E-INPUT",
            "full product enumeration methods x ids x params shapes x handler behaviours through the real MCPServer/ProtocolHandler; oracle = one response per id-bearing message, none otherwise, never raises",
            "Full product of the bounded grammar (core, tool/resource, every notifications/* name, unknown methods; 8 id shapes; params shapes; handler behaviours).",
            "Trusted: independent envelope validator; inputs the library's parser rejects are counted, not judged.", "6/C08"),
    "C09": ("exploration", "E-INPUT workers",
            "bounded-exhaustive type-directed wire objects for every discovered model class, fed to two long-lived worker processes (Pydantic / MCP_FORCE_FALLBACK=1) and compared relationally (accept, type names at every level, by-alias dump)",
            "All 65 discovered McpPydanticBase subclasses x generated wire objects (all optional-field subsets for small models, pairwise covering above), JSON-RPC envelopes x all id shapes, documented invariants.",
            "Trusted: worker pipe codec (type-tagged); a case is spec-valid when generated type-correctly and accepted by Pydantic.", "6/C09"),
    "C10": ("exploration", "E-INPUT workers",
            "bounded-exhaustive wire objects per model x both backends for losslessness; AST discovery of every library-side serialiser site, each driven and its output inspected for wire names",
            "All model classes x generated wire objects x 2 backends; all 14 discovered serialiser call sites (a site without driver is a harness error).",
            "Trusted: wire names are read from the classes' declared aliases (a consistent alias rename is invisible).", "6/C10"),
    "C11": ("fault_enumeration", "E-SCHED",
            "exhaustive enumeration of per-request server behaviours (the fault) and of behaviour sequences through the real http_client on the virtual loop over a scripted httpx transport; oracle = independent behaviour->acceptable-read-stream function with a reference SSE parser",
            "157 single behaviours x 4 request kinds x session header, each followed by a plain request; all sequences <=3 (thorough 4) over 12 representatives; all session sequences <=4.",
            "Trusted: httpx above its transport layer is real; timeouts modelled as httpx.ReadTimeout.", "6/C11"),
    "C12": ("fault_enumeration", "E-SCHED",
            SCHED + "; establishment outcomes, per-request modes x orderings of POST completion / event arrival / timeout, event-stream chunkings, exit paths",
            "All establishment outcomes, all request modes x orderings from the time menu, all single and pair cuts of the event stream, all exit paths x moments.",
            "Trusted: scripted httpx transport and streamed body; virtual loop.", "6/C12"),
    "C13": ("model_checking", "E-INPUT + E-STATE",
            "exhaustive date grid for the decision function; explicit-state BFS over operation sequences on the real StdioClient with a reference mode model",
            "All 2.1M dddd-dd-dd strings; all operation sequences to the stated depth over {set version, deliver batch, deliver single}.",
            "Trusted: scripted process; canonical state = negotiated version (the only field the reader consults).", "6/C13"),
    "C14": ("model_checking", "E-SCHED",
            SCHED + "; all placements of {cancel, response} on a 10 ms grid around every poll boundary and the deadline x traffic patterns x progress streams, judged by a relation stating exactly what the property promises",
            "Every (cancel, response) placement on the grid for T in {0.3,1.0,1.2} (thorough +2.2) x {none, burst, flood every 10 ms}; every progress stream of <=3 (thorough 4) notifications x callback failure position x ending.",
            "Trusted: virtual loop; where the statement leaves the outcome open (response within one poll after cancel; ties at the deadline) both outcomes are accepted.", "6/C14"),
    "C15": ("exploration", "E-SCHED differential",
            "exhaustive enumeration of scripted conversations, each run through the four real client transports on the virtual loop; normalised transcripts compared pairwise and against the script",
            "All conversations of <=2 (thorough 3) requests over the conversation grammar x 4 carriers.",
            "Trusted: each carrier is fed its canonical encoding (framing/encoding variants are C05/C11/C12's subject).", "6/C15"),
    "C16": ("fault_enumeration", "E-SCHED + real children",
            "full fault matrix child behaviour x exit path x moment (x anyio cancellation delivery order x grace-period boundary timings) on the virtual loop over a scripted process, plus the same matrix with real child processes observed through /proc",
            "Virtual: 13 behaviours x 5 exit paths x 3 moments x 2 cancel orders + 36 (terminate,kill) obedience-delay pairs; real: 10 behaviours x 5 exits x moments (quick: in-flight + normal exits).",
            "Trusted: scripted process for timing/escalation; OS facts (gone, reaped, fds) from the real part with 3 s wall-clock slack.", "6/C16"),
    "C17": ("exploration", "E-INPUT workers",
            "bounded-exhaustive JSON value grammar encoded/decoded by worker processes with orjson importable / masked, all four backend pairs compared type-strictly",
            "All values of the bounded grammar (depth<=2 quick, <=3 thorough) over the boundary scalar set x every encode/decode API variant x 4 backend pairs.",
            "Trusted: type-tagged pipe codec; integers beyond 64 bits are outside the property.", "6/C17"),
    "C18": ("model_checking", "E-SCHED",
            SCHED + "; k concurrent send_message callers, every answer order, every interleaving with notifications, every placement from the time menu",
            "k=2 with <=2 notifications (rich menu), k=3 with <=1 (thorough 2) notifications, thorough k=4; equal/unequal timeouts; simultaneous/staggered starts.",
            "Trusted: virtual loop; the structural loss class consumed-by-other-waiter is an open known finding, every other loss class and cross-talk alarm.", "6/C18"),
    "C19": ("model_checking", "E-STATE",
            "explicit-state breadth-first search over operation histories on the real SessionManager/ProtocolHandler with a reference dict model in lock-step and canonical-state deduplication",
            "All operation sequences to depth 5 (thorough 7-8) over a 3-client universe with a controlled clock.",
            "Trusted: canonical state replaces opaque ids by issue index (no operation inspects id characters).", "6/C19"),
    "C20": ("exploration", "E-INPUT real children",
            "complete enumeration of a bounded configuration grammar x three host entry points, executed with real witness child processes",
            "All generated configs (servers, args, env, timeout, extra keys) x {load_config+stdio_client, CLI connectivity test, run_command} x malformed classes.",
            "Trusted: the witness child records argv/env; OS scheduling is not controlled (every case is run, none sampled).", "6/C20"),
}

# checks integrated, reviewed and silent on the unchanged tree (others are still being built)
READY = "C01 C02 C03 C04 C05 C06 C07 C08 C09 C10 C11 C12 C13 C14 C15 C16 C17 C18 C19 C20".split()

ENGINES = [
    {"name": "E-SCHED", "path": "vf/vloop.py, vf/explorer.py, vf/sched.py, vf/determinism.py, vf/seams.py, vf/seams_http.py",
     "kind_free_text": "virtual-time asyncio loop + stateless choice-vector DFS explorer with prefix replay, deviation bounds, determinism audit, 16-process pool; scripted process / scripted HTTP seams; anyio task-set order owned"},
    {"name": "E-STATE", "path": "vf/checks/c19.py, vf/checks/c13.py",
     "kind_free_text": "explicit-state BFS over operation histories on freshly rebuilt real objects with a reference model in lock-step"},
    {"name": "E-INPUT", "path": "vf/gen.py, vf/wiregen.py, vf/workers.py, vf/jsonrpc_ref.py",
     "kind_free_text": "bounded-exhaustive deterministic generators; configuration-specific long-lived worker processes for relational (backend) properties"},
]


# What the waves of seeded changes added to each check's enumerated space (DESIGN 0.5); the exact rule and the list of
# parts that ran are in the evidence file (coverage.rule, coverage.parts).
HOST = (" Host configuration: the thorough tier re-runs the whole quick-tier space under python -O and merges the result"
        "; where the check has a debug-logging pass (all but C09, C10, C17) a fixed fraction of its parts is re-run with DEBUG "
        "logging enabled and library warnings turned into errors.")
EXTRA = {
    "C01": "Also: the stream ending as a history symbol, results of every JSON kind, a slow peer taking the request late, 2-3 calls one after the other on one or on separate connections with every history of deliveries bearing the id of any of the calls, every typed helper x distractor prefixes, a request that cannot be written (no waiting, nothing returned), debug-logging passes.",
    "C02": "Also: the three transports' outbound wire forms for messages built ten ways, progress-token emitters x params carrying _meta, converters and the compatibility wrapper, the same object sent twice with a mutation in between, payload-less results written to and emitted again, dict-returning request handlers x user answers of every JSON kind.",
    "C03": "Also: fragments / look-alikes of offered versions, refusals carrying a result body, stalled and vanished peers, the tracked client really connected twice, MCPClient sequences and two tasks on one client, two overlapping handshakes, a second handshake after an abandoned or a completed one on the same streams, the caller editing a list the library handed out, the stdio entry points taking the caller's list (incl. MCPClient over StdioTransport) with the answer framed as a line or inside a batch with 0..400 members behind it and the connection object judged at return, caller lists of invented non-date revision names.",
    "C04": "Also: queries before initialize through every public versioning callable, handshake/session-removal sequences, other session stores (copies on read, repeating ids, restored sessions), caller-edited version lists, several handlers alive.",
    "C05": "Also: junk lines that start with a complete message, array lines under each version, explicit-null members, four-read cut vectors, reads of exactly the pipe's read size, bursts beyond the 100-slot buffers, listeners on the side channel, the user closing the write stream, the child exiting with unread output, two connections alive with every interleaving of their reads, the same client entered again; real child with forced partial writes.",
    "C06": "Also: two writers on stdin, send_json, a pipe that takes the bytes and then blocks (1 s .. for ever) or fails for a while, runs of up to 12 (thorough 40) unserialisable items, pre-framed / pretty-printed strings with odd white space, the child's stdout ending while it still reads, two connections with one stalled, four backend configurations after a pretty-printing call.",
    "C07": "Also: percent / brace / empty / exotic message texts, all ordered pairs of the error module's functions, the grid through five carriers' inbound paths incl. null companions, peers whose answers differ per request, two calls one after the other with a late answer, two concurrent calls sharing a params dict, debug-logging passes; a classified error leaving the stdio, SSE and Streamable HTTP client contexts whatever words or codes it carries, with and without a token / progress callback.",
    "C08": "Also: exception texts (empty, multi-line, huge, unprintable) and exceptions carrying a code, registration forms of handlers incl. temporary owners, sessions created with a clientInfo of every JSON shape, error texts around every power of two up to 64 KiB in multi-byte characters, dispatch sequences whose responses are held and re-read, overlapping dispatches, several servers alive, debug-logging passes.",
    "C09": "Also: four {Pydantic, fallback} x {orjson, stdlib} configurations, the JSON dump path, member names colliding with model attributes, integers beyond 64 bits, equality/hash, stateful helpers (RootsManager, ToolRegistry) by operation sequences, input mutated after validation, sibling objects, every zero-argument method then dump again, shared sub-instances, id validation order pairs in fresh forks.",
    "C10": "Also: losslessness through model_dump_json, explicit nulls and alias-looking keys in free-form values, look-alike strings for open string members, defaults mutated between validations, dump-call order per class in fresh forks, typed objects edited in place and emitted again, 14+ serialiser sites (helpers driven through their callers).",
    "C11": "Also: ~2500 SSE encodings from the grammar, bodies routing >100 messages, messages behind the response, JSON that is not JSON-RPC, error-status bodies carrying an error object, content-type parameters and BOMs, pipelined requests, runs of 9..25 identical failures, every constructor option, caller-configured session headers, two connections (shared / own parameters, overlapping exchanges), consecutive SSE bodies by ending form, POST-count oracle; real loopback server conformance.",
    "C12": "Also: blank/odd endpoint announcements, id shapes, untyped events, data lines up to 200 KiB, raw Unicode separators and endpoint-looking text, bursts around the 100-slot buffer incl. a timeout with a full stream, a POST whose reply is lost after the server acted, two connections alive, pipelined requests; real loopback server conformance.",
    "C13": "Also: the transport histories with version changes while a batch is routed, versions merely mentioned in traffic, several lines in one read with the application switching versions, pending per-request streams, the handshake answered inside a batch, alternative decision entry points, stdio_client_with_initialize with a batch in flight, fallback-backend member histories, the four entry points that run the handshake themselves x agreed version x batch.",
    "C14": "Also: +-50 ms grid and T up to 2.2 s (thorough), timeouts of 30 s .. 1 h, the token read from the wire, caller params carrying _meta, congested write streams, user callbacks on the token, one token shared by 2-3 requests, 13 exception classes and 7 callable forms of the progress callback, callbacks that themselves await (up to for ever) across the deadline and the token, the outgoing stream closed by its owner or its reader before the token fires, every request method x result / error answers, progress notifications without params or with odd tokens.",
    "C15": "Also: five carriers plus untyped / trailing-partial-event variants, raw ids, endpoint-looking payload text, content-type variants, MCPClient over the Transport classes, every factory / fallback entry point that yields a carrier.",
    "C16": "Also: entry points (transport, with_initialize, connect_to_server, same client or transport again incl. after a failed start), cancellation at / during spawn and during exit, group exceptions from the body, configured environments (stderr wiring), spawn argument list, helper processes holding stdout, a flooder dying by itself, leaving with a full read stream and per-request streams, the reader rejecting batches towards a child that no longer drains stdin, bodies leaving by an unrenderable exception or a BaseException; real children incl. run_command with 1-3 servers, descriptors counted with the garbage collector off.",
    "C17": "Also: decode and encode statefulness (pairs / triples of calls against the same call made first in a fresh fork), the dumps option alphabet incl. default hooks on orjson-refused values, the file API over binary / text files of five encodings / odd sinks / NDJSON loops, the model layer in four configurations.",
    "C18": "Also: auto ids through the same and cloned write streams, ids equal as text, the real stdio transport with every answer order x chunkings (incl. bursts of 150 notifications, a long line in two reads), per-request streams with every id shape and result kind, two connections alive with the same ids, ids reused for back-to-back rounds, abandoned ids asked again, all answers in one batch array with invalid members around them, the same client object after a child that left an unterminated line, a log line followed by answers with the read ending inside a multi-byte character.",
    "C19": "Also: a second handler, store replacement, reseeding the global random generator, clock steps backwards, records aged through the record object, near-miss ids, runs of 255..4096 creations with a quiet session, mass expiry (also under DEBUG logging), independent records, two dispatches overlapping at a handler's suspension point.",
    "C20": "Also: the real CLI (python -m chuk_mcp / main()) with default-location discovery, env steering variables and secret-looking names x logging level, command paths with white space and decoys, syntax-like strings, two calls on one path with the file changing, several launches from one loaded parameters object, server names as one-shot iterables, run_command's error branches.",
}


def main():
    props = [json.loads(l) for l in open(os.path.join(ROOT, "properties.jsonl"))]
    m = {
        "version": 1,
        "setup_cmd": "/venv/bin/python -c \"import sys; sys.path[:0]=['/repo/src','/verif']; import chuk_mcp, anyio, httpx, vf.vloop, vf.explorer; print('ok')\"",
        "hooks": {
            "guard": "CHUK_MCP_VERIF",
            "enable": "checks import /repo/src of the current working tree directly (PYTHONPATH set by ./check, which also exports CHUK_MCP_VERIF=1); there are no source hooks - every seam is an external substitution (anyio.open_process, httpx.AsyncHTTPTransport, uuid.uuid4, session clock, anyio CancelScope task sets)",
            "baseline_off_cmd": "cd /repo && /venv/bin/python -m pytest -ra -q -p no:cacheprovider --timeout=900 --continue-on-collection-errors",
            "source_commits": [],
            "add_only": True,
        },
        "engines": [],
        "checks": [],
        "notes": "See DESIGN.md. ./check <ID> --tier quick|thorough [--replay file]; exit 0 held (possibly with KNOWN-FINDING lines) / 1 VIOLATION / 2 HARNESS-ERROR. known_findings.json lists open findings (suppressed, narrow keys) and fixed ones (suppress nothing).",
        "not_applicable": [],
    }
    claimed = []
    for p in props:
        pid = p["id"]
        mod = os.path.join(ROOT, "vf", "checks", pid.lower() + ".py")
        if pid in CHECKS and pid in READY and os.path.exists(mod):
            cat, eng, tech, text, note, ref = CHECKS[pid]
            claimed.append(pid)
            m["checks"].append({
                "property_id": pid,
                "quick_cmd": f"./check {pid} --tier quick",
                "thorough_cmd": f"./check {pid} --tier thorough",
                "evidence_file": f"/verif/evidence/{pid}.json",
                "replay_cmd_template": f"./check {pid} --replay {{path}}",
                "engine": eng,
                "level_claimed": {"category": cat, "text": (text + " " + EXTRA.get(pid, "") + HOST).strip(), "design_ref": ref},
                "level_note": note,
                "technique": tech,
            })
        else:
            m["not_applicable"].append({
                "property_id": pid,
                "reason": "not claimed yet: the bounded exhaustive check designed in DESIGN.md section 6 is still being built (the technique applies)",
            })
    for e in ENGINES:
        e = dict(e)
        e["serves_properties"] = [c["property_id"] for c in m["checks"] if c["engine"].startswith(e["name"])]
        m["engines"].append(e)
    with open(os.path.join(ROOT, "MANIFEST.json"), "w") as f:
        json.dump(m, f, indent=1)
        f.write("\n")
    print("claimed:", " ".join(claimed))


if __name__ == "__main__":
    main()
