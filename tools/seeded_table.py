#!/venv/bin/python
"""Print the catch matrix of /verif/seeded/*/meta.json as a markdown table and
merge the one-line descriptions below into each meta.json (fields 'change', 'needs')."""
import glob
import json
import os

ROOT = os.path.dirname(os.path.dirname(os.path.abspath(__file__)))
DESC = {
    "C01-A": ("id filter compares str(id): `str(msg_id) != str(req_id)`", "digit-string request id and a response with the equal-digits integer id"),
    "C01-B": ("non-response guard by isinstance(JSONRPCRequest/Notification) instead of `method is not None`", "server request reusing the outstanding id delivered as the unified legacy class (what every transport delivers)"),
    "C03-A": ("membership test against the comma-joined list string (`server_version in supported` with supported a str)", "server answers a string that is a fragment of the offered list (\"\", \"2025\", \"06-18\")"),
    "C03-B": ("`move_on_after(timeout)` around sending notifications/initialized", "unbuffered/full write stream whose consumer stalls longer than the timeout after the server's answer"),
    "C04-A": ("is_supported compares parsed (y,m,d) tuples", "requested version with non-ASCII digits or trailing newline equal in value to a supported date"),
    "C04-B": ("re-initialize with a live session id reuses the session without updating its version", "second initialize carrying the first one's session id with a different version"),
    "C05-A": ("`decoder.decode(chunk, final=b'\\n' in chunk)`", "a read containing an LF and ending inside a multi-byte character"),
    "C05-B": ("`rpartition('\\n')` + `splitlines()`", "raw U+2028/U+2029/U+0085 inside a JSON string"),
    "C06-A": ("payloads > 64 KiB written as two sends (body, newline)", "large message under back-pressure while the reader writes a batch-rejection error to the same stdin"),
    "C06-B": ("newline appended inside fast_json.dumps except on the orjson-fails->stdlib path", "dict message holding a value orjson rejects (int >= 2^64, deep nesting)"),
    "C08-A": ("unknown-tool pre-check replaced by `except KeyError` around lookup+call", "registered tool/resource handler raising KeyError"),
    "C08-B": ("failing dispatch reads (id, method) back from an instance attribute", "two overlapping dispatches; the first handler suspends, then raises"),
    "C09-A": ("fallback list serialisation forgets by_alias", "aliased member on a model nested inside a list field, fallback backend"),
    "C09-B": ("fallback type cache keyed by (class name, field)", "two same-named model classes validated in one process, order-dependent"),
    "C10-A": ("fallback alias map cached per bare class name", "same-named classes in one process (messages-layer Tool first, then types-layer Tool with _meta)"),
    "C10-B": ("`str_strip_whitespace` on Resource", "declared string member starting/ending with whitespace, Pydantic backend"),
    "C11-A": ("event type reset only when an event was dispatched", "typed SSE event without data followed by an event without event field"),
    "C11-B": ("session id taken only when none is set yet", "server issues a second, different session id"),
    "C12-A": ("`aiter_bytes()` + per-chunk `.decode()`", "event-stream chunk boundary inside a multi-byte character"),
    "C12-B": ("pending futures cancelled after (not before) the tasks are cancelled in `_cleanup`", "leaving the context while a request is in the '202 received, event not yet seen' state"),
    "C14-A": ("cancellation checked only on idle polls", "unrelated message after the cancel (a flood hides the cancel until the deadline)"),
    "C14-B": ("non-increasing progress values are dropped", "progress stream that is not strictly increasing / missing progress field twice"),
    "C15-A": ("HTTP SSE body parsed with `splitlines()`", "raw U+2028/U+2029/U+0085 in payload text over Streamable HTTP with SSE body"),
    "C15-B": ("legacy SSE registers the pending future only after the 202", "answer event delivered before the POST's 202 returns"),
    "C16-A": ("termination shielded only when the exit itself was a cancellation", "cancellation arriving while __aexit__ is already running, child slow to die"),
    "C16-B": ("stdin write wrapped in a shielded scope", "child not reading stdin with > pipe-buffer of queued output when the context is left"),
    "C17-A": ("`if 'indent' in kwargs` in the orjson path", "fallback model base (passes indent=None) with orjson installed"),
    "C17-B": ("stdio reader `splitlines(keepends=True)`", "raw U+2028/U+0085 written unescaped by an orjson peer"),
    "C18-A": ("auto ids from a per-stream-object counter", "callers using clones of the write stream without explicit ids"),
    "C18-B": ("`buffer.split('\\n', 1)` in the stdio reader", "two or more complete lines in one stdout read"),
    "C19-A": ("expiry cutoff from `int(time.time())`", "clock with a fractional part, idle time < 1 s past the limit"),
    "C19-B": ("initialize with a live session id overwrites that record", "second initialize carrying a live session id"),
    "C20-A": ("command resolved with shutil.which on the host PATH", "bare command name, configured env with its own PATH, same-named program on the host PATH"),
    "C20-B": ("runner de-duplicates servers by (command, args)", "two servers sharing command+args, differing only in env"),
    # ---- wave 2 (labels C, D) -------------------------------------------------------------------
    "C01-C": ("progress token merge replaces the caller's whole `_meta` object", "progress callback + caller params that already carry `_meta` with other keys"),
    "C01-D": ("0.5 s poll scope shielded", "response after the deadline but inside the running poll, or traffic < 0.5 s apart across the deadline"),
    "C02-C": ("unified parser model gets `str_strip_whitespace`", "string id / method / top-level key starting or ending with whitespace or a line separator"),
    "C02-D": ("batch item error takes `code` from the exception object", "handler raising an exception with a non-integer `code` attribute inside a batch"),
    "C03-C": ("tracking entry point prefers the version the client already tracks", "re-initialising a tracked client that carries a version from an earlier handshake, no preferred version"),
    "C03-D": ("fast path accepts `server_version in (proposed, preferred)`", "preferred version outside the list and the server answering exactly it"),
    "C04-C": ("is_supported via frozenset + dropped isinstance guard", "protocolVersion that is a JSON array or object (unhashable)"),
    "C04-D": ("initialize result dict built once and shared between responses", "two initializes with different versions, the second handled before the first response is serialised"),
    "C05-C": ("whitespace-only reads skipped", "a read that holds only a line terminator or only an in-string whitespace character"),
    "C05-D": ("notification delivery to the read stream with send_nowait", "more than 100 unread messages ahead of a notification"),
    "C06-C": ("per-message try narrowed to serialisation (send outside)", "pre-serialised string with a lone surrogate (fails at encode time)"),
    "C06-D": ("fallback exclude_none applied inside nested dicts", "fallback backend + typed message with a null nested in params/result"),
    "C07-C": ("error.data forwarded through `dict(data)`", "error response whose data is truthy and not an object (array, string, number, true)"),
    "C07-D": ("initialize maps any error mentioning 'protocol version' to VersionMismatchError", "non -32602 error to initialize whose text mentions protocol version (incl. the default text of -32008)"),
    "C08-C": ("try narrowed to the handler call, tuple unpack outside", "custom handler returning something that is not a 2-tuple"),
    "C08-D": ("`if not msg_id` in the initialized handler", "notifications/initialized sent as a request with id 0 or \"\""),
    "C09-C": ("parse_message catches only (ValueError, TypeError) around the unified model", "fallback backend + response whose result is not an object"),
    "C09-D": ("fallback dump drops every key starting with `_`", "fallback backend + undeclared extra member such as `_meta` on a model without that alias"),
    "C10-C": ("fallback dump drops every key starting with `_`", "fallback backend + unknown member starting with an underscore"),
    "C10-D": ("content blocks gain a `meta` field aliased `_meta`", "content block carrying `_meta` passed through content_to_dict / sampling builders (no by_alias)"),
    "C11-C": ("`.strip()` dropped before testing/parsing SSE data", "SSE data with extra leading whitespace after the one stripped space (two spaces, tab, empty first data line)"),
    "C11-D": ("`httpx.Timeout(timeout, read=None)`", "server that accepts the POST and then stays silent"),
    "C12-C": ("pending entry popped only in the 202 branch", "failed POST for id X, later a server message re-using id X on the event stream"),
    "C12-D": ("`if self._message_url is None` instead of falsy", "endpoint event with blank data"),
    "C13-C": ("batch rejection error queued with send_nowait on the outgoing stream", "outgoing queue full (stalled writer, >= 100 queued) when a batch arrives"),
    "C13-D": ("StdioTransport re-applies the last negotiated version on re-entry", "second connection through the same transport object, batch before the new handshake"),
    "C14-C": ("matching progress slides the deadline", "matching-token progress arriving more often than the timeout"),
    "C14-D": ("callback disabled after it raised once", "callback raising at notification k with more matching notifications afterwards"),
    "C15-C": ("strip() applied to the carried-over tail fragment", "chunk boundary next to whitespace inside a JSON string (stdio only)"),
    "C15-D": ("legacy SSE `if message_id:`", "request with integer id 0 answered through the 202 + event pattern"),
    "C16-C": ("extra checkpoint after open_process in __aenter__", "cancellation pending the instant the spawn completes"),
    "C16-D": ("reader terminates the child on stdout EOF with a non-reset in-progress flag", "child closing stdout without exiting and ignoring SIGTERM, context left within 1 s"),
    "C17-C": ("orjson output re-escaped to ASCII with `cp > 0x10000`", "string containing exactly U+10000"),
    "C17-D": ("incremental decoder reset at every newline", "one read holding the end of a frame and the head of the next, ending mid-character"),
    "C18-C": ("poll rewritten with move_on_after + cancel_called", "response handed over in the same loop pass as the poll timer, delivered first"),
    "C18-D": ("id-bearing messages delivered with send_nowait", "read stream buffer full (100 unread) when the response is routed"),
    "C19-C": ("`if max_age <= 0: return 0` in cleanup", "cleanup with max_age 0 (or negative)"),
    "C19-D": ("activity update moved after the unknown-method early return", "request with a live session id whose method has no handler, then expiry between the two idle times"),
    "C20-C": ("server_params not reset per loop iteration in the runner", "server name list with an unknown name after a valid one"),
    "C20-D": ("loader drops env vars with falsy values", "configured env with an empty-string value"),
    # ---- wave 3 (labels E, F) -------------------------------------------------------------------
    "C01-E": ("request write moved inside `fail_after(timeout)`", "back-pressure on the write stream (peer takes the request late)"),
    "C01-F": ("stdio main-stream delivery with send_nowait for every message", "100 unread messages when the response is routed"),
    "C03-E": ("MCPClient.initialize sets `initialized` before awaiting, resets only on Exception", "caller's own cancellation mid-handshake, then another operation on the same client"),
    "C03-F": ("module-level shared InitializeParams re-read after the answer arrives", "two handshakes overlapping in one process, server 1 answering connection 2's proposal"),
    "C05-E": ("partial-line buffer and decoder kept on the client instance", "same StdioClient entered again after a connection that ended with an unterminated tail"),
    "C05-F": ("legacy per-request delivery and main-stream delivery in one try block", "a per-request stream whose receiving end was closed before the answer arrives"),
    "C06-E": ("send_json() sends through a cloned send handle kept on the client", "send_json() used at least once, then the owner closes the write stream"),
    "C06-F": ("pre-serialised strings folded with `''.join(message.splitlines())`", "pre-serialised string carrying raw U+2028/U+2029/U+0085"),
    "C11-E": ("outgoing messages dispatched in their own tasks", "two pipelined requests, the first answered late with a message-less body"),
    "C11-F": ("`text.splitlines()` in the SSE body parser", "raw U+2028/U+2029/U+0085 in an SSE JSON payload"),
    "C12-E": ("incoming SSE messages routed with send_nowait", "100 undrained messages when another is routed"),
    "C12-F": ("`rstrip('\\r')` removed from the event-stream line handling", "CRLF stream with a typed event followed by an untyped one"),
    "C14-E": ("progress token injected with `setdefault`", "params that already carry `_meta.progressToken` (dict reused from an earlier call)"),
    "C14-F": ("cancelled notification sent under a shielded scope", "write stream full when the cancel is noticed, consumer stalled past the deadline"),
    "C15-E": ("SSE event type reset only when data was dispatched (HTTP transport)", "typed event without data followed by an untyped event"),
    "C15-F": ("stdio notification path uses send_nowait for the main stream too", "100 unread messages when a notification arrives"),
    "C16-E": ("`_closed` flag makes __aexit__ idempotent but is never reset", "the same StdioClient object used for a second connection"),
    "C16-F": ("connect_to_server with explicit enter/exit and `except Exception` around the handshake", "cancellation or timeout while initialize is still waiting"),
    "C18-E": ("id filter skips only when `msg_id is not None`", "an error response with id null while a request is outstanding"),
    "C18-F": ("stdio `_route_message` tests `if not msg_id`", "response id 0 or \"\" with per-request streams"),
    "C02-E": ("stdio writer hands payloads > 64 KiB to the pipe in 64 KiB pieces", "a > 64 KiB outgoing message, back-pressure on the child's stdin, batching off and the server sending a batch meanwhile (the reader's rejection lands inside the message)"),
    "C02-F": ("SSE transport's synthesised transport-failure error echoes the stringified id", "integer request id and a failing POST on the SSE transport"),
    "C04-E": ("`is_supported` as a lookup in a module-level defaultdict that `get_version_info` also indexes", "`get_version_info(V)` called once for a well-formed unsupported V, then an initialize with V"),
    "C04-F": ("in-memory store numbers its session ids from `len(self.sessions)+1`", "a session other than the newest removed, then another initialize (the live session is overwritten with the later version)"),
    "C07-E": ("error text built with the server's message as a `%` format", "error message containing a percent sign"),
    "C07-F": ("`is_mcp_specific_error` unions a set in place", "`is_mcp_specific_error` called at least once earlier in the process, then a code of the other documented set"),
    "C08-E": ("handler registry became a class attribute", "two ProtocolHandler/MCPServer objects alive in one process with different registrations"),
    "C08-F": ("debug-only line dereferences `message.params` of an unhandled notification", "DEBUG logging enabled and an unknown notification without params"),
    "C09-E": ("fallback per-class type-hints cache seeded at class creation", "a model annotated with a forward reference to a class defined later in its module"),
    "C09-F": ("unified JSONRPCMessage.model_dump strips nested nulls under exclude_none (fallback JSON path only)", "an explicit null inside result / params / error.data, fallback backend"),
    "C10-E": ("`ClientCapabilities.roots` default is one shared model instance", "fallback backend; one holder mutates its default-populated `roots`, then another object is validated without `roots`"),
    "C10-F": ("fallback `model_dump_json` expands nested models in the encoder's `default` hook without `by_alias`", "`model_dump_json(by_alias=True)` on a model whose nested model has an aliased field, fallback backend"),
    "C13-E": ("batching flag re-tested per batch member (`break`)", "the version switching to one without batching while a batch line is being routed"),
    "C13-F": ("`update_protocol_version` returns early for an unchanged version + `__aenter__` re-enables batching", "the same StdioClient entered a second time and negotiating the same no-batching version again"),
    "C17-E": ("`fast_json.loads` memoises short documents and hands out a shallow copy", "the same short text decoded twice with a consumer changing something nested in between"),
    "C17-F": ("stdio writer sends a >= 64 KiB frame as payload and terminator in two writes", "a >= 64 KiB message and another writer (batch rejection) between the two writes"),
    "C19-E": ("`list_sessions()` returns the store itself while it is empty", "a listing taken from an empty store, then modified (or the store modified and the listing read)"),
    "C19-F": ("default session store created once as a default argument", "two ProtocolHandler/MCPServer objects in one process"),
    "C20-E": ("parsed-config cache keyed by path treats a failing stat as unchanged", "a successful load, then the file removed (or rewritten with equal size and mtime), then a second call on the same path"),
    "C20-F": ("quiet-server branch of the launcher drops `env=env`", "configured env containing LOG_LEVEL/LOGGING_LEVEL at ERROR or CRITICAL"),
    "C02-A": ("parse_message structure check by truthiness instead of `is None`", "a result / id / params that is falsy (0, \"\", {}, [], false)"),
    "C02-B": ("fallback serialiser drops null-valued entries of nested dicts under exclude_none", "an explicit null inside a free-form nested dict, fallback backend"),
    "C07-A": ("`error.get(\"code\") or INTERNAL_ERROR`", "server error code exactly 0"),
    "C07-B": ("boolean helper's catch-all narrowed to `(RetryableError, TimeoutError)`", "a non-retryable error code answered to send_resources_subscribe"),
    "C13-A": ("`supports_batching` compares `datetime.date` objects", "a version string that is not a calendar date (2025-02-30, bogus)"),
    "C13-B": ("batch rejection tests truthiness of the parsed list", "an empty batch `[]` while batching is off"),
    "C01-G": ("responses skipped by a call are kept per read stream and handed to a later call", "two calls one after the other on one connection, an other-id response bearing the LATER call's id received during the earlier call"),
    "C01-H": ("`message_id if message_id is not None` in send_message + `if not id` in create_request", "caller-supplied message id \"\" or 0 (the id written differs from the id awaited)"),
    "C03-G": ("`update_protocol_version` returns early for an unchanged version + `__aenter__` re-enables batching", "the same StdioClient connected again (or version preset before connecting) and a tracked handshake settling on the version it already carried, batching off"),
    "C03-H": ("`ProtocolVersion.compare` on parsed tuples + fast path `compare(...) == 0`", "server answering the proposed version with a trailing line feed or in non-ASCII digits"),
    "C05-G": ("per-line try guards only json.loads + batch rejection echoes `data[0].get(\"id\")`", "batching off and a junk array line whose first member is not an object"),
    "C05-H": ("unterminated tail that parses as a complete object is processed eagerly", "junk line `{A}{B}` / `{A} trailing` and a read ending exactly after A's closing brace"),
    "C06-G": ("stdin send under `fail_after(5 s)`, re-sent once on timeout", "child leaving stdin unread for more than 5 s after the bytes were handed to the pipe"),
    "C06-H": ("stdlib JSONEncoder cached per set of option NAMES", "fallback model layer, stdlib JSON path and an earlier pretty-printing call in the process"),
    "C11-G": ("session id stored in `self.headers`, which aliases `parameters.headers`", "two connections built from one StreamableHTTPParameters object, server issuing session ids"),
    "C11-H": ("`_route_response` uses send_nowait", "more than 100 messages routed from one body before the reader takes any"),
    "C12-G": ("event-stream buffer split with `splitlines()`", "raw U+2028/U+2029/U+0085 inside an event's JSON text"),
    "C12-H": ("`_pending_requests` became a class-level dict", "two SSE connections alive, requests in the 202-wait state (same id, or the neighbour leaving)"),
    "C14-G": ("'peer already told' flag moved onto the token", "one token shared by two requests (concurrent, or re-used after it was triggered)"),
    "C14-H": ("cancellation noticed through a token callback + try/except hoisted out of the loop in `cancel()`", "a failing user callback registered on the token before the call"),
    "C15-G": ("legacy SSE: endpoint heuristic applied to untyped events for the whole session", "untyped event whose JSON text contains /mcp or /messages/"),
    "C15-H": ("one module-level incremental UTF-8 decoder for all stdio connections", "two stdio connections alive, a read boundary inside a multi-byte character on one and a read on the other in between"),
    "C16-G": ("shutdown grace periods take the initialize timeout", "stdio_client_with_initialize and a child ignoring SIGTERM"),
    "C16-H": ("`_pending` table hoisted to class level", "two connections alive using per-request streams with the same id, one server dead"),
    "C18-G": ("`_pending` table moved to the class body", "two connections alive, per-request callers using the same ids"),
    "C18-H": ("per-request entry removed after the main-stream hand-over instead of before", "caller re-registering the same id the moment its answer arrives"),
}


def main():
    rows = []
    for f in sorted(glob.glob(os.path.join(ROOT, "seeded", "*", "meta.json"))):
        m = json.load(open(f))
        d = DESC.get(m["id"])
        if d:
            m["change"], m["needs"] = d
            json.dump(m, open(f, "w"), indent=1)
        checks = m.get("checks") or {}
        ran = ", ".join(f"{c}:{'caught' if v['exit'] == 1 and v['violation_lines'] else ('HARNESS-ERR' if v['exit'] == 2 else 'silent')}"
                        for c, v in checks.items())
        rows.append(f"| {m['id']} | {m.get('change', '?')} | {m.get('needs', '?')} | "
                    f"{'yes' if m.get('confirmed') else 'NO'} | {', '.join(m.get('detected_by') or []) or '-'} | {ran} |")
    print("| id | change | needs, to manifest | confirmed (demo flips, suite green) | detected by | checks run |")
    print("|---|---|---|---|---|---|")
    print("\n".join(rows))


if __name__ == "__main__":
    main()
