#!/venv/bin/python
"""Print the catch matrix of /verif/seeded/*/meta.json as a markdown table and
merge the one-line descriptions below into each meta.json (fields 'change', 'needs')."""
import glob
import json
import os

ROOT = os.path.dirname(os.path.dirname(os.path.abspath(__file__)))
DESC = {
    "C01-A": ("id filter compares str(id): `str(msg_id) != str(req_id)`", "digit-string request id and a response with the equal-digits integer id"),
    "C01-B": ("non-response guard by isinstance(JSONRPCRequest/Notification) instead of `method is not None`", "server request reusing the outstanding id delivered as the unified legacy class (what every transport delivers)"),
    "C03-A": ("membership test against the comma-joined list string (`server_version in supported` with supported a str)", "server answers a string that is a fragment of the offered list (\"\", \"2025\", \"06-18\")"),
    "C03-B": ("`move_on_after(timeout)` around sending notifications/initialized", "unbuffered/full write stream whose consumer stalls longer than the timeout after the server's answer"),
    "C04-A": ("is_supported compares parsed (y,m,d) tuples", "requested version with non-ASCII digits or trailing newline equal in value to a supported date"),
    "C04-B": ("re-initialize with a live session id reuses the session without updating its version", "second initialize carrying the first one's session id with a different version"),
    "C05-A": ("`decoder.decode(chunk, final=b'\\n' in chunk)`", "a read containing an LF and ending inside a multi-byte character"),
    "C05-B": ("`rpartition('\\n')` + `splitlines()`", "raw U+2028/U+2029/U+0085 inside a JSON string"),
    "C06-A": ("payloads > 64 KiB written as two sends (body, newline)", "large message under back-pressure while the reader writes a batch-rejection error to the same stdin"),
    "C06-B": ("newline appended inside fast_json.dumps except on the orjson-fails->stdlib path", "dict message holding a value orjson rejects (int >= 2^64, deep nesting)"),
    "C08-A": ("unknown-tool pre-check replaced by `except KeyError` around lookup+call", "registered tool/resource handler raising KeyError"),
    "C08-B": ("failing dispatch reads (id, method) back from an instance attribute", "two overlapping dispatches; the first handler suspends, then raises"),
    "C09-A": ("fallback list serialisation forgets by_alias", "aliased member on a model nested inside a list field, fallback backend"),
    "C09-B": ("fallback type cache keyed by (class name, field)", "two same-named model classes validated in one process, order-dependent"),
    "C10-A": ("fallback alias map cached per bare class name", "same-named classes in one process (messages-layer Tool first, then types-layer Tool with _meta)"),
    "C10-B": ("`str_strip_whitespace` on Resource", "declared string member starting/ending with whitespace, Pydantic backend"),
    "C11-A": ("event type reset only when an event was dispatched", "typed SSE event without data followed by an event without event field"),
    "C11-B": ("session id taken only when none is set yet", "server issues a second, different session id"),
    "C12-A": ("`aiter_bytes()` + per-chunk `.decode()`", "event-stream chunk boundary inside a multi-byte character"),
    "C12-B": ("pending futures cancelled after (not before) the tasks are cancelled in `_cleanup`", "leaving the context while a request is in the '202 received, event not yet seen' state"),
    "C14-A": ("cancellation checked only on idle polls", "unrelated message after the cancel (a flood hides the cancel until the deadline)"),
    "C14-B": ("non-increasing progress values are dropped", "progress stream that is not strictly increasing / missing progress field twice"),
    "C15-A": ("HTTP SSE body parsed with `splitlines()`", "raw U+2028/U+2029/U+0085 in payload text over Streamable HTTP with SSE body"),
    "C15-B": ("legacy SSE registers the pending future only after the 202", "answer event delivered before the POST's 202 returns"),
    "C16-A": ("termination shielded only when the exit itself was a cancellation", "cancellation arriving while __aexit__ is already running, child slow to die"),
    "C16-B": ("stdin write wrapped in a shielded scope", "child not reading stdin with > pipe-buffer of queued output when the context is left"),
    "C17-A": ("`if 'indent' in kwargs` in the orjson path", "fallback model base (passes indent=None) with orjson installed"),
    "C17-B": ("stdio reader `splitlines(keepends=True)`", "raw U+2028/U+0085 written unescaped by an orjson peer"),
    "C18-A": ("auto ids from a per-stream-object counter", "callers using clones of the write stream without explicit ids"),
    "C18-B": ("`buffer.split('\\n', 1)` in the stdio reader", "two or more complete lines in one stdout read"),
    "C19-A": ("expiry cutoff from `int(time.time())`", "clock with a fractional part, idle time < 1 s past the limit"),
    "C19-B": ("initialize with a live session id overwrites that record", "second initialize carrying a live session id"),
    "C20-A": ("command resolved with shutil.which on the host PATH", "bare command name, configured env with its own PATH, same-named program on the host PATH"),
    "C20-B": ("runner de-duplicates servers by (command, args)", "two servers sharing command+args, differing only in env"),
}


def main():
    rows = []
    for f in sorted(glob.glob(os.path.join(ROOT, "seeded", "*", "meta.json"))):
        m = json.load(open(f))
        d = DESC.get(m["id"])
        if d:
            m["change"], m["needs"] = d
            json.dump(m, open(f, "w"), indent=1)
        checks = m.get("checks") or {}
        ran = ", ".join(f"{c}:{'caught' if v['exit'] == 1 and v['violation_lines'] else ('HARNESS-ERR' if v['exit'] == 2 else 'silent')}"
                        for c, v in checks.items())
        rows.append(f"| {m['id']} | {m.get('change', '?')} | {m.get('needs', '?')} | "
                    f"{'yes' if m.get('confirmed') else 'NO'} | {', '.join(m.get('detected_by') or []) or '-'} | {ran} |")
    print("| id | change | needs, to manifest | confirmed (demo flips, suite green) | detected by | checks run |")
    print("|---|---|---|---|---|---|")
    print("\n".join(rows))


if __name__ == "__main__":
    main()
