#!/venv/bin/python
"""Confirm a candidate property-breaking change and record it under /verif/seeded/.

usage: seeded.py <PROP> <LABEL> <patch.diff> <demo.py> [--checks C01,C14] [--notes notes.md] [--no-suite]

Steps (all in a scratch git worktree of /repo under /tmp, removed afterwards):
  1. demo on the clean tree            -> must pass (exit 0)
  2. apply the patch, demo again        -> must fail (exit != 0)
  3. repository test suite with patch   -> must pass (same command as BASELINE.json, serial)
  4. every requested check, run with VERIF_REPO_SRC pointing at the patched tree -> record exit code
Writes /verif/seeded/<PROP>-<LABEL>/{patch.diff, demo.py, meta.json}.
"""
import argparse
import json
import os
import shutil
import subprocess
import sys
import time

VERIF = os.path.dirname(os.path.dirname(os.path.abspath(__file__)))


def sh(cmd, cwd=None, env=None, timeout=3600):
    p = subprocess.run(cmd, shell=True, cwd=cwd, env=env, capture_output=True, text=True, timeout=timeout)
    return p.returncode, (p.stdout + p.stderr)


def main():
    ap = argparse.ArgumentParser()
    ap.add_argument("prop")
    ap.add_argument("label")
    ap.add_argument("patch")
    ap.add_argument("demo")
    ap.add_argument("--checks", default=None)
    ap.add_argument("--notes", default=None)
    ap.add_argument("--no-suite", action="store_true")
    ap.add_argument("--tier", default="quick")
    a = ap.parse_args()
    name = f"{a.prop}-{a.label}"
    wt = f"/tmp/sw/{name}"
    shutil.rmtree(wt, ignore_errors=True)
    os.makedirs("/tmp/sw", exist_ok=True)
    sh(f"git -C /repo worktree prune")
    rc, out = sh(f"git -C /repo worktree add -q --detach {wt} HEAD")
    if rc:
        print("worktree failed", out)
        return 2
    meta = {"id": name, "property": a.prop, "repo_head": sh("git -C /repo rev-parse HEAD")[1].strip(), "ran": {}}
    env = dict(os.environ, PYTHONPATH=f"{wt}/src", PYTHONHASHSEED="0")
    demo = os.path.abspath(a.demo)
    try:
        rc0, out0 = sh(f"/venv/bin/python {demo}", cwd=wt, env=env, timeout=300)
        meta["ran"]["demo_clean"] = {"exit": rc0, "tail": out0[-300:]}
        rc, out = sh(f"git apply {os.path.abspath(a.patch)}", cwd=wt)
        if rc:
            print("patch does not apply:", out)
            meta["ran"]["apply"] = out[-300:]
            print(json.dumps(meta, indent=1))
            return 2
        rc1, out1 = sh(f"/venv/bin/python {demo}", cwd=wt, env=env, timeout=300)
        meta["ran"]["demo_patched"] = {"exit": rc1, "tail": out1[-300:]}
        ok = rc0 == 0 and rc1 != 0
        if not a.no_suite and ok:
            t0 = time.time()
            rc2, out2 = sh("/venv/bin/python -m pytest -q -p no:cacheprovider --timeout=900 --continue-on-collection-errors",
                           cwd=wt, timeout=3000)
            tail = [l for l in out2.splitlines() if " passed" in l or " failed" in l][-1:] or [out2[-200:]]
            meta["ran"]["suite_patched"] = {"exit": rc2, "summary": tail[0], "wall_s": round(time.time() - t0)}
            ok = ok and rc2 == 0
        meta["confirmed"] = bool(ok)
        detected = {}
        if ok and a.checks:
            for cid in a.checks.split(","):
                envc = dict(os.environ, VERIF_REPO_SRC=f"{wt}/src")
                t0 = time.time()
                rc3, out3 = sh(f"./check {cid} --tier {a.tier}", cwd=VERIF, env=envc, timeout=3600)
                sigs = sorted({l.strip()[:200] for l in out3.splitlines() if l.strip().startswith("sig=")})[:6]
                detected[cid] = {"exit": rc3, "violation_lines": sum(1 for l in out3.splitlines() if l.startswith("VIOLATION")),
                                 "harness_errors": [l[:200] for l in out3.splitlines() if l.startswith("HARNESS-ERROR")][:3],
                                 "signatures": sigs, "wall_s": round(time.time() - t0)}
            meta["checks"] = detected
            meta["detected_by"] = [c for c, d in detected.items() if d["exit"] == 1 and d["violation_lines"] > 0]
    finally:
        sh(f"git -C /repo worktree remove --force {wt}")
        shutil.rmtree(wt, ignore_errors=True)
    if meta.get("confirmed"):
        d = os.path.join(VERIF, "seeded", name)
        os.makedirs(d, exist_ok=True)
        shutil.copy(a.patch, os.path.join(d, "patch.diff"))
        shutil.copy(a.demo, os.path.join(d, "demo.py"))
        if a.notes and os.path.exists(a.notes):
            shutil.copy(a.notes, os.path.join(d, "notes.md"))
        with open(os.path.join(d, "meta.json"), "w") as f:
            json.dump(meta, f, indent=1)
    print(json.dumps({k: v for k, v in meta.items() if k != "ran"}, indent=1)[:1500])
    print("ran:", json.dumps({k: (v if not isinstance(v, dict) else {x: y for x, y in v.items() if x != "tail"}) for k, v in meta["ran"].items()}))
    return 0 if meta.get("confirmed") else 1


if __name__ == "__main__":
    sys.exit(main())
