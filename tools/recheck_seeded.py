#!/venv/bin/python
"""Re-run the checks against every confirmed seeded change (no demo / suite re-run) and
update seeded/<id>/meta.json.  usage: recheck_seeded.py [--all-checks] [id ...]

For each seeded change: a scratch copy of /repo/src with the patch applied (outside /repo and
/verif, removed afterwards), then `VERIF_REPO_SRC=<copy> ./check <ID>` for the property's own
check and every check recorded before."""
import glob
import json
import os
import shutil
import subprocess
import sys
import tempfile
import time

ROOT = os.path.dirname(os.path.dirname(os.path.abspath(__file__)))


def main():
    args = [a for a in sys.argv[1:] if not a.startswith("--")]
    dirs = sorted(glob.glob(os.path.join(ROOT, "seeded", "*")))
    head = subprocess.run(["git", "-C", "/repo", "rev-parse", "HEAD"], capture_output=True, text=True).stdout.strip()
    for d in dirs:
        name = os.path.basename(d)
        if args and name not in args:
            continue
        mf = os.path.join(d, "meta.json")
        if not os.path.exists(mf):
            continue
        meta = json.load(open(mf))
        if not meta.get("confirmed"):
            continue
        checks = sorted(set([meta["property"]] + list((meta.get("checks") or {}).keys())))
        tmp = tempfile.mkdtemp(prefix="rs.", dir="/tmp")
        try:
            shutil.copytree("/repo/src", os.path.join(tmp, "src"))
            p = subprocess.run(["patch", "-p1", "-s", "-i", os.path.join(d, "patch.diff")], cwd=tmp, capture_output=True, text=True)
            if p.returncode:
                print(name, "PATCH NO LONGER APPLIES:", (p.stdout + p.stderr)[-200:])
                meta["recheck"] = {"repo_head": head, "error": "patch does not apply"}
                json.dump(meta, open(mf, "w"), indent=1)
                continue
            res = {}
            for c in checks:
                env = dict(os.environ, VERIF_REPO_SRC=os.path.join(tmp, "src"))
                t0 = time.time()
                q = subprocess.run(["./check", c, "--tier", "quick"], cwd=ROOT, env=env, capture_output=True, text=True)
                out = q.stdout + q.stderr
                res[c] = {"exit": q.returncode,
                          "violation_lines": sum(1 for l in out.splitlines() if l.startswith("VIOLATION")),
                          "harness_errors": [l[:200] for l in out.splitlines() if l.startswith("HARNESS-ERROR")][:3],
                          "signatures": sorted({l.strip()[:200] for l in out.splitlines() if l.strip().startswith("sig=")})[:6],
                          "wall_s": round(time.time() - t0)}
            meta["checks"] = res
            meta["detected_by"] = [c for c, r in res.items() if r["exit"] == 1 and r["violation_lines"] > 0]
            meta["rechecked_at_repo_head"] = head
            json.dump(meta, open(mf, "w"), indent=1)
            print(name, "detected_by", meta["detected_by"], {c: r["exit"] for c, r in res.items()}, flush=True)
        finally:
            shutil.rmtree(tmp, ignore_errors=True)


if __name__ == "__main__":
    main()
