#!/venv/bin/python
"""Regenerate the seeded-change table inside DESIGN.md (between the seeded-table markers)."""
import os
import re
import subprocess

ROOT = os.path.dirname(os.path.dirname(os.path.abspath(__file__)))
table = subprocess.run([os.path.join(ROOT, "tools", "seeded_table.py")], capture_output=True, text=True).stdout
p = os.path.join(ROOT, "DESIGN.md")
s = open(p).read()
block = "<!-- seeded-table:begin -->\n" + table + "<!-- seeded-table:end -->"
if "SEEDED-TABLE-PLACEHOLDER" in s:
    s = s.replace("SEEDED-TABLE-PLACEHOLDER", block)
else:
    s = re.sub(r"<!-- seeded-table:begin -->.*?<!-- seeded-table:end -->", lambda m: block, s, flags=re.S)
open(p, "w").write(s)
print("rows:", table.count("\n") - 2)
