"""Parent side of the object-level probes shared by C09 and C10: equality of model objects, 'reading does not change',
stateful helpers, order of dump calls.  The child side is in vf/modelops.py."""
from __future__ import annotations

import itertools
import json
import threading
from typing import Any, Dict, List, Sequence, Tuple

from . import modelops, orderdep, wiregen, workers
from .workers import enc

ENVELOPES = [
    {"jsonrpc": "2.0", "id": 1, "method": "tools/call", "params": {"name": "t", "arguments": {"a": None}}},
    {"jsonrpc": "2.0", "id": "s", "method": "ping"},
    {"jsonrpc": "2.0", "method": "notifications/message", "params": {"level": "info"}},
    {"jsonrpc": "2.0", "id": 7, "result": {"content": [], "_meta": {"k": 1}}},
    {"jsonrpc": "2.0", "id": 7, "result": [1, 2]},
    {"jsonrpc": "2.0", "id": "e", "error": {"code": -32601, "message": "m", "data": {"k": None}}},
]


def _plain_cases(mcases: Sequence[Dict[str, Any]]) -> Dict[str, List[Dict[str, Any]]]:
    by: Dict[str, List[Dict[str, Any]]] = {}
    for c in mcases:
        if not c["label"].startswith("unknown:") and not any(v is None for v in c["wire"].values()):
            by.setdefault(c["target"], []).append(c)
    return by


def fullest(cases: List[Dict[str, Any]]) -> Dict[str, Any]:
    rows = [c for c in cases if c["label"].split(":")[0] in ("subset", "pairwise") and "+extra" not in c["label"]]
    return max(rows or cases, key=lambda c: len(c["wire"]))


def methods_cases(mcases: Sequence[Dict[str, Any]]) -> List[Dict[str, Any]]:
    out = []
    for q, cs in sorted(_plain_cases(mcases).items()):
        picked = [fullest(cs)] + [c for c in cs if c["label"].endswith("+extra:x-unknown")][:1] + cs[:1]
        seen = set()
        for c in picked:
            k = workers.canon(c["wire"])
            if k not in seen:
                seen.add(k)
                out.append({"target": q, "label": c["label"], "wire": c["wire"]})
    for i, w in enumerate(ENVELOPES):
        out.append({"target": "parse_message", "label": f"envelope#{i}", "wire": w})
        if isinstance(w.get("result", {}), dict):
            out.append({"target": "chuk_mcp.protocol.messages.json_rpc_message:JSONRPCMessage", "label": f"unified-envelope#{i}",
                        "wire": w})
    return out


def shared_cases(mcases: Sequence[Dict[str, Any]]) -> List[Dict[str, Any]]:
    """Objects in which instances are then shared: the fullest object of every class and its multi-item list variants."""
    out = []
    for q, cs in sorted(_plain_cases(mcases).items()):
        seen = set()
        for c in [fullest(cs)] + [c for c in cs if c["label"].startswith("value:") and c["label"].endswith("/full")
                                  and any(isinstance(v, list) and len(v) > 1 for v in c["wire"].values())]:
            k = workers.canon(c["wire"])
            if k not in seen:
                seen.add(k)
                out.append({"target": q, "label": c["label"], "wire": c["wire"]})
    return out


def eq_cases(mcases: Sequence[Dict[str, Any]]) -> List[Dict[str, Any]]:
    """Pairs of wire objects of one class: equal / different in one member / different only in an unknown member."""
    out = []
    for q, cs in sorted(_plain_cases(mcases).items()):
        base = fullest(cs)
        out.append({"target": q, "pair": "equal", "a": base["wire"], "b": json.loads(json.dumps(base["wire"]))})
        n = 0
        for c in cs:
            if c["label"].startswith("value:") and c["label"].endswith("/full") and \
                    workers.canon(c["wire"]) != workers.canon(base["wire"]) and set(c["wire"]) == set(base["wire"]):
                out.append({"target": q, "pair": "different-in-one-member", "a": base["wire"], "b": c["wire"],
                            "member": c["label"][6:].split("#")[0]})
                n += 1
                if n >= 6:
                    break
        out.append({"target": q, "pair": "different-only-in-an-unknown-member", "a": base["wire"],
                    "b": {**base["wire"], "x-vf-unknown": 1}})
        out.append({"target": q, "pair": "different-only-in-the-value-of-an-unknown-member",
                    "a": {**base["wire"], "x-vf-unknown": 1}, "b": {**base["wire"], "x-vf-unknown": 2}})
    return out


def helper_cases() -> List[Dict[str, Any]]:
    out = []
    n = len(modelops.ROOT_OPS)
    for L in (1, 2, 3):
        for seq in itertools.product(range(n), repeat=L):
            out.append({"helper": "chuk_mcp.protocol.messages.roots.send_messages:RootsManager", "seq": list(seq),
                        "text": " > ".join(modelops.ROOT_OPS[i] for i in seq)})
    for ti in range(len(modelops.TOOL_WIRES)):
        for hk in range(len(modelops.HANDLER_KINDS)):
            for t2 in (-1, 0, 1, 2):
                for ci in range(3):
                    out.append({"helper": "chuk_mcp.protocol.types.tools:ToolRegistry", "seq": [ti, hk, t2, ci],
                                "text": f"register tool#{ti} ({modelops.HANDLER_KINDS[hk]})"
                                        + (f" > register tool#{t2}" if t2 >= 0 else "") + f" > call_tool({['t', 'u', 'missing'][ci]})"})
    return out


def dumporder_cases(mcases: Sequence[Dict[str, Any]]) -> List[Dict[str, Any]]:
    """Per class: the single dump calls (references) and every ordered pair of two different dump calls, the first on one
    object, the second on another object of the same class."""
    out = []
    nc = len(modelops.DUMP_CALLS)
    for q, cs in sorted(_plain_cases(mcases).items()):
        a = fullest(cs)
        others = [c for c in cs if workers.canon(c["wire"]) != workers.canon(a["wire"])]
        b = max(others, key=lambda c: len(c["wire"])) if others else a
        wires = [enc(a["wire"]), enc(b["wire"])]
        for ci in range(nc):
            out.append({"target": q, "wires": wires, "calls": [[1, ci]], "reference": True})
        for c1, c2 in itertools.permutations(range(nc), 2):
            out.append({"target": q, "wires": wires, "calls": [[0, c1], [1, c2]], "reference": False})
    return out


def start(handler: str, configs: Sequence[Dict[str, Any]], groups: Dict[str, List[Any]], n_each: int = 2):
    """Put several groups of cases to fresh pools of every configuration in a background thread.
    -> join() -> {group: {config name: answers}}, audits (list of (config, group, audit result))"""
    box: Dict[str, Any] = {}

    def go(cfg):
        out = {}
        audits = []
        with workers.Pool(cfg, handler, n_each) as pool:
            hello = pool.map([{"op": "helpers"}], batch=1)[0]
            for g, cases in groups.items():
                out[g] = pool.map(cases) if cases else []
        for g, cases in groups.items():
            if cases:
                audits.append((g, workers.audit(cfg, handler, cases, out[g], 5, cap=1500)))
        return out, audits, hello

    def bg():
        try:
            box["got"] = orderdep.per_config(configs, go)
        except BaseException as e:  # noqa: BLE001
            box["err"] = e

    th = threading.Thread(target=bg)
    th.start()

    def join():
        th.join()
        if "err" in box:
            raise RuntimeError(f"object probes failed: {box['err']}")
        answers = {g: {n: box["got"][n][0][g] for n in box["got"]} for g in groups}
        audits = [(n, g, a) for n in box["got"] for (g, a) in box["got"][n][1]]
        hello = {n: box["got"][n][2] for n in box["got"]}
        return answers, audits, hello

    return join


def unionseq_cases() -> List[Dict[str, Any]]:
    calls = [[v, i] for v in range(len(modelops.UNION_VIAS)) for i in range(len(modelops.UNION_IDS))]
    out = [{"calls": [c], "reference": True} for c in calls]
    out += [{"calls": [a, b], "reference": False} for a in calls for b in calls]
    return out


def describe_union_call(c: List[int]) -> str:
    return f"{modelops.UNION_VIAS[c[0]]} with id {modelops.UNION_IDS[c[1]]!r}"


def crossclass_cases(mcases: Sequence[Dict[str, Any]]) -> List[Dict[str, Any]]:
    """For every model class Y with public names of its own (methods, predicates) and every such name n: an object of
    another class X carrying an unknown member n is validated first, then an object of Y carrying it (and Y alone as the
    reference) - through model_validate and, for the JSON-RPC envelope classes, through parse_message."""
    names = {q: v for q, v in modelops.class_specific_names().items() if not wiregen.is_config_class(wiregen.resolve(q))}
    by = _plain_cases(mcases)
    out = []
    xs_all = sorted(by)
    for qy, ns in sorted(names.items()):
        ys = by.get(qy, [])
        if not ys:
            continue
        ywires = [ys[0]["wire"], fullest(ys)["wire"]]
        xs = [q for q in xs_all if q != qy and not wiregen.is_config_class(wiregen.resolve(q))]
        xs = [xs[0], xs[len(xs) // 2], xs[-1]] + [q for q in xs if q.endswith(":JSONRPCResponse")]
        for n in ns[:12]:
            for val in (True, {"k": 1}):
                for yw in ywires:
                    yc = {"op": "validate", "target": qy, "wire": enc({**yw, n: val})}
                    out.append({"cases": [yc], "reference": True, "y": qy, "member": n})
                    for qx in dict.fromkeys(xs):
                        xc = {"op": "validate", "target": qx, "wire": enc({**by[qx][0]["wire"], n: val})}
                        out.append({"cases": [xc, yc], "reference": False, "y": qy, "x": qx, "member": n, "ref_index": None})
                if qy.endswith(":JSONRPCMessage"):
                    yc = {"op": "validate", "target": "parse_message", "wire": enc({"jsonrpc": "2.0", "id": 2, "result": {"k": 1}, n: val})}
                    out.append({"cases": [yc], "reference": True, "y": "parse_message", "member": n})
                    for xw in ({"jsonrpc": "2.0", "id": 1, "result": [1], n: val}, {"jsonrpc": "2.0", "id": 1, "result": "s", n: val}):
                        xc = {"op": "validate", "target": "parse_message", "wire": enc(xw)}
                        out.append({"cases": [xc, yc], "reference": False, "y": "parse_message", "x": "parse_message(non-object result)",
                                    "member": n})
    return out


def constructed_cases(mcases: Sequence[Dict[str, Any]]) -> List[Dict[str, Any]]:
    out = []
    for q, cs in sorted(_plain_cases(mcases).items()):
        seen = set()
        for c in (cs[0], fullest(cs)):
            k = workers.canon(c["wire"])
            if k not in seen:
                seen.add(k)
                # members with a default that the wire object spells out are left out: the application relies on the default
                cls = wiregen.resolve(q)
                req = {f.wire for f in wiregen.fields(cls) if f.required}
                lit = {f.wire for f in wiregen.fields(cls) if not f.required and wiregen.wire_required(f)}
                out.append({"target": q, "label": c["label"], "wire": {k_: v for k_, v in c["wire"].items() if k_ not in lit}})
                if lit & set(c["wire"]):
                    out.append({"target": q, "label": c["label"] + "/literals-spelled-out", "wire": c["wire"]})
    return out
