"""Real child for the C05 seam conformance run: writes the given byte chunks to stdout one
os.write() at a time with a pause in between (forced partial writes), then waits for stdin EOF.
usage: chunk_writer.py <spec.json>   spec = {"chunks": [hex, ...], "pause_ms": 8}"""
import json
import os
import sys
import time

spec = json.load(open(sys.argv[1]))
for h in spec["chunks"]:
    data = bytes.fromhex(h)
    while data:
        n = os.write(1, data)
        data = data[n:]
    time.sleep(spec.get("pause_ms", 8) / 1000.0)
try:
    sys.stdin.read()
except Exception:
    pass
