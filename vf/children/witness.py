"""C20 witness child: a minimal newline-delimited JSON-RPC stdio server that
records how it was launched.  Standalone - standard library only, never imports
chuk_mcp (its environment may be just {"A": "1"}: no PYTHONPATH, no PATH).

(When the environment has C20_WITNESS_DIR naming an existing directory, the record
goes there instead - used for servers that share command and args and differ
only in env.  The file is also installed as an executable '#!<python>' wrapper
under a bare command name, to observe which PATH resolved it.)

The harness copies this file into a per-server directory of a per-case temp
directory and names that copy as the first configured argument, so the record
location is learnt from the script's own path: no token has to travel through
the configured args or environment, and nothing needs stripping before the
comparison.

Record: <dir of this file>/events.jsonl, one JSON object per line
  {"pid", "ev": "start", "argv": [hex bytes...], "env": {hex: hex}}
  {"pid", "ev": "recv", "method": str|None, "has_id": bool}
Each line is written (and flushed) BEFORE the corresponding response is sent, so
whoever holds a response can rely on the line being in the file.
"""
import json
import os
import sys

HERE = os.path.dirname(os.path.abspath(__file__))
# servers that must share command AND args can only differ in env: then the record directory comes from there
_SINK = os.environ.get("C20_WITNESS_DIR")
if _SINK and os.path.isdir(_SINK):
    HERE = _SINK
LOG = os.path.join(HERE, "events.jsonl")
PID = os.getpid()


def log(ev):
    ev["pid"] = PID
    fd = os.open(LOG, os.O_WRONLY | os.O_CREAT | os.O_APPEND, 0o600)
    try:
        os.write(fd, (json.dumps(ev, sort_keys=True) + "\n").encode("ascii"))
    finally:
        os.close(fd)


def raw_argv():
    """The argument vector exactly as exec'd: bytes, hex-encoded."""
    try:
        with open("/proc/self/cmdline", "rb") as f:
            data = f.read()
        if data.endswith(b"\0"):
            data = data[:-1]
        return [p.hex() for p in data.split(b"\0")]
    except OSError:
        return [os.fsencode(a).hex() for a in getattr(sys, "orig_argv", [sys.executable] + sys.argv)]


def raw_env():
    try:
        with open("/proc/self/environ", "rb") as f:
            data = f.read()
        out = {}
        for item in data.split(b"\0"):
            if not item:
                continue
            k, _, v = item.partition(b"=")
            out[k.hex()] = v.hex()
        return out
    except OSError:
        return {os.fsencode(k).hex(): os.fsencode(v).hex() for k, v in os.environ.items()}


def send(obj):
    sys.stdout.buffer.write((json.dumps(obj) + "\n").encode("utf-8"))
    sys.stdout.buffer.flush()


def main():
    log({"ev": "start", "argv": raw_argv(), "env": raw_env()})
    stdin = sys.stdin.buffer
    while True:
        line = stdin.readline()
        if not line:
            return 0
        try:
            msg = json.loads(line.decode("utf-8"))
        except Exception:
            continue
        if not isinstance(msg, dict):
            continue
        method = msg.get("method")
        mid = msg.get("id")
        log({"ev": "recv", "method": method if isinstance(method, str) else None, "has_id": mid is not None})
        if mid is None:
            continue
        if method == "initialize":
            params = msg.get("params") or {}
            send({"jsonrpc": "2.0", "id": mid, "result": {
                "protocolVersion": params.get("protocolVersion", "2025-06-18"),
                "capabilities": {"tools": {"listChanged": False}},
                "serverInfo": {"name": "c20-witness", "version": "1.0"},
            }})
        elif method == "ping":
            send({"jsonrpc": "2.0", "id": mid, "result": {}})
        elif method == "tools/list":
            send({"jsonrpc": "2.0", "id": mid, "result": {"tools": []}})
        elif method is not None:
            send({"jsonrpc": "2.0", "id": mid, "error": {"code": -32601, "message": "method not found"}})


if __name__ == "__main__":
    sys.exit(main())
