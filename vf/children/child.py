"""Real child for the C16 fault matrix.  Usage: child.py <behaviour>.
Standalone (stdlib only).  Speaks newline-delimited JSON-RPC on stdio."""
import json
import os
import signal
import sys
import time


def out(obj):
    sys.stdout.write(json.dumps(obj) + "\n")
    sys.stdout.flush()


def main():
    b = sys.argv[1] if len(sys.argv) > 1 else "well"
    if b == "slow-start":
        time.sleep(0.5)
    if b in ("ignore-term",):
        signal.signal(signal.SIGTERM, signal.SIG_IGN)
    if b == "exit-at-spawn":
        out({"jsonrpc": "2.0", "method": "notifications/ready"})
        sys.exit(3)
    out({"jsonrpc": "2.0", "method": "notifications/ready"})
    if b == "never-reads":
        while True:
            time.sleep(3600)
    if b == "stdout-flood":
        line = json.dumps({"jsonrpc": "2.0", "method": "notifications/message", "params": {"data": "x" * 200}}) + "\n"
        try:
            while True:
                sys.stdout.write(line)
                sys.stdout.flush()
        except BrokenPipeError:
            os._exit(0)
    if b == "closes-stdout":
        sys.stdout.flush()
        os.close(1)
    if b == "closes-stdin":
        os.close(0)
        while True:
            time.sleep(3600)
    for raw in sys.stdin:
        raw = raw.strip()
        if not raw:
            continue
        try:
            msg = json.loads(raw)
        except Exception:
            continue
        method = msg.get("method")
        if method == "initialize" and "id" in msg:
            out({"jsonrpc": "2.0", "id": msg["id"], "result": {
                "protocolVersion": (msg.get("params") or {}).get("protocolVersion", "2025-06-18"),
                "capabilities": {}, "serverInfo": {"name": "child-" + b, "version": "1"}}})
            continue
        if b == "exit-on-request" and method == "tools/list":
            sys.exit(0)
        if "id" in msg and method == "tools/list" and b != "closes-stdout":
            out({"jsonrpc": "2.0", "id": msg["id"], "result": {"tools": []}})
            if b == "exit-after-response":
                sys.exit(0)
        # method "slow/never" is never answered
    # stdin closed: a well-behaved server exits
    if b == "ignore-term":
        while True:
            time.sleep(3600)


if __name__ == "__main__":
    try:
        main()
    except (BrokenPipeError, KeyboardInterrupt):
        os._exit(0)
