"""Plain pytest replay of stored violation artefacts, without the explorer.

    PYTHONPATH=/repo/src:/verif /venv/bin/python -m pytest -q vf/replay_test.py [--replay-file path]

Every /verif/replays/<ID>/<hash>.json (written when a check reports a violation)
is one test: it re-runs exactly that execution / case and *fails* while the
violation is still there (so it passes once the defect is repaired).
"""
import glob
import importlib
import json
import os

import pytest

ROOT = os.path.dirname(os.path.dirname(os.path.abspath(__file__)))
FILES = sorted(glob.glob(os.path.join(ROOT, "replays", "*", "*.json")))


@pytest.mark.parametrize("path", FILES or [None])
def test_replay(path):
    if path is None:
        pytest.skip("no replay artefacts present")
    with open(path) as f:
        doc = json.load(f)
    rp = doc["replay"]
    mod, _, name = rp["ref"].partition(":")
    obs = getattr(importlib.import_module(mod), name)(rp["args"])
    assert not (obs.get("violations") or []), f"{doc['property']} {doc['sig']}: {doc['message'][:300]}"
