"""Virtual-time asyncio event loop for exhaustive schedule exploration.

VLoop has no selector and no real I/O.  Its clock is a field; when the ready
queue is empty the harness's *idle hook* is consulted (that is where the
environment takes its decisions) and then the clock jumps to the earliest
timer.  Timers that are due in the same instant are ordered by
(when, tie_rank, creation sequence) so that "environment event lands exactly on
a library timer" is explored in both orders, reproducibly.
"""
from __future__ import annotations

import asyncio
import gc
import heapq
import itertools
from asyncio import events
from typing import Any, Callable, List, Optional


class Deadlock(Exception):
    """Main task unfinished, nothing ready, no timer: the execution hangs forever."""


class HorizonExceeded(Exception):
    """Virtual time passed the harness horizon (livelock / unbounded polling)."""


class StepBudgetExceeded(Exception):
    """Too many loop iterations without virtual time advancing (busy loop)."""


EPS = 1e-6
STATS = {"ties": 0}  # equal-time timer batches seen by the loops of the current execution


class VTimer(asyncio.TimerHandle):
    __slots__ = ("_vseq", "_vrank")


class VLoop(asyncio.BaseEventLoop):
    def __init__(self, horizon: float = 60.0, max_steps: int = 2_000_000):
        super().__init__()
        self._vtime = 0.0
        self._clock_resolution = 1e-9
        self._vseq = itertools.count()
        self.idle_hook: Optional[Callable[["VLoop"], None]] = None
        self.horizon = horizon
        self.max_steps = max_steps
        self.steps = 0
        self.errors: List[dict] = []
        self.set_exception_handler(self._record_error)
        self._next_rank = 0

    # -- clock ---------------------------------------------------------
    def time(self) -> float:
        return self._vtime

    # -- things BaseEventLoop expects from a selector loop ------------------
    def _process_events(self, event_list):  # pragma: no cover - no I/O
        pass

    def _write_to_self(self):
        pass

    # -- recording exception handler ------------------------------------------
    def _record_error(self, loop, context):
        exc = context.get("exception")
        self.errors.append(
            {
                "message": context.get("message", ""),
                "exception": type(exc).__name__ if exc is not None else None,
                "detail": str(exc)[:200] if exc is not None else None,
            }
        )

    # -- timers with explicit tie ranks -----------------------------------------
    def call_at(self, when, callback, *args, context=None, rank: int = 0):
        if when is None:
            raise TypeError("when cannot be None")
        self._check_closed()
        h = VTimer(when, callback, args, self, context)
        h._vseq = next(self._vseq)
        h._vrank = rank
        heapq.heappush(self._scheduled, h)
        h._scheduled = True
        return h

    def env_call_at(self, when: float, rank: int, callback, *args):
        """Schedule an environment action; rank -1 = before library timers due at
        the same instant, +1 = after them."""
        return self.call_at(when, callback, *args, rank=rank)

    def next_timer(self) -> Optional[float]:
        """Earliest live timer deadline (library or environment), or None."""
        best = None
        for h in self._scheduled:
            if not h._cancelled and (best is None or h._when < best):
                best = h._when
        return best

    def live_timers(self) -> List[float]:
        return sorted(h._when for h in self._scheduled if not h._cancelled)

    # -- the scheduling step ---------------------------------------------------
    def _run_once(self):
        self.steps += 1
        if self.steps > self.max_steps:
            raise StepBudgetExceeded(self.steps)
        if self._timer_cancelled_count:
            live = [h for h in self._scheduled if not h._cancelled]
            for h in self._scheduled:
                if h._cancelled:
                    h._scheduled = False
            heapq.heapify(live)
            self._scheduled = live
            self._timer_cancelled_count = 0

        if not self._ready and not self._stopping:
            if self.idle_hook is not None:
                self.idle_hook(self)
            if self._timer_cancelled_count:
                live = [h for h in self._scheduled if not h._cancelled]
                for h in self._scheduled:
                    if h._cancelled:
                        h._scheduled = False
                heapq.heapify(live)
                self._scheduled = live
                self._timer_cancelled_count = 0
            if not self._ready:
                if not self._scheduled:
                    raise Deadlock()
                nxt = min(h._when for h in self._scheduled)
                if nxt > self.horizon:
                    raise HorizonExceeded(nxt)
                if nxt > self._vtime:
                    self._vtime = nxt

        # move due timers to the ready queue, deterministic tie order
        if self._scheduled:
            end = self._vtime + self._clock_resolution
            due = []
            while self._scheduled and self._scheduled[0]._when < end:
                h = heapq.heappop(self._scheduled)
                h._scheduled = False
                due.append(h)
            if due:
                if len({h._when for h in due}) < len(due):
                    STATS["ties"] += 1
                due.sort(key=lambda h: (h._when, getattr(h, "_vrank", 0), getattr(h, "_vseq", 0)))
                self._ready.extend(due)

        ntodo = len(self._ready)
        for _ in range(ntodo):
            handle = self._ready.popleft()
            if handle._cancelled:
                continue
            handle._run()
        handle = None

    # -- running one execution ----------------------------------------------------
    def run_main(self, coro):
        """Run coro to completion.  Returns ("ok", value) / ("exc", exception) /
        ("deadlock", None) / ("horizon", None) / ("budget", None)."""
        try:
            val = self.run_until_complete(coro)
            return ("ok", val)
        except Deadlock:
            return ("deadlock", None)
        except HorizonExceeded:
            return ("horizon", None)
        except StepBudgetExceeded:
            return ("budget", None)
        except BaseException as e:  # noqa: BLE001 - outcome of the execution
            if isinstance(e, (KeyboardInterrupt, SystemExit)):
                raise
            return ("exc", e)

    def leftover_tasks(self):
        return [t for t in asyncio.all_tasks(self) if not t.done()]

    def abandon(self):
        """Dispose of the loop after an execution (possibly with pending tasks)."""
        try:
            pending = [t for t in asyncio.all_tasks(self) if not t.done()]
        except Exception:
            pending = []
        if pending:
            # cancel and give them a bounded chance to unwind so that no
            # coroutine frames leak into the next execution
            self.idle_hook = None
            for t in pending:
                t.cancel()
            try:
                self.horizon = float("inf")
                self.max_steps = self.steps + 10000

                async def _drain():
                    await asyncio.gather(*pending, return_exceptions=True)

                self.run_until_complete(asyncio.wait_for(_drain(), 30))
            except BaseException:  # noqa: BLE001
                pass
        saved = self.errors
        self.errors = []
        try:
            self.run_until_complete(self.shutdown_asyncgens())
        except BaseException:  # noqa: BLE001
            pass
        self.errors = saved
        try:
            self.close()
        except BaseException:  # noqa: BLE001
            pass
        events._set_running_loop(None)
        asyncio.set_event_loop(None)

    def collect_errors(self) -> List[dict]:
        """Everything the loop's exception handler saw (after collecting the young generations, so that
        'exception was never retrieved' reports of the execution just finished are in), de-duplicated and
        in a canonical order."""
        try:
            gc.collect(1)  # young generations only: a full collection per execution is far too slow
        except RuntimeError:
            pass
        seen = {}
        for e in self.errors:
            key = (e.get("message") or "", e.get("exception") or "")
            seen.setdefault(key, {"message": key[0], "exception": e.get("exception"), "detail": None})
        return [seen[k] for k in sorted(seen)]


# ---------------------------------------------------------------------------
# fidelity audit: the *stock* asyncio scheduling step driven by a virtual selector
# ---------------------------------------------------------------------------
class _VirtualSelector:
    """Stands in for the OS selector: never has I/O events; a blocking select() is
    where virtual time passes (and where the harness's idle hook is consulted)."""

    def __init__(self, loop):
        self._loop = loop

    def select(self, timeout=None):
        lp = self._loop
        if timeout == 0:
            return []
        # nothing is ready: the library is quiescent
        if lp.idle_hook is not None:
            lp.idle_hook(lp)
            if lp._ready:
                return []
        live = [h._when for h in lp._scheduled if not h._cancelled]
        if not live:
            raise Deadlock()
        nxt = min(live)
        if nxt > lp.horizon:
            raise HorizonExceeded(nxt)
        if nxt > lp._vtime:
            lp._vtime = nxt
        return []

    def register(self, *a, **k):
        raise RuntimeError("no real I/O on the virtual selector")

    def unregister(self, *a, **k):
        return None

    def modify(self, *a, **k):
        raise RuntimeError("no real I/O on the virtual selector")

    def close(self):
        pass

    def get_map(self):
        return {}


class StockVLoop(VLoop):
    """Same virtual clock and idle hook, but asyncio's own ``BaseEventLoop._run_once``
    does the scheduling (timer heap order, ready queue handling).  Used only to audit
    that VLoop's re-implemented step gives the same observations on tie-free executions."""

    def __init__(self, horizon: float = 60.0, max_steps: int = 2_000_000):
        super().__init__(horizon=horizon, max_steps=max_steps)
        self._selector = _VirtualSelector(self)

    def _run_once(self):
        self.steps += 1
        if self.steps > self.max_steps:
            raise StepBudgetExceeded(self.steps)
        asyncio.BaseEventLoop._run_once(self)

    def close(self):
        try:
            super().close()
        finally:
            self._selector = None


_LOOP_KIND = {"kind": "vloop"}


def set_loop_kind(kind: str) -> None:
    assert kind in ("vloop", "stock")
    _LOOP_KIND["kind"] = kind


def new_loop(horizon: float = 60.0, cancel_order: str = "fifo") -> VLoop:
    from . import determinism

    determinism.install()
    determinism.set_order(cancel_order)
    STATS["ties"] = 0
    loop = (StockVLoop if _LOOP_KIND["kind"] == "stock" else VLoop)(horizon=horizon)
    asyncio.set_event_loop(loop)
    return loop
