"""Own the nondeterminism anyio leaves to memory layout.

anyio's asyncio backend keeps the tasks and child scopes of a CancelScope in
plain ``set`` objects; Task and CancelScope hash by ``id()``, so the order in
which a cancelled scope delivers cancellation to its tasks depends on heap
addresses and differs between runs (observed: the same execution alternated
between two outcomes).  Here those sets are replaced by insertion-ordered sets
whose iteration order is a harness-controlled parameter (``fifo``/``lifo``), so
that the order is reproducible and both extremes can be explored.
"""
from __future__ import annotations

_MODE = {"order": "fifo"}
_INSTALLED = {"done": False}


class OSet:
    __slots__ = ("_d",)

    def __init__(self, items=()):
        self._d = dict.fromkeys(items)

    def add(self, x):
        self._d[x] = None

    def remove(self, x):
        del self._d[x]

    def discard(self, x):
        self._d.pop(x, None)

    def __contains__(self, x):
        return x in self._d

    def __len__(self):
        return len(self._d)

    def __bool__(self):
        return bool(self._d)

    def __iter__(self):
        keys = list(self._d)
        if _MODE["order"] == "lifo":
            keys.reverse()
        return iter(keys)

    def copy(self):
        return OSet(self._d)

    def clear(self):
        self._d.clear()

    def pop(self):
        k = next(iter(self))
        del self._d[k]
        return k


def set_order(mode: str) -> None:
    assert mode in ("fifo", "lifo")
    _MODE["order"] = mode


def install() -> None:
    if _INSTALLED["done"]:
        return
    from anyio._backends import _asyncio as be

    orig_init = be.CancelScope.__init__

    def init(self, *a, **kw):
        orig_init(self, *a, **kw)
        if not isinstance(self._tasks, set) or not isinstance(self._child_scopes, set):
            raise RuntimeError("seam missing: anyio CancelScope no longer keeps its tasks in sets")
        self._tasks = OSet()
        self._child_scopes = OSet()

    be.CancelScope.__init__ = init
    tg_init = be.TaskGroup.__init__

    def tginit(self, *a, **kw):
        tg_init(self, *a, **kw)
        if isinstance(getattr(self, "_tasks", None), set):
            self._tasks = OSet()

    be.TaskGroup.__init__ = tginit
    _INSTALLED["done"] = True
