"""Two-pass reporting for block enumerations (E-INPUT checks with 10^5+ cases).

Pass 1 runs *blocks* of cases; a block does not put violations into its
observation (which examples the explorer keeps depends on worker scheduling) but
names, through a counter key, the first failing case of every signature it saw:

    fail<US><sig json><US><rank, zero padded><US><single-case cfg json>

Pass 2 (this module) picks, per signature, the ``per_sig`` failing cases of lowest
rank - a deterministic choice - and executes each alone through the explorer; those
single-case executions carry the violations, so every replay file is one input and
two runs report the same cases.
"""
from __future__ import annotations

import json
from typing import Any, Dict, List, Tuple

from . import core, explorer, sched

US = "\x1f"


def fail_key(sig: Dict[str, Any], rank: int, cfg: Dict[str, Any]) -> str:
    return US.join(["fail", json.dumps(sig, sort_keys=True), "%015d" % rank, json.dumps(cfg, sort_keys=True)])


def take_fails(part: Dict[str, Any]) -> Dict[str, List[Tuple[int, Dict[str, Any]]]]:
    """Remove the fail keys from a part's counters (in place) and return them grouped by signature."""
    out: Dict[str, List[Tuple[int, Dict[str, Any]]]] = {}
    c = part.get("counters", {})
    for k in [k for k in c if k.startswith("fail" + US)]:
        _, sig, rank, cfg = k.split(US)
        out.setdefault(sig, []).append((int(rank), json.loads(cfg)))
        del c[k]
    return out


def second_pass(res: core.Result, run_ref: str, parts: List[str], per_sig: int = 3,
                name: str = "failing-cases-one-by-one") -> int:
    fails: Dict[str, List[Tuple[int, Dict[str, Any]]]] = {}
    for p in parts:
        if p in res.parts:
            for sig, lst in take_fails(res.parts[p]).items():
                fails.setdefault(sig, []).extend(lst)
    singles: List[Dict[str, Any]] = []
    for sig in sorted(fails):
        for _rank, cfg in sorted(fails[sig], key=lambda t: t[0])[:per_sig]:
            if cfg not in singles:
                singles.append(cfg)
    if not singles or res.harness_errors:
        return 0
    out = explorer.explore(run_ref, singles)
    sched.absorb(res, name, run_ref, out, singles, min_outcomes=1)
    p2 = res.parts[name]
    if p2["violating_executions"] != len(singles) and not out["errors"]:
        res.harness_errors.append(
            f"{len(singles) - p2['violating_executions']} of {len(singles)} failing cases did not fail when executed alone")
    return len(singles)
