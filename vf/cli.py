"""check <ID> [--tier quick|thorough] [--replay file]"""
from __future__ import annotations

import argparse
import importlib
import json
import logging
import os
import sys
import time
import traceback

from . import core


def main(argv=None) -> int:
    ap = argparse.ArgumentParser(prog="check")
    ap.add_argument("prop")
    ap.add_argument("--tier", default=os.environ.get("VERIF_TIER") or "quick", choices=["quick", "thorough"])
    ap.add_argument("--replay")
    ap.add_argument("--only", default=None, help="run only the named part(s) of the check (debugging)")
    ap.add_argument("--as-variant", default=None, help="internal: run as a host-configuration variant and dump the result there")
    a = ap.parse_args(argv)
    logging.disable(logging.CRITICAL)
    prop = a.prop.upper()
    # the library under check must be the tree we were pointed at (the interpreter also knows an installed copy)
    want_src = os.path.realpath(os.environ.get("VERIF_REPO_SRC") or "/repo/src")
    try:
        import chuk_mcp
        have = os.path.realpath(os.path.dirname(os.path.dirname(chuk_mcp.__file__)))
    except Exception as e:  # noqa: BLE001
        print(f"HARNESS-ERROR: property={prop} cannot import chuk_mcp from {want_src}: {e!r}")
        return 2
    if have != want_src:
        print(f"HARNESS-ERROR: property={prop} chuk_mcp was imported from {have}, expected {want_src}")
        return 2
    try:
        mod = importlib.import_module(f"vf.checks.{prop.lower()}")
    except ModuleNotFoundError as e:
        print(f"HARNESS-ERROR: property={prop} no check module: {e}")
        return 2
    if a.replay:
        with open(a.replay) as f:
            doc = json.load(f)
        rp = doc["replay"]
        if rp.get("host") == "python -O" and not sys.flags.optimize:
            # found under an interpreter with assertions disabled: replay it under the same
            os.execv(sys.executable, [sys.executable, "-O", "-m", "vf.cli"] + list(argv if argv is not None else sys.argv[1:]))
        fn_mod, _, fn_name = rp["ref"].partition(":")
        fn = getattr(importlib.import_module(fn_mod), fn_name)
        obs = fn(rp["args"])
        print(json.dumps(obs, indent=1, sort_keys=True, default=repr))
        viols = obs.get("violations") or []
        if viols:
            print(f"VIOLATION property={prop} replay={a.replay}")
            return 1
        return 0
    t0 = time.time()
    try:
        res = mod.run(a.tier, only=a.only) if a.only else mod.run(a.tier)
    except core.HarnessError as e:
        print(f"HARNESS-ERROR: property={prop} {e}")
        return 2
    except Exception:
        print(f"HARNESS-ERROR: property={prop} unexpected exception in the machinery")
        traceback.print_exc()
        return 2
    if a.as_variant:
        with open(a.as_variant, "w") as f:
            json.dump({"violations": [{"sig": v.sig, "message": v.message, "replay": v.replay} for v in res.violations],
                       "total": res.violation_total, "harness_errors": res.harness_errors,
                       "evaluations": res.coverage.get("evaluations")}, f, default=repr)
        return 0
    if a.tier == "thorough" and not a.only and os.environ.get("VERIF_HOST_VARIANTS", "1") != "0":
        core.host_variants(res, prop)
    return core.finish(res, a.tier, t0)


if __name__ == "__main__":
    sys.exit(main())
