"""History independence of a configuration worker's answers (differential oracle).

The behaviour of a model class must not depend on what the same process validated
before.  Two instruments:

* ``run_pairs``: for every pair of same-named model classes (discovered: classes
  grouped by ``__name__``) a FRESH worker is given [all objects of A, then all
  objects of B], another fresh worker [B..., A...], and a third/fourth each class
  alone.  The checks compare the answers.
* ``explain_audit_mismatches``: when the determinism audit (a fresh worker
  re-asking a subset in another order) disagrees with the pooled run, the case is
  asked twice more, each time alone in a brand-new process.  Two different "alone"
  answers = harness nondeterminism; equal ones = the library's answer depends on
  the history, which is returned together with the history that changed it.
"""
from __future__ import annotations

import itertools
from typing import Any, Dict, List, Sequence, Tuple

from . import workers


def same_name_groups(quals: Sequence[str]) -> Dict[str, List[str]]:
    g: Dict[str, List[str]] = {}
    for q in quals:
        g.setdefault(q.rpartition(":")[2].rpartition(".")[2], []).append(q)
    return {k: sorted(v) for k, v in sorted(g.items()) if len(v) > 1}


def per_config(configs: Sequence[Dict[str, Any]], fn) -> Dict[str, Any]:
    """fn(cfg) for every configuration, concurrently."""
    import threading

    out: Dict[str, Any] = {}
    errs: List[BaseException] = []

    def go(cfg):
        try:
            out[cfg["name"]] = fn(cfg)
        except BaseException as e:  # noqa: BLE001
            errs.append(e)

    ts = [threading.Thread(target=go, args=(c,)) for c in configs]
    for t in ts:
        t.start()
    for t in ts:
        t.join()
    if errs:
        raise errs[0]
    return out


def run_pairs(configs: Sequence[Dict[str, Any]], handler: str, class_cases: Dict[str, List[Any]],
              groups: Dict[str, List[str]]) -> Dict[str, Any]:
    """-> {"pairs": [(A, B)], backend: {"alone": {C: answers}, "seq": {(A, B): (answers of A, answers of B)}}}"""
    members = sorted({q for v in groups.values() for q in v})
    pairs = [(a, b) for v in groups.values() for a, b in itertools.permutations(v, 2)]
    out: Dict[str, Any] = {"pairs": pairs, "classes": members}
    seqs = [class_cases[c] for c in members] + [class_cases[a] + class_cases[b] for a, b in pairs]
    raw = per_config(configs, lambda cfg: workers.fresh_sequences(cfg, handler, seqs) if seqs else [])
    for cfg in configs:
        ans = raw[cfg["name"]]
        alone = {c: ans[i] for i, c in enumerate(members)}
        seq = {}
        for j, (a, b) in enumerate(pairs):
            r = ans[len(members) + j]
            seq[(a, b)] = (r[:len(class_cases[a])], r[len(class_cases[a]):])
        out[cfg["name"]] = {"alone": alone, "seq": seq}
    return out


def explain_audit_mismatches(cfg: Dict[str, Any], handler: str, wcases: Sequence[Any], answers: Sequence[Any],
                             pool_history, audit_result: Dict[str, Any], cap: int = 6) -> List[Dict[str, Any]]:
    """pool_history(i) -> indices the pooled worker had answered before case i."""
    bad = list(audit_result.get("mismatch_indices") or [])[:cap]
    if not bad:
        return []
    alone = workers.fresh_sequences(cfg, handler, [[wcases[i]] for i in bad] * 2)
    out = []
    for k, i in enumerate(bad):
        a1, a2 = alone[k][0], alone[len(bad) + k][0]
        if workers.line(a1) != workers.line(a2):
            out.append({"index": i, "kind": "nondeterministic"})
            continue
        pooled, audited = answers[i], audit_result["again"][i]
        if workers.line(pooled) != workers.line(a1):
            hist, after, where = pool_history(i), pooled, "pooled run"
        else:
            order = audit_result["order"]
            hist, after, where = order[:order.index(i)], audited, "audit run"
        out.append({"index": i, "kind": "order", "history": hist, "alone": a1, "after": after, "where": where})
    return out


def first_difference(a: Any, b: Any, path: str = "") -> str:
    """Human-readable location of the first difference between two answers."""
    if type(a) is not type(b):
        return f"{path or '<answer>'}: {str(a)[:80]} vs {str(b)[:80]}"
    if isinstance(a, dict):
        for k in sorted(set(a) | set(b)):
            if k not in a or k not in b:
                return f"{path}.{k}: present on one side only"
            if workers.line(a[k]) != workers.line(b[k]):
                return first_difference(a[k], b[k], f"{path}.{k}")
    if isinstance(a, list):
        if len(a) != len(b):
            return f"{path}: length {len(a)} vs {len(b)}"
        for i, (x, y) in enumerate(zip(a, b)):
            if workers.line(x) != workers.line(y):
                return first_difference(x, y, f"{path}[{i}]")
    return f"{path or '<answer>'}: {str(a)[:80]} vs {str(b)[:80]}"
