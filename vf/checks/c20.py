"""C20 - every host entry point launches exactly the server the configuration names.

Engine: E-INPUT with REAL child processes on a real asyncio/anyio loop (the one
property that does not use the virtual loop).  A bounded configuration grammar
is enumerated completely; every case writes a real config file into a fresh
temp directory, calls one real entry point of the library and lets it spawn the
real witness child (vf/children/witness.py, stdlib only).

Entry points
  load_config   chuk_mcp.config.load_config; the harness opens stdio_client on
                the StdioParameters it returns and performs send_initialize
                (+ one ping as a barrier so the 'initialized' notification has
                been flushed to the child before the connection is closed)
  test_server   chuk_mcp.__main__.test_server, run the way main() runs it
                (anyio.run(test_server, config_path, server, verbose))
  run_command   chuk_mcp.mcp_client.host.server_manager.run_command with a
                command function that pings every stream it is given

The witness is told nothing through args or env: the harness puts a private copy
of the script into <tmp>/s<i>/ and configures that path as the first argument;
the witness writes its record next to its own file.  So the configured
args/env reach the comparison untouched.

Further launch modes (see MODES): servers of one file that share command AND args
and differ only in env (the witness then learns its record directory from an env
variable the configuration carries, or from which PATH directory it was found in)
or only in timeout / unknown keys; and a program named by a bare command name,
installed as an executable '#!<python>' copy of the witness in a directory that
only the configured env's PATH names, with a decoy of the same name in a
directory that only the harness's own PATH names.

Oracle (independent of the library):
  * a bare command is resolved on the PATH the child is given (configured env, or
    the default env when env is absent) - the decoy never runs
  * servers sharing command+args are different servers: each requested one is
    launched once, with its own env
  * exactly one launch of every requested server, none of the others
  * recorded argv bytes == [command, *args] of the config entry (os.fsencode)
  * env configured with values: recorded env restricted to the configured keys
    == configured env; env absent or {}: recorded env restricted to the
    documented default-inherited names == the parent's values of those names
  * no parent-only variable (canaries) shows up in the child
  * witness received 'initialize' and then 'notifications/initialized'
  * malformed classes: load_config raises FileNotFoundError / JSONDecodeError /
    ValueError; test_server and run_command print a diagnostic, do not raise,
    do not report success and spawn nothing
"""
from __future__ import annotations

import contextlib
import gc
import io
import itertools
import json
import os
import shutil
import signal
import sys
import tempfile
import threading
import time
from typing import Any, Dict, List, Optional, Sequence, Tuple

from .. import core, explorer, sched

RUN = "vf.checks.c20:run_one"

WITNESS_SRC = os.path.join(os.path.dirname(os.path.dirname(os.path.abspath(__file__))), "children", "witness.py")

def _witness_python() -> str:
    """The interpreter the configurations name as command.  The venv's python spends ~35 ms per start in
    site-packages .pth hooks the witness has no use for; the interpreter underneath the venv is the same binary
    without them."""
    base = getattr(sys, "_base_executable", None)
    if base and os.path.isabs(base) and os.path.isfile(base) and os.access(base, os.X_OK):
        return base
    return sys.executable


WITNESS_PY = _witness_python()

# ---------------------------------------------------------------------------
# the grammar (module-level tables; cfgs hold indices only)
# ---------------------------------------------------------------------------
ARGS: List[Tuple[str, List[str]]] = [
    ("none", []),
    ("plain", ["a"]),
    ("space", ["a b"]),
    ("quotes", ["'q\"x"]),
    ("unicode", ["é"]),
    ("empty-string", [""]),
    ("options", ["--k=v", "-x"]),
]
N_BASE_ARGS = len(ARGS)
# strings that look like comments or other syntax to a careless pre-processor; they are ordinary JSON strings
ARGS += [
    ("glob-pair", ["--include", "src/*", "--exclude", "*/node_modules"]),
    ("block-comment", ["/* x */", "after"]),
    ("open-then-close", ["/*", "kept?", "*/"]),
    ("close-then-open", ["*/", "/*"]),
    ("slashes+hash", ["//", "http://host//path", "#", "a // b", "\n//x"]),
    ("json-looking", ['{"a":1}', "[1,2]", "a,]", ",}", '"', "\\"]),
]
SYNTAX_ARGS = list(range(N_BASE_ARGS, len(ARGS)))
ABSENT = "<absent>"
ENVS: List[Tuple[str, Any]] = [
    ("absent", ABSENT),
    ("empty", {}),
    ("one", {"A": "1"}),
    ("empty-value+space", {"A": "", "B": "x y"}),
]
N_BASE_ENVS = len(ENVS)
# env shapes that steer library behaviour (stderr handling of the stdio client), each next to an ordinary variable
STEER_VALUES = ["ERROR", "error", "CRITICAL", "Critical", "DEBUG", "INFO", ""]
for _var in ("LOG_LEVEL", "LOGGING_LEVEL"):
    for _v in STEER_VALUES:
        ENVS.append((f"{_var}={_v or '<empty>'}", {_var: _v, "A": "1"}))
STEER_ENVS = list(range(N_BASE_ENVS, len(ENVS)))
# ordinary values under NAMES that look like secrets (a library that masks such values for its log must not mask
# what the child gets)
_N0 = len(ENVS)
ENVS.append(("API_TOKEN", {"API_TOKEN": "tok-123", "A": "1"}))
ENVS.append(("MY_SECRET_KEY+DB_PASSWORD", {"MY_SECRET_KEY": "k-456", "DB_PASSWORD": "p w"}))
ENVS.append(("PASSWD+X_CREDENTIALS", {"PASSWD": "x", "X_CREDENTIALS": "user:pass"}))
ENVS.append(("lower+mixed-case", {"api_token": "lower", "My_Secret": "Mixed", "passWord": "pw", "Keyring": "kr"}))
SECRET_ENVS = list(range(_N0, len(ENVS)))
_N1 = len(ENVS)
ENVS.append(("glob-values", {"INCLUDE": "src/*", "EXCLUDE": "*/node_modules", "URL": "http://host//path"}))
ENVS.append(("comment-values", {"C1": "/* x */", "C2": "// y", "C3": "# z", "C4": "a,]", "C5": '{"a":1}'}))
ENVS.append(("syntax-in-names", {"A/*": "open", "B*/": "close", "//c": "slashes", "#d": "hash", "e,]": "comma"}))
SYNTAX_ENVS = list(range(_N1, len(ENVS)))
LOGGING = ["default", "INFO", "DEBUG"]   # default = what the runner leaves (logging disabled); else root logger level
TIMEOUTS: List[Tuple[str, Any]] = [
    ("absent", ABSENT),
    ("int", 5),
    ("float", 2.5),
    ("str-int", "7"),
    ("str-float", "7.5"),
]
EXTRAS: List[Tuple[str, Dict[str, Any], Dict[str, Any]]] = [
    # (name, extra keys in the server entry, extra keys at top level)
    ("none", {}, {}),
    ("unknown-keys",
     {"disabled": False, "description": "x y", "transport": "stdio", "x-unknown": {"nested": [1, None]}},
     {"$schema": "https://example.invalid/schema.json", "defaults": {"timeout": 1}, "version": 3}),
]
N_BASE_EXTRAS = len(EXTRAS)
EXTRAS.append(("syntax-like-keys",
               {"note": "see /* here", "x*/": 1, "//": "c", "#": [1, "*/"], "glob": "src/*"},
               {"/*": "open", "comment": "*/ close // #", "list": ["/*", "*/"]}))
NAMES = ["alpha", "b c", "é-ü", "d.e/f"]
N_BASE_NAMES = len(NAMES)
NAMES += ["/*srv", "srv*/", "//x", "#y", '{"n":1}', "a,]"]      # reached through name_offset
ENTRIES = ["load_config", "test_server", "run_command"]

# shapes used in multi-server files: pairwise different in args, env and timeout,
# so that picking the wrong entry or mixing two entries is visible
R_SHAPES: List[List[int]] = [
    [0, 0, 0, 0],   # args none,    env absent,            timeout absent,    no extras
    [2, 2, 1, 1],   # args "a b",   env {"A":"1"},         timeout 5,         extras
    [6, 3, 4, 0],   # --k=v -x,     env {"A":"","B":"x y"}, timeout "7.5",     no extras
    [4, 1, 2, 1],   # args "é",     env {},                timeout 2.5,       extras
]

# shapes that share command AND args within one file (6 elements: args, env, timeout, extra, mode, path form);
# they differ only in env, or only in timeout / an extra key
D_SHAPES: List[List[int]] = [
    [2, 2, 0, 0, 1, 0],   # WITNESS_PY + shared script, env {"A":"1", sink var = own dir}
    [2, 2, 1, 0, 3, 0],   # bare command name, env {"A":"1", PATH = own bin dir}, timeout 5
    [2, 0, 0, 0, 2, 0],   # WITNESS_PY + shared script, env absent
    [2, 0, 2, 1, 2, 0],   # the same, but timeout 2.5 and unknown extra keys
]
D_SHAPES_TRIPLES_QUICK = [0, 2, 3]

MISSING_VARIANTS = ["nonexistent-file", "nonexistent-dir", "empty-path", "removed-file"]
N_MISSING_BASE = 3   # 'removed-file' (the path of an earlier call, file deleted since) belongs to the sequence part

# file states of the call-sequence part: (name, phase cfg without 'entry')
SEQ_STATES = ["valid-A", "valid-B", "invalid-json", "missing", "server-name-absent"]
INVALID_JSON: List[Tuple[str, str]] = [
    ("empty-file", ""),
    ("truncated", '{"mcpServers": {"alpha": {"command": "x", "args": ['),
    ("trailing-comma", '{"mcpServers": {"alpha": {"command": "x",}}}'),
    ("not-json", "mcpServers: alpha"),
    ("single-quotes", "{'mcpServers': {}}"),
    ("garbage-after-value", '{"mcpServers": {}} x'),
    # interrupted writes: the text stops right after a line break, or is nothing but one
    ("newline-only", "\n"),
    ("cut-after-first-line", "{\n"),
    ("cut-after-a-complete-line", '{"mcpServers": {"alpha": {"command": "x"}},\n'),
    ("pretty-printed-cut-at-line-break", '{\n "mcpServers": {\n  "alpha": {\n   "command": "x",\n'),
    ("crlf-cut", '{\r\n "mcpServers": {\r\n'),
    ("blank-lines-only", "\n\n  \n"),
]
UNKNOWN_FILES = ["no-mcpServers-key", "empty-mcpServers", "one-server", "three-servers"]
UNKNOWN_NAMES = [("other", "nope"), ("empty", ""), ("case-variant", "ALPHA")]
UNKNOWN = "nope"  # the unknown name mixed into run_command name lists

# the parent environment every case runs under (set for the duration of the call)
DEFAULT_NAMES = ["HOME", "LOGNAME", "PATH", "SHELL", "TERM", "USER"]  # documented POSIX default-inherited names
PARENT_ENV = {
    "HOME": "/c20-home",
    "LOGNAME": "c20-logname",
    "PATH": "/usr/local/sbin:/usr/local/bin:/usr/sbin:/usr/bin:/sbin:/bin",
    "SHELL": "/bin/sh",
    "TERM": "dumb",
    "USER": "c20-user",
    # canaries: must never override a configured value nor leak into the child
    "A": "parent-A",
    "B": "parent-B",
    "C20_CANARY": "leak",
    "LOG_LEVEL": "host-log-level",
    "LOGGING_LEVEL": "host-logging-level",
}
CANARIES = ["A", "B", "C20_CANARY", "LOG_LEVEL", "LOGGING_LEVEL"]

CASE_LIMIT_S = 45.0      # hard watchdog per case (SIGALRM)
INNER_LIMIT_S = 30.0     # cancel scope around the async entry points
REQ_TIMEOUT_S = 12.0     # harness's own initialize / ping timeout


class CaseTimeout(BaseException):
    pass


# ---------------------------------------------------------------------------
# helpers
# ---------------------------------------------------------------------------
class _Watchdog:
    """SIGALRM watchdog: a hung case becomes an outcome, never a hung check."""

    def __init__(self, seconds: float):
        self.seconds = seconds
        self.active = False
        self.fired = 0

    def _handler(self, signum, frame):
        self.fired += 1
        if self.fired < 3:
            signal.setitimer(signal.ITIMER_REAL, 10.0)  # cleanup gets 10 s, then again
        raise CaseTimeout()

    def __enter__(self):
        if threading.current_thread() is threading.main_thread():
            self.prev = signal.signal(signal.SIGALRM, self._handler)
            signal.setitimer(signal.ITIMER_REAL, self.seconds)
            self.active = True
        return self

    def __exit__(self, *a):
        if self.active:
            signal.setitimer(signal.ITIMER_REAL, 0)
            signal.signal(signal.SIGALRM, self.prev)
        return False


class _Quiet:
    """Capture print() output; send fd 1 / fd 2 (os.system('clear'), the child's
    inherited stderr, 'Exception ignored' notes) to /dev/null."""

    def __init__(self, collect: bool = True):
        self.collect = collect

    def __enter__(self):
        sys.stdout.flush()
        sys.stderr.flush()
        self.saved = (os.dup(1), os.dup(2))
        dn = os.open(os.devnull, os.O_WRONLY)
        os.dup2(dn, 1)
        os.dup2(dn, 2)
        os.close(dn)
        self.buf = io.StringIO()
        self.old = sys.stdout
        sys.stdout = self.buf
        return self

    def __exit__(self, *a):
        try:
            if self.collect:
                gc.collect()  # drop transports of closed loops while fd 2 is still muted
            sys.stderr.flush()
        finally:
            sys.stdout = self.old
            os.dup2(self.saved[0], 1)
            os.dup2(self.saved[1], 2)
            os.close(self.saved[0])
            os.close(self.saved[1])
        return False

    def text(self) -> str:
        return self.buf.getvalue()


class _Logging:
    """Own the process-wide logging state for the duration of a call.  The runner disables logging globally; an
    application (and the command line) does not, so some cases lift that and set the root logger's level.
    level: None/"default" = leave everything as the runner set it; "lift" = logging enabled, levels untouched;
    "INFO"/"DEBUG" = logging enabled and the root logger at that level."""

    def __init__(self, level: Optional[str], null_handler: bool = True):
        self.level = None if level in (None, "default") else level
        self.null_handler = null_handler

    def __enter__(self):
        import logging

        root = logging.getLogger()
        self.saved = (root.manager.disable, root.level, list(root.handlers), logging.getLogger("anyio").level)
        if self.level is not None:
            logging.disable(logging.NOTSET)
            if not root.handlers and self.null_handler:
                root.addHandler(logging.NullHandler())     # otherwise logging.debug() installs a stderr handler itself
            if self.level != "lift":
                root.setLevel(getattr(logging, self.level))
        return self

    def __exit__(self, *a):
        import logging

        root = logging.getLogger()
        for h in list(root.handlers):
            if h not in self.saved[2]:
                root.removeHandler(h)
        root.setLevel(self.saved[1])
        logging.getLogger("anyio").setLevel(self.saved[3])
        logging.disable(self.saved[0])
        return False


@contextlib.contextmanager
def _parent_env(lacks: Sequence[str] = (), mode: Optional[str] = None):
    """lacks: default-inherited names the host does NOT have for this case (cron, CI runner, container).
    mode None: set the host environment up and restore the process environment afterwards; "setup-keep": set it up and
    leave whatever the call did to it; "inherit-keep": touch nothing (the previous call's environment is the host's)."""
    saved = dict(os.environ)
    try:
        if mode != "inherit-keep":
            for k in list(os.environ):
                if k in PARENT_ENV or k in ("LOG_LEVEL", "LOGGING_LEVEL"):
                    del os.environ[k]
            os.environ.update(PARENT_ENV)
            for k in lacks:
                os.environ.pop(k, None)
        yield
    finally:
        if mode is None:
            os.environ.clear()
            os.environ.update(saved)


def _proc_state(pid: int, marker: bytes) -> str:
    """'gone' | 'zombie' | 'alive' | 'other' (pid reused by an unrelated process)."""
    try:
        with open(f"/proc/{pid}/stat", "rb") as f:
            stat = f.read()
    except OSError:
        return "gone"
    try:
        state = stat.rsplit(b")", 1)[1].split()[0]
    except Exception:
        state = b"?"
    if state in (b"Z", b"X"):
        return "zombie"
    try:
        with open(f"/proc/{pid}/cmdline", "rb") as f:
            cmd = f.read()
    except OSError:
        return "gone"
    if not cmd:
        return "zombie"
    return "alive" if marker in cmd else "other"


def _reap(pids: List[int], marker: bytes, grace: float = 5.0) -> int:
    """Wait for the witness children of this case to be gone; kill what is left.
    Returns how many had to be killed (not part of the observation: C16 judges
    shutdown, this is only hygiene)."""
    forced = 0
    deadline = time.monotonic() + grace
    for pid in pids:
        st = _proc_state(pid, marker)
        while st == "alive" and time.monotonic() < deadline:
            time.sleep(0.005)
            st = _proc_state(pid, marker)
        if st == "alive":
            forced += 1
            for fn, target in ((os.killpg, pid), (os.kill, pid)):
                try:
                    fn(target, signal.SIGKILL)
                except OSError:
                    pass
            t1 = time.monotonic() + 5.0
            while _proc_state(pid, marker) == "alive" and time.monotonic() < t1:
                time.sleep(0.005)
        if st != "other":
            try:
                os.waitpid(pid, os.WNOHANG)
            except OSError:
                pass
    return forced


def _hexs(parts: List[str]) -> List[str]:
    out = []
    for p in parts:
        try:
            out.append(bytes.fromhex(p).decode("utf-8", "backslashreplace"))
        except ValueError:
            out.append("?" + p)
    return out


def _read_events(path: str) -> List[dict]:
    if not os.path.exists(path):
        return []
    out = []
    with open(path, "rb") as f:
        for line in f:
            line = line.strip()
            if not line:
                continue
            try:
                out.append(json.loads(line))
            except ValueError:
                out.append({"ev": "garbled"})
    return out


BARE_NAME = "c20-witness-cmd"      # a command name without a slash: found through a PATH
SINK_VAR = "C20_WITNESS_DIR"         # witness: record into this directory instead of the script's own
# how a server entry names its program and how the witness learns where to record (6th/5th element of a shape)
MODES = [
    "own-script",                    # 0 command=WITNESS_PY, args[0]=<tmp>/s<i>/witness.py          record: s<i>
    "shared-script+sink-in-env",     # 1 args[0]=<tmp>/shared/witness.py, env carries SINK_VAR=s<i>      record: s<i>
    "shared-script",                 # 2 args[0]=<tmp>/shared/witness.py, env absent/{}                   record: shared
    "bare-name+PATH-in-env",         # 3 command=BARE_NAME, env PATH names <tmp>/s<i>/bin                 record: s<i>/bin
    "absolute-wrapper+PATH-in-env",  # 4 command=<tmp>/s<i>/bin/BARE_NAME (control), same env             record: s<i>/bin
    "bare-name+env-absent",          # 5 command=BARE_NAME, env absent: the default env's PATH decides    record: s<i>/bin
    "command-does-not-exist",        # 6 command=<tmp>/s<i>/no-such-program: this server cannot start      record: s<i> (stays empty)
]
CANNOT_START = 6
MODES += [
    "program-under-odd-directory",               # 7 command=<tmp>/s<i>/<odd name>/server, args as configured
    "program-under-odd-directory+no-args-key",   # 8 the same, the entry has no "args" member at all
]
# directory names (6th element of the shape); at every white-space position of the resulting command a decoy program
# is installed at the prefix, so "the command was split" is observable
ODD_DIRS = [("space", "my tools"), ("tab", "tab\there"), ("two-spaces", "two  spaces"), ("quotes+space", 'x "y z"'),
            ("apostrophe+space", "it's here"), ("no-break-space", "nb\u00a0sp"), ("em-space", "em\u2003sp")]
PATH_FORMS = [("only", "{d}"), ("first", "{d}:/usr/bin:/bin"), ("last", "/usr/bin:/bin:{d}")]
# the harness process's own PATH during the case (restored afterwards)
HOST_PATHS = ["plain", "decoy-prepended", "decoy-appended", "own-prepended"]


def _full(shape: List[int]) -> List[int]:
    return (list(shape) + [0, 0])[:6] if len(shape) < 6 else list(shape)


def _with_values(env: Any) -> bool:
    return env is not ABSENT and bool(env)


def server_spec(i: int, shape: List[int], tmp: str) -> Dict[str, Any]:
    """What the config entry of server i says and what a faithful launch of it looks like."""
    a, e, t, x, m, pf = _full(shape)
    own = os.path.join(tmp, f"s{i}")
    shared_script = os.path.join(tmp, "shared", "witness.py")
    bindir = os.path.join(own, "bin")
    prog = os.path.join(bindir, BARE_NAME)
    base = ENVS[e][1]
    args = list(ARGS[a][1])
    env_name = ENVS[e][0]
    if m == 0:
        script = os.path.join(own, "witness.py")
        command, cargs, env, sink = WITNESS_PY, [script] + args, base, own
        exp_argv = [command] + cargs
    elif m == 1:
        env = dict(base) if _with_values(base) else {}
        env[SINK_VAR] = own
        command, cargs, sink = WITNESS_PY, [shared_script] + args, own
        exp_argv = [command] + cargs
        env_name += "+sink-var"
    elif m == 2:
        if _with_values(base):
            raise core.HarnessError("grammar: mode shared-script needs env absent or {}")
        command, cargs, env, sink = WITNESS_PY, [shared_script] + args, base, os.path.join(tmp, "shared")
        exp_argv = [command] + cargs
    elif m in (3, 4):
        env = dict(base) if _with_values(base) else {}
        env["PATH"] = PATH_FORMS[pf][1].format(d=bindir)
        command = BARE_NAME if m == 3 else prog
        cargs, sink = args, bindir
        exp_argv = [WITNESS_PY, prog] + args     # '#!<WITNESS_PY>' wrapper: kernel passes interpreter + file
        env_name += "+PATH-" + PATH_FORMS[pf][0]
    elif m == 5:
        if _with_values(base):
            raise core.HarnessError("grammar: mode bare-name+env-absent needs env absent or {}")
        command, cargs, env, sink = BARE_NAME, args, base, bindir
        exp_argv = [WITNESS_PY, prog] + args
    elif m == CANNOT_START:
        command, cargs, env, sink = os.path.join(own, "no-such-program"), args, base, own
        exp_argv = [command] + cargs
    elif m in (7, 8):
        if m == 8 and args:
            raise core.HarnessError("grammar: mode without args key needs args []")
        odd_dir = os.path.join(own, ODD_DIRS[pf][1])
        prog = os.path.join(odd_dir, "server")
        command, cargs, env, sink = prog, args, base, odd_dir
        exp_argv = [WITNESS_PY, prog] + args
        env_name += "+odd-dir-" + ODD_DIRS[pf][0]
    else:
        raise core.HarnessError(f"grammar: unknown mode {m}")
    entry: Dict[str, Any] = {"command": command, "args": cargs}
    if env is not ABSENT:
        entry["env"] = dict(env)
    if TIMEOUTS[t][1] is not ABSENT:
        entry["timeout"] = TIMEOUTS[t][1]
    entry.update(EXTRAS[x][1])
    decoys: List[str] = []
    if m in (7, 8):
        if m == 8:
            del entry["args"]
        for pos, ch in enumerate(command):
            if ch.isspace() and pos > len(own) + 1:
                pre = command[:pos]
                if pre not in decoys and not pre.endswith(os.sep):
                    decoys.append(pre)
    return {"decoys": decoys, "entry": entry, "sink": sink, "exp_argv": exp_argv, "env": env, "env_name": env_name, "mode": m,
            "own": own, "bindir": bindir, "prog": prog, "shape": [a, e, t, x, m, pf]}


def shape_text(shape: List[int]) -> str:
    a, e, t, x, m, pf = _full(shape)
    env = "absent" if ENVS[e][1] is ABSENT else repr(ENVS[e][1])
    tmo = "absent" if TIMEOUTS[t][1] is ABSENT else repr(TIMEOUTS[t][1])
    out = f"args={ARGS[a][1]!r} env={env} timeout={tmo} extra={EXTRAS[x][0]}"
    if m == 1:
        out += f" [command+args shared with the other servers of the file; env also has {SINK_VAR}=<own dir>]"
    elif m == 2:
        out += " [command+args shared with the other servers of the file]"
    elif m in (3, 4):
        what = f"command={BARE_NAME!r} (bare)" if m == 3 else f"command=<own dir>/bin/{BARE_NAME} (absolute)"
        out += f" [{what}; env also has PATH={PATH_FORMS[pf][1].format(d='<own dir>/bin')}]"
    elif m == 5:
        out += f" [command={BARE_NAME!r} (bare)]"
    elif m == CANNOT_START:
        out += " [command=<own dir>/no-such-program: cannot start]"
    elif m in (7, 8):
        out += f" [command=<own dir>/{ODD_DIRS[pf][1]!r}/server" + ("; no 'args' member" if m == 8 else "") + "]"
    return out


def _install_wrapper(path: str) -> None:
    """An executable named BARE_NAME: the witness itself behind a '#!<WITNESS_PY>' line."""
    if any(c.isspace() for c in WITNESS_PY) or len(WITNESS_PY) > 120:
        raise core.HarnessError(f"cannot use {WITNESS_PY!r} in a #! line")
    os.makedirs(os.path.dirname(path), exist_ok=True)
    with open(WITNESS_SRC, "r", encoding="utf-8") as f:
        body = f.read()
    with open(path, "w", encoding="utf-8") as f:
        f.write("#!" + WITNESS_PY + "\n" + body)
    os.chmod(path, 0o755)


# ---------------------------------------------------------------------------
# building the case on disk
# ---------------------------------------------------------------------------
def _write_config(path: str, text: str, pad_to: Optional[int]) -> None:
    data = text.encode("utf-8")
    if pad_to is not None:
        if len(data) > pad_to:
            raise core.HarnessError(f"config text of {len(data)} bytes does not fit the common size {pad_to}")
        data += b" " * (pad_to - len(data))      # trailing blanks: still the same JSON / the same non-JSON
    with open(path, "wb") as f:                  # rewritten in place when it exists (same inode)
        f.write(data)


def _build(cfg: Dict[str, Any], tmp: str, path_override: Optional[str] = None,
           pad_to: Optional[int] = None) -> Tuple[str, List[Dict[str, Any]], Optional[str]]:
    """Returns (config_path, server specs by index, decoy bin directory or None).  tmp is the directory the
    server directories are created in; the config file goes to path_override when given."""
    shapes: List[List[int]] = cfg.get("servers") or []
    specs: List[Dict[str, Any]] = []
    servers: Dict[str, Any] = {}
    top_extra: Dict[str, Any] = {}
    decoy_bin: Optional[str] = None
    for i, shape in enumerate(shapes):
        sp = server_spec(i, shape, tmp)
        os.makedirs(sp["own"], exist_ok=True)
        m = sp["mode"]
        if m == 0:
            shutil.copyfile(WITNESS_SRC, os.path.join(sp["own"], "witness.py"))
        elif m == CANNOT_START:
            pass
        elif m in (7, 8):
            _install_wrapper(sp["prog"])
            for pre in sp["decoys"]:
                _install_wrapper(pre)      # a different program exactly where a split of the command would point
        elif m in (1, 2):
            os.makedirs(os.path.join(tmp, "shared"), exist_ok=True)
            shutil.copyfile(WITNESS_SRC, os.path.join(tmp, "shared", "witness.py"))
        else:
            _install_wrapper(sp["prog"])
            if decoy_bin is None:
                # a different executable of the same name that the configuration does not name
                decoy_bin = os.path.join(tmp, "decoy", "bin")
                _install_wrapper(os.path.join(decoy_bin, BARE_NAME))
        servers[NAMES[i + int(cfg.get("name_offset") or 0)]] = sp["entry"]
        specs.append(sp)
        top_extra.update(EXTRAS[sp["shape"][3]][2])
    # servers recording into the same place must be indistinguishable launches
    by_sink: Dict[str, List[Dict[str, Any]]] = {}
    for sp in specs:
        by_sink.setdefault(sp["sink"], []).append(sp)
    for group in by_sink.values():
        if len(group) > 1 and any(g["exp_argv"] != group[0]["exp_argv"] or _with_values(g["env"]) for g in group):
            raise core.HarnessError("grammar: two distinguishable servers share a record location")
    path = path_override or os.path.join(tmp, "config.json")
    mal = cfg.get("malformed")
    doc: Dict[str, Any] = dict(top_extra)
    doc["mcpServers"] = servers
    if mal and mal["class"] == "missing":
        v = MISSING_VARIANTS[mal["variant"]]
        if v == "nonexistent-file":
            path = os.path.join(tmp, "no-such-config.json")
        elif v == "nonexistent-dir":
            path = os.path.join(tmp, "no-such-dir", "config.json")
        elif v == "removed-file":
            if os.path.lexists(path):
                os.remove(path)
        else:
            path = ""
        return path, specs, decoy_bin
    if mal and mal["class"] == "invalid-json":
        _write_config(path, INVALID_JSON[mal["variant"]][1], pad_to)
        return path, specs, decoy_bin
    if mal and mal["class"] == "unknown-name" and UNKNOWN_FILES[mal["file"]] == "no-mcpServers-key":
        doc = {"servers": {}, "version": 1}
    _write_config(path, json.dumps(doc, ensure_ascii=False, indent=1), pad_to)
    return path, specs, decoy_bin


def _launches_in(directory: str, pids: List[int]) -> List[Dict[str, Any]]:
    by_pid: Dict[Any, Dict[str, Any]] = {}
    for ev in _read_events(os.path.join(directory, "events.jsonl")):
        pid = ev.get("pid")
        if ev.get("ev") == "start":
            by_pid[pid] = {"argv": ev.get("argv") or [], "env": ev.get("env") or {}, "methods": []}
            if isinstance(pid, int) and pid not in pids:
                pids.append(pid)
        elif ev.get("ev") == "recv" and pid in by_pid:
            by_pid[pid]["methods"].append([ev.get("method"), bool(ev.get("has_id"))])
    return [by_pid[p] for p in by_pid]  # insertion order = launch order


# ---------------------------------------------------------------------------
# driving the entry points
# ---------------------------------------------------------------------------
def _exc_name(e: BaseException) -> str:
    return type(e).__name__


def _drive_load_config(path: str, name: str, rec: Dict[str, Any]) -> None:
    import anyio
    from chuk_mcp.config import load_config
    from chuk_mcp.protocol.messages import send_initialize, send_ping
    from chuk_mcp.transports.stdio import stdio_client

    async def main():
        with anyio.fail_after(INNER_LIMIT_S):
            rec["stage"] = "load"
            loaded = await load_config(path, name)
            rec["loader"] = "ok"
            if isinstance(loaded, tuple):
                params = loaded[0]
                if len(loaded) > 1:
                    t = loaded[1]
                    rec["timeout"] = t if (t is None or (isinstance(t, (int, float)) and not isinstance(t, bool))) \
                        else f"<{type(t).__name__}>"
            else:
                params = loaded
            rec["stage"] = "connect"
            async with stdio_client(params) as (r, w):
                rec["stage"] = "initialize"
                init = await send_initialize(r, w, timeout=REQ_TIMEOUT_S)
                rec["init"] = bool(init)
                rec["stage"] = "ping"
                rec["ping"] = bool(await send_ping(r, w, timeout=REQ_TIMEOUT_S))
                rec["stage"] = "exit"
            rec["stage"] = "done"

    try:
        anyio.run(main)
    except Exception as e:  # noqa: BLE001
        rec["error"] = _exc_name(e)
        rec["error_is"] = [n for n, t in (("FileNotFoundError", FileNotFoundError),
                                          ("JSONDecodeError", json.JSONDecodeError),
                                          ("ValueError", ValueError)) if isinstance(e, t)]
        if rec.get("stage") == "load":
            rec["loader"] = "raises-" + _exc_name(e)


def _drive_test_server(path: str, name: str, verbose: bool, rec: Dict[str, Any]) -> None:
    import anyio
    from chuk_mcp.__main__ import test_server

    async def main():
        with anyio.fail_after(INNER_LIMIT_S):
            return await test_server(path, name, verbose)

    try:
        rec["returned"] = anyio.run(main)
        if not isinstance(rec["returned"], bool):
            rec["returned"] = f"<{type(rec['returned']).__name__}>"
    except Exception as e:  # noqa: BLE001
        rec["error"] = _exc_name(e)


def _drive_run_command(path: str, names: List[str], cmdkind: str, rec: Dict[str, Any]) -> None:
    from chuk_mcp.mcp_client.host.server_manager import run_command
    from chuk_mcp.protocol.messages import send_ping

    rec["command_calls"] = 0
    rec["streams"] = None

    async def _body(server_streams):
        rec["command_calls"] += 1
        rec["streams"] = len(server_streams)
        pings = []
        for r, w in server_streams:
            try:
                pings.append(bool(await send_ping(r, w, timeout=REQ_TIMEOUT_S)))
            except Exception as e:  # noqa: BLE001
                pings.append(_exc_name(e))
        rec["pings"] = pings

    if cmdkind == "interactive_mode":
        async def interactive_mode(server_streams, server_info=None):
            rec["server_info_names"] = None if server_info is None else [i.get("name") for i in server_info]
            await _body(server_streams)
            return True
        fn = interactive_mode
    elif cmdkind == "chat_run":
        async def chat_run(server_streams, server_info=None):
            rec["server_info_names"] = None if server_info is None else [i.get("name") for i in server_info]
            await _body(server_streams)
            return None      # not a "clean exit"
        fn = chat_run
    elif cmdkind == "interactive_mode-without-server_info":
        async def interactive_mode(server_streams):  # noqa: F811 - an older command signature: no server_info parameter
            await _body(server_streams)
            return True
        fn = interactive_mode
    elif cmdkind == "raises":
        async def failing_command(server_streams):
            await _body(server_streams)
            raise RuntimeError("command failed")
        fn = failing_command
    elif cmdkind == "keyboard-interrupt":
        async def interrupted_command(server_streams):
            await _body(server_streams)
            raise KeyboardInterrupt()
        fn = interrupted_command
    elif cmdkind == "plain":
        async def plain_command(server_streams):
            await _body(server_streams)
        fn = plain_command
    else:
        raise core.HarnessError(f"unknown command kind {cmdkind!r}")

    kind = rec.get("names_as") or "list"
    if kind == "list":
        given: Any = list(names)
    elif kind == "tuple":
        given = tuple(names)
    elif kind == "generator":
        given = (n for n in names)
    elif kind == "map":
        given = map(str, names)
    elif kind == "dict-keys":
        given = {n: None for n in names}.keys()
    elif kind == "iterator":
        given = iter(list(names))
    else:
        raise core.HarnessError(f"unknown names_as {kind!r}")
    try:
        run_command(fn, path, given)
    except KeyboardInterrupt:
        rec["error"] = "KeyboardInterrupt"
    except Exception as e:  # noqa: BLE001
        rec["error"] = _exc_name(e)


def _probe_loader(path: str, name: str) -> str:
    """Only to make the signature narrow: does the loader alone accept (path, name)?"""
    import anyio
    from chuk_mcp.config import load_config

    async def main():
        with anyio.fail_after(10):
            await load_config(path, name)

    try:
        anyio.run(main)
        return "ok"
    except Exception as e:  # noqa: BLE001
        return "raises-" + _exc_name(e)


# ---------------------------------------------------------------------------
# one case
# ---------------------------------------------------------------------------
def case_text(cfg: Dict[str, Any]) -> str:
    if cfg.get("after_run_command"):
        rest = {k: v for k, v in cfg.items() if k != "after_run_command"}
        return f"same process: run_command first, then (process environment left as it is): {case_text(rest)}"
    if "launches" in cfg:
        rest = {k: v for k, v in cfg.items() if k not in ("launches", "launcher")}
        return f"load_config once, then {cfg['launches']} launches through {cfg['launcher']}: {case_text(rest)}"
    if "after_cli" in cfg:
        rest = {k: v for k, v in cfg.items() if k != "after_cli"}
        return f"same process: first the command line with flags {cfg['after_cli']!r} (logging stays as it left it), then: {case_text(rest)}"
    if "cli" in cfg:
        return cli_text(cfg["cli"])
    if "sequence" in cfg:
        (s1, e1), (s2, e2) = cfg["sequence"]
        how = "rewritten in place" if cfg.get("stamp") != "same-size-same-mtime" else \
            "rewritten in place with identical size, mtime restored"
        return (f"same path, same process: {e1} with the file in state {SEQ_STATES[s1]!r}, then file {how} to state "
                f"{SEQ_STATES[s2]!r}, then {e2} || first: {case_text(seq_phase(s1, e1))} || second: "
                f"{case_text(seq_phase(s2, e2))}")
    parts = [f"entry={cfg['entry']}"]
    if cfg.get("host_lacks"):
        parts.append(f"host environment without {list(cfg['host_lacks'])!r}")
    if cfg.get("names_as") and cfg["names_as"] != "list":
        parts.append(f"server names given as a {cfg['names_as']}")
    if cfg.get("logging") and cfg["logging"] != "default":
        parts.append(f"root logger at {cfg['logging']}")
    if cfg.get("cmdkind") and cfg["entry"] == "run_command":
        parts.append(f"command={cfg['cmdkind']}")
    if cfg.get("verbose"):
        parts.append("verbose")
    mal = cfg.get("malformed")
    if mal:
        if mal["class"] == "missing":
            parts.append(f"malformed=missing/{MISSING_VARIANTS[mal['variant']]}")
        elif mal["class"] == "invalid-json":
            parts.append(f"malformed=invalid-json/{INVALID_JSON[mal['variant']][0]} content={INVALID_JSON[mal['variant']][1]!r}")
        elif mal["class"] == "unknown-name":
            parts.append(f"malformed=unknown-name file={UNKNOWN_FILES[mal['file']]}")
        else:
            parts.append("one unknown name among valid ones")
    for i, s in enumerate(cfg.get("servers") or []):
        parts.append(f"server[{NAMES[i + int(cfg.get('name_offset') or 0)]!r}]: {shape_text(s)}")
    hp = cfg.get("host_path") or "plain"
    if hp != "plain":
        parts.append({"decoy-prepended": f"harness PATH starts with a directory holding a different {BARE_NAME!r}",
                      "decoy-appended": f"harness PATH ends with a directory holding a different {BARE_NAME!r}",
                      "own-prepended": "harness PATH starts with the server's own bin directory"}[hp])
    parts.append(f"requested={_req_names(cfg)!r}")
    return "; ".join(parts)


def _req_names(cfg: Dict[str, Any]) -> List[str]:
    out = []
    for r in cfg["request"]:
        out.append(NAMES[r + int(cfg.get("name_offset") or 0)] if isinstance(r, int) else str(r))
    return out


def run_one(ctl: explorer.Ctl, cfg: Dict[str, Any]) -> Dict[str, Any]:
    if not os.path.isfile(WITNESS_SRC):
        raise core.HarnessError(f"witness script missing: {WITNESS_SRC}")
    tmp = os.path.realpath(tempfile.mkdtemp(prefix="c20-"))
    for forbidden in ("/repo", core.ROOT):
        if tmp == forbidden or tmp.startswith(forbidden.rstrip("/") + "/"):
            shutil.rmtree(tmp, ignore_errors=True)
            raise core.HarnessError(f"temp directory {tmp} is inside {forbidden}; set TMPDIR elsewhere")
    marker = os.fsencode(tmp + os.sep)
    pids: List[int] = []
    try:
        if "sequence" in cfg:
            return _run_sequence(cfg, tmp, pids)
        if "after_cli" in cfg:
            return _run_after_cli(cfg, tmp, pids)
        if "launches" in cfg:
            return _run_relaunch(cfg, tmp, pids)
        if cfg.get("after_run_command"):
            return _run_after_run_command(cfg, tmp, pids)
        if "cli" in cfg:
            return _run_cli_case(cfg, tmp, pids)
        return _run_case(cfg, tmp, pids)
    finally:
        # whatever happened: no child of this case survives, nothing stays on disk
        for root, _dirs, files in os.walk(tmp):
            if "events.jsonl" in files:
                _launches_in(root, pids)
        _reap(pids, marker, grace=0.0 if not pids else 2.0)
        shutil.rmtree(tmp, ignore_errors=True)


LAUNCHERS = ["stdio_client", "StdioClient", "StdioTransport", "stdio_client_with_initialize"]
ORDINALS = ["first", "second", "third", "fourth"]


def _run_relaunch(cfg: Dict[str, Any], tmp: str, pids: List[int]) -> Dict[str, Any]:
    """load_config once; then k connections, one after the other, from the SAME returned parameters object.
    The loader's result must come out of every launch unchanged, and every launch must run exactly what is configured."""
    import anyio

    from chuk_mcp.config import load_config
    from chuk_mcp.protocol.messages import send_initialize, send_ping

    k = cfg["launches"]
    launcher = cfg["launcher"]
    path, specs, _ = _build(cfg, tmp)
    sp = specs[0]
    name = _req_names(cfg)[0]
    rec: Dict[str, Any] = {"snapshots": [], "done": 0}
    timed_out = False
    marker = os.fsencode(tmp + os.sep)

    def snapshot(params):
        env = getattr(params, "env", None)
        return {"command": getattr(params, "command", None), "args": list(getattr(params, "args", []) or []),
                "env": None if env is None else dict(env)}

    async def one_launch(params):
        if launcher == "stdio_client":
            from chuk_mcp.transports.stdio import stdio_client

            async with stdio_client(params) as (r, w):
                await send_initialize(r, w, timeout=REQ_TIMEOUT_S)
                await send_ping(r, w, timeout=REQ_TIMEOUT_S)
        elif launcher == "StdioClient":
            from chuk_mcp.transports.stdio.stdio_client import StdioClient

            async with StdioClient(params) as client:
                r, w = client.get_streams()
                await send_initialize(r, w, timeout=REQ_TIMEOUT_S)
                await send_ping(r, w, timeout=REQ_TIMEOUT_S)
        elif launcher == "StdioTransport":
            from chuk_mcp.transports.stdio.transport import StdioTransport

            async with StdioTransport(params) as tr:
                r, w = await tr.get_streams()
                await send_initialize(r, w, timeout=REQ_TIMEOUT_S)
                await send_ping(r, w, timeout=REQ_TIMEOUT_S)
        elif launcher == "stdio_client_with_initialize":
            from chuk_mcp.transports.stdio.stdio_client import stdio_client_with_initialize

            async with stdio_client_with_initialize(params, timeout=REQ_TIMEOUT_S) as (r, w, _init):
                await send_ping(r, w, timeout=REQ_TIMEOUT_S)
        else:
            raise core.HarnessError(f"unknown launcher {launcher!r}")

    async def main():
        with anyio.fail_after(INNER_LIMIT_S):
            loaded = await load_config(path, name)
            params = loaded[0] if isinstance(loaded, tuple) else loaded
            rec["snapshots"].append(snapshot(params))
            for _ in range(k):
                try:
                    await one_launch(params)
                except Exception as e:  # noqa: BLE001
                    rec.setdefault("launch_errors", []).append([rec["done"], _exc_name(e)])
                rec["done"] += 1
                rec["snapshots"].append(snapshot(params))
                if rec["snapshots"][-1] != rec["snapshots"][0] or rec.get("launch_errors"):
                    # already a finding; launching again from an object that is no longer what the loader returned
                    # (or after a failed launch) would only add collateral damage and the library's long time-outs
                    rec["stopped_early"] = True
                    break

    with _parent_env():
        from chuk_mcp.mcp_client.host.environment import get_default_environment

        expected_default = {kk: v for kk, v in dict(get_default_environment()).items() if kk in DEFAULT_NAMES}
        quiet = _Quiet(collect=False)
        try:
            with _Watchdog(CASE_LIMIT_S):
                with quiet:
                    try:
                        anyio.run(main)
                    except Exception as e:  # noqa: BLE001
                        rec["error"] = _exc_name(e)
        except CaseTimeout:
            timed_out = True
        launches = _launches_in(sp["sink"], pids)
        _reap(pids, marker)

    text = f"load_config once, then {k} launches through {launcher} from the same parameters object; {case_text({kk: v for kk, v in cfg.items() if kk not in ('launches', 'launcher')})}"
    viol: List[Dict[str, Any]] = []

    def norm(x: str) -> str:
        return x.replace(tmp, "<TMP>").replace(WITNESS_PY, "<PY>")

    def add(sig, msg):
        viol.append({"sig": sig, "msg": norm(f"{msg} :: {text}")})

    tag = {"entry": "relaunch", "launcher": launcher}
    if timed_out:
        add({"class": "hang", **tag}, "did not finish")
    if "error" in rec:
        add({"class": "not-launched", **tag, "loader": "raises-" + rec["error"]}, f"load_config / the run raised {rec['error']}")
    for j, e in rec.get("launch_errors", []):
        add({"class": "launch-raised", **tag, "launch": ORDINALS[j], "error": e}, f"the {ORDINALS[j]} launch raised {e}")
    snaps = rec["snapshots"]
    for j in range(1, len(snaps)):
        for member in ("command", "args", "env"):
            if snaps[j][member] != snaps[0][member]:
                add({"class": "loader-result-modified-by-launching", **tag, "member": member, "after": ORDINALS[j - 1] + "-launch"},
                    f"the parameters object returned by load_config had {member}={snaps[0][member]!r}; after the "
                    f"{ORDINALS[j - 1]} launch it has {snaps[j][member]!r}")
                break
        else:
            continue
        break
    if len(launches) != k and not timed_out and "error" not in rec and not rec.get("stopped_early"):
        add({"class": "launch-count", **tag, "launches": min(len(launches), 4)}, f"{len(launches)} launches recorded for {k} connections")
    exp_argv = [os.fsencode(x).hex() for x in sp["exp_argv"]]
    n_hs = 0
    for j, L in enumerate(launches[:4]):
        if L["argv"] != exp_argv:
            add({"class": "argv-mismatch", **tag, "launch": ORDINALS[j], "args": ARGS[sp["shape"][0]][0]},
                f"{ORDINALS[j]} launch: child argv {_hexs(L['argv'])!r} != configured {_hexs(exp_argv)!r}")
        got_env = {}
        for kk, v in L["env"].items():
            try:
                got_env[os.fsdecode(bytes.fromhex(kk))] = os.fsdecode(bytes.fromhex(v))
            except ValueError:
                pass
        want = dict(sp["env"]) if _with_values(sp["env"]) else dict(expected_default)
        have = {kk: got_env.get(kk, ABSENT) for kk in want}
        if have != want:
            add({"class": "env-mismatch", **tag, "launch": ORDINALS[j], "env": sp["env_name"]},
                f"{ORDINALS[j]} launch: child environment restricted to the expected names is {have!r}, expected {want!r}")
        conf_keys = set(sp["env"]) if _with_values(sp["env"]) else set()
        leaked = sorted(c for c in CANARIES if c not in conf_keys and c in got_env)
        if leaked:
            add({"class": "env-leak", **tag, "launch": ORDINALS[j]}, f"parent-only variables {leaked!r} reached the child")
        methods = [m for m, _ in L["methods"]]
        if "initialize" in methods and "notifications/initialized" in methods[methods.index("initialize") + 1:]:
            n_hs += 1
        else:
            add({"class": "no-handshake", **tag, "launch": ORDINALS[j]}, f"the witness saw only {methods!r}")
    return {"entry": "relaunch", "case": text, "launches": len(launches), "handshakes": n_hs,
            "launch_errors": rec.get("launch_errors"), "error": rec.get("error"),
            "outcome": f"relaunch/{launcher} connections={k} launched={len(launches)} handshakes={n_hs}",
            "violations": viol, "counters": {"witness_launches": len(launches), "handshakes_seen_by_witness": n_hs}}


def _run_after_run_command(cfg: Dict[str, Any], tmp: str, pids: List[int]) -> Dict[str, Any]:
    """run_command is used first in this process, then an ordinary case runs under the same host environment; whatever
    the first call did to the process must not show in the second launch."""
    case = {k: v for k, v in cfg.items() if k != "after_run_command"}
    first_cfg = {"entry": "run_command", "servers": [R_SHAPES[1]], "request": [0], "cmdkind": "plain",
                 "host_lacks": cfg.get("host_lacks") or []}
    roots = [os.path.join(tmp, "call1"), os.path.join(tmp, "call2")]
    for r in roots:
        os.mkdir(r)
    saved = dict(os.environ)
    try:
        # the process environment is NOT restored between the two calls: only the names the harness controls are re-set
        first = _run_case(first_cfg, tmp, pids, root=roots[0], environ_mode="setup-keep")
        second = _run_case(case, tmp, pids, root=roots[1], environ_mode="inherit-keep")
    finally:
        os.environ.clear()
        os.environ.update(saved)
    viol = list(first["violations"])
    for v in second["violations"]:
        sig = dict(v["sig"])
        sig["after"] = "run_command"
        viol.append({"sig": sig, "msg": f"after run_command was used in the same process: {v['msg']}"})
    counters: Dict[str, int] = {}
    for ph in (first, second):
        for kk, vv in (ph.get("counters") or {}).items():
            counters[kk] = counters.get(kk, 0) + vv
        ph.pop("violations", None)
        ph.pop("counters", None)
    return {"entry": f"run_command then {case['entry']}", "calls": [first, second],
            "outcome": f"[{first['outcome']}] then [{second['outcome']}]", "violations": viol, "counters": counters}


def _run_after_cli(cfg: Dict[str, Any], tmp: str, pids: List[int]) -> Dict[str, Any]:
    """The command line is run first in this process (it configures logging and nobody undoes that), then an ordinary
    case.  The ordinary case is judged exactly as alone."""
    flags = cfg["after_cli"]
    cli_cfg = {"cli": {"config": "existing", "server": "given", "defaults": [], "flags": flags, "form": "long", "via": "main"}}
    case = {k: v for k, v in cfg.items() if k != "after_cli"}
    roots = [os.path.join(tmp, "call1"), os.path.join(tmp, "call2")]
    for r in roots:
        os.mkdir(r)
    with _Logging("lift", null_handler=False):     # snapshot + restore around both calls; main() installs its own handler
        first = _run_cli_case(cli_cfg, roots[0], pids, keep_logging=True)
        second = _run_case(case, tmp, pids, root=roots[1])
    viol = list(first["violations"])
    for v in second["violations"]:
        sig = dict(v["sig"])
        sig["after"] = "command-line " + flags
        viol.append({"sig": sig, "msg": f"after main() was run with flags {flags!r} in the same process: {v['msg']}"})
    counters: Dict[str, int] = {}
    for ph in (first, second):
        for kk, vv in (ph.get("counters") or {}).items():
            counters[kk] = counters.get(kk, 0) + vv
        ph.pop("violations", None)
        ph.pop("counters", None)
    return {"entry": f"command line ({flags}) then {case['entry']}", "calls": [first, second],
            "outcome": f"[{first['outcome']}] then [{second['outcome']}]", "violations": viol, "counters": counters}


def seq_phase(state: int, entry: str) -> Dict[str, Any]:
    """The ordinary single-call case for one file state."""
    name = SEQ_STATES[state]
    extra: Dict[str, Any] = {"cmdkind": "plain"} if entry == "run_command" else (
        {"verbose": False} if entry == "test_server" else {})
    if name == "valid-A":
        return {"entry": entry, "servers": [R_SHAPES[1]], "request": [0], **extra}
    if name == "valid-B":
        return {"entry": entry, "servers": [R_SHAPES[2]], "request": [0], **extra}
    if name == "invalid-json":
        return {"entry": entry, "servers": [R_SHAPES[1]], "request": [0],
                "malformed": {"class": "invalid-json", "variant": 1}, **extra}
    if name == "missing":
        return {"entry": entry, "servers": [R_SHAPES[1]], "request": [0],
                "malformed": {"class": "missing", "variant": MISSING_VARIANTS.index("removed-file")}, **extra}
    if name == "server-name-absent":
        # a valid file whose only server carries another name; the name of the earlier states is requested
        return {"entry": entry, "servers": [R_SHAPES[1]], "name_offset": 1, "request": [NAMES[0]],
                "malformed": {"class": "unknown-name", "file": UNKNOWN_FILES.index("one-server")}, **extra}
    raise core.HarnessError(f"unknown sequence state {state}")


SEQ_PAD = 2048


def _run_sequence(cfg: Dict[str, Any], tmp: str, pids: List[int]) -> Dict[str, Any]:
    """Two calls on the SAME path in the SAME process; the file changes in between.  Each call is judged
    exactly like the single-call case of the state the file is in at that moment."""
    (s1, e1), (s2, e2) = cfg["sequence"]
    same_stamp = cfg.get("stamp") == "same-size-same-mtime"
    path = os.path.join(tmp, "config.json")
    pad = SEQ_PAD if same_stamp else None
    phases = []
    before = None
    for k, (st, en) in enumerate(((s1, e1), (s2, e2))):
        root = os.path.join(tmp, f"call{k + 1}")
        os.mkdir(root)
        obs = _run_case(seq_phase(st, en), tmp, pids, root=root, path=path, pad_to=pad,
                        restore=before if (same_stamp and k == 1) else None)
        phases.append(obs)
        if k == 0:
            try:
                stt = os.stat(path)
                before = (stt.st_atime_ns, stt.st_mtime_ns, stt.st_size)
            except OSError:
                before = None
    viol = list(phases[0]["violations"])
    for v in phases[1]["violations"]:
        sig = dict(v["sig"])
        sig["after"] = f"{e1}:{SEQ_STATES[s1]}"
        if same_stamp:
            sig["stamp"] = "same-size-same-mtime"
        viol.append({"sig": sig, "msg": f"second call on the same path, after {e1} on the file in state "
                                        f"{SEQ_STATES[s1]!r}" + (", rewritten with identical size and mtime" if same_stamp else "")
                                        + f": {v['msg']}"})
    counters: Dict[str, int] = {}
    for ph in phases:
        for kk, vv in (ph.get("counters") or {}).items():
            counters[kk] = counters.get(kk, 0) + vv
    for ph in phases:
        ph.pop("violations", None)
        ph.pop("counters", None)
    return {"entry": f"{e1} then {e2}", "stamp": cfg.get("stamp") or "natural", "calls": phases,
            "outcome": f"[{phases[0]['outcome']}] then [{phases[1]['outcome']}]",
            "violations": viol, "counters": counters}


def _run_case(cfg: Dict[str, Any], tmp: str, pids: List[int], root: Optional[str] = None,
              path: Optional[str] = None, pad_to: Optional[int] = None, restore=None,
              environ_mode: Optional[str] = None) -> Dict[str, Any]:
    entry = cfg["entry"]
    mal = cfg.get("malformed")
    path, specs, decoy_bin = _build(cfg, root or tmp, path, pad_to)
    if restore is not None and os.path.isfile(path):
        if os.path.getsize(path) != restore[2]:
            raise core.HarnessError("sequence: the rewritten file does not have the size of the earlier one")
        os.utime(path, ns=(restore[0], restore[1]))
    host_path = cfg.get("host_path") or "plain"
    names = _req_names(cfg)
    rec: Dict[str, Any] = {}
    timed_out = False
    marker = os.fsencode(tmp + os.sep)

    with _parent_env(cfg.get("host_lacks") or (), environ_mode):
        if host_path == "decoy-prepended":
            os.environ["PATH"] = str(decoy_bin) + os.pathsep + PARENT_ENV["PATH"]
        elif host_path == "decoy-appended":
            os.environ["PATH"] = PARENT_ENV["PATH"] + os.pathsep + str(decoy_bin)
        elif host_path == "own-prepended":
            os.environ["PATH"] = specs[0]["bindir"] + os.pathsep + PARENT_ENV["PATH"]
        elif host_path != "plain":
            raise core.HarnessError(f"unknown host_path {host_path!r}")
        if host_path.startswith("decoy") and not decoy_bin:
            raise core.HarnessError("grammar: decoy on the harness PATH but no server uses the bare command")
        # reference for "env absent or empty": what the library documents as the default environment,
        # evaluated under the same parent environment; restricted to the documented POSIX names so that
        # a reference which itself inherits everything cannot legitimise a leak
        from chuk_mcp.mcp_client.host.environment import get_default_environment
        try:
            lib_default = dict(get_default_environment())
        except Exception as e:  # noqa: BLE001
            raise core.HarnessError(f"get_default_environment() raised {e!r}")
        expected_default = {k: v for k, v in lib_default.items() if k in DEFAULT_NAMES}
        if not expected_default:
            raise core.HarnessError("get_default_environment() names none of the documented variables: "
                                    "the env-absent comparison would be vacuous")
        # run_command closes its connections from another task and leaves the transports to the collector
        quiet = _Quiet(collect=(entry == "run_command"))
        try:
            with _Watchdog(CASE_LIMIT_S), _Logging(cfg.get("logging")):
                with quiet:
                    if entry == "load_config":
                        _drive_load_config(path, names[0], rec)
                    elif entry == "test_server":
                        _drive_test_server(path, names[0], bool(cfg.get("verbose")), rec)
                    elif entry == "run_command":
                        rec["names_as"] = cfg.get("names_as") or "list"
                        _drive_run_command(path, names, cfg.get("cmdkind") or "plain", rec)
                    else:
                        raise core.HarnessError(f"unknown entry {entry!r}")
        except CaseTimeout:
            timed_out = True
        except TimeoutError:
            rec["error"] = "TimeoutError"
        printed = quiet.text()

        # -- collect what the witnesses recorded, then make sure they are gone
        sinks: Dict[str, List[int]] = {}
        for i, sp in enumerate(specs):
            sinks.setdefault(sp["sink"], []).append(i)
        launches: Dict[str, List[Dict[str, Any]]] = {sk: _launches_in(sk, pids) for sk in sinks}
        decoy_launches = _launches_in(decoy_bin, pids) if decoy_bin else []
        split_decoy_launches: List[Dict[str, Any]] = []
        decoy_dirs: List[str] = []
        for sp in specs:
            for pre in sp.get("decoys") or []:
                d = os.path.dirname(pre)
                if d != sp["sink"] and d not in decoy_dirs:
                    decoy_dirs.append(d)
        for d in decoy_dirs:
            split_decoy_launches += _launches_in(d, pids)
        _reap(pids, marker)
        loader_probe: Dict[str, str] = {}

        def loader_status(name: str) -> str:
            if entry == "load_config" and "loader" in rec:
                return rec["loader"]
            if name not in loader_probe:
                loader_probe[name] = _probe_loader(path, name)
            return loader_probe[name]

        viol: List[Dict[str, Any]] = []
        text = case_text(cfg)

        def norm(s: str) -> str:
            return s.replace(tmp, "<TMP>").replace(WITNESS_PY, "<PY>")

        def add(sig: Dict[str, Any], msg: str):
            viol.append({"sig": sig, "msg": norm(f"{msg} :: {text}")})

        diag = norm(printed).strip()
        obs: Dict[str, Any] = {"entry": entry, "case": text, "printed": diag[:400]}
        for k in ("error", "stage", "returned", "timeout", "init", "ping", "command_calls", "streams", "pings",
                  "server_info_names"):
            if k in rec:
                obs[k] = rec[k]

        if timed_out:
            add({"class": "hang", "entry": entry}, f"case did not finish within {CASE_LIMIT_S:.0f} s (watchdog)")

        requested_idx = [r for r in cfg["request"] if isinstance(r, int)]
        bad_names = [r for r in cfg["request"] if not isinstance(r, int)]
        judged_valid = not (mal and mal["class"] != "mixed")
        per_sink = []
        n_launched = 0
        n_handshake = 0

        def effective_env(sp: Dict[str, Any]):
            return dict(sp["env"]) if _with_values(sp["env"]) else "default"

        def twin_of(i: int) -> str:
            """Is another requested server configured with the same command and args?"""
            me = specs[i]
            same = [j for j in requested_idx if j != i and specs[j]["entry"]["command"] == me["entry"]["command"]
                    and specs[j]["entry"].get("args") == me["entry"].get("args")]
            if not same:
                return "none"
            return "env-differs" if any(effective_env(specs[j]) != effective_env(me) for j in same) else "env-same"

        if decoy_launches:
            bare = [specs[i] for i in requested_idx if specs[i]["mode"] >= 3] or [sp for sp in specs if sp["mode"] >= 3]
            add({"class": "wrong-program-launched", "entry": entry, "resolution": MODES[bare[0]["mode"]],
                 "host_path": host_path},
                f"{len(decoy_launches)} launch(es) of the decoy {BARE_NAME!r} that only the harness's own PATH leads to "
                f"(argv {[_hexs(L['argv']) for L in decoy_launches]!r}); the configuration names "
                f"{[sp['entry']['command'] for sp in bare]!r} with env PATH "
                f"{[(sp['entry'].get('env') or {}).get('PATH', '<default>') for sp in bare]!r}")

        if split_decoy_launches:
            odd = [sp for sp in specs if sp["mode"] in (7, 8)]
            add({"class": "wrong-program-launched", "entry": entry, "resolution": "command-with-white-space-was-split",
                 "directory": ODD_DIRS[odd[0]["shape"][5]][0],
                 "args": "no-args-member" if odd[0]["mode"] == 8 else ("empty" if not odd[0]["entry"].get("args") else "non-empty")},
                f"{len(split_decoy_launches)} launch(es) of a program at a white-space prefix of the configured command "
                f"(argv {[_hexs(L['argv']) for L in split_decoy_launches]!r}); configured: command "
                f"{odd[0]['entry']['command']!r} args {odd[0]['entry'].get('args', '<absent>')!r}")

        for sk, members in sinks.items():
            ls = launches[sk]
            req = [i for i in members if i in requested_idx] if judged_valid else []
            off = int(cfg.get("name_offset") or 0)
            who = [NAMES[i + off] for i in members]
            if req and specs[req[0]]["mode"] == CANNOT_START:
                # its program does not exist: nothing can be launched; the runner must say so and carry on with the others
                if entry == "run_command" and not diag:
                    add({"class": "malformed-config-not-reported", "entry": entry, "malformed": "command-does-not-exist",
                         "how": "silent"}, f"run_command printed nothing about server {who!r} whose command does not exist")
                per_sink.append({"servers": who, "requested": len(req), "launches": len(ls), "cannot_start": True})
                continue
            summary: Dict[str, Any] = {"servers": who, "requested": len(req), "launches": len(ls)}
            if not req:
                if ls:
                    if not judged_valid:
                        add({"class": "spawned-on-malformed-config", "entry": entry, "malformed": mal["class"]},
                            f"server {who!r} was launched although the configuration request is malformed")
                    else:
                        add({"class": "unrequested-server-launched", "entry": entry},
                            f"server {who!r} was launched but only {names!r} were requested")
                per_sink.append(summary)
                continue
            sp = specs[req[0]]            # all members of one sink are indistinguishable launches (checked in _build)
            shape = sp["shape"]
            reqnames = [NAMES[i + off] for i in req]
            if len(ls) < len(req):
                st = loader_status(NAMES[req[-1] + off])
                tw = twin_of(req[0]) if len(members) == 1 else "env-same"
                for _ in range(len(req) - len(ls)):
                    add({"class": "not-launched", "entry": entry, "loader": st, "twin": tw,
                         **({"names_as": cfg["names_as"]} if cfg.get("names_as") not in (None, "list") else {})},
                        f"requested server(s) {reqnames!r}: {len(ls)} launch(es) recorded, {len(req)} expected "
                        f"(loader alone: {st}; another requested server with the same command+args: {tw}; "
                        f"error={rec.get('error')}; printed={diag[:160]!r})")
            if len(ls) > len(req):
                add({"class": "launched-more-than-once", "entry": entry},
                    f"requested server(s) {reqnames!r}: {len(ls)} launches recorded, {len(req)} expected")
            n_launched += min(len(ls), len(req))
            exp_argv = [os.fsencode(x).hex() for x in sp["exp_argv"]]
            conf_env = sp["env"]
            summary["argv_ok"], summary["env_ok"], summary["leaked"], summary["methods"] = [], [], [], []
            for L in ls:
                ok = L["argv"] == exp_argv
                summary["argv_ok"].append(ok)
                if not ok:
                    add({"class": "argv-mismatch", "entry": entry, "args": ARGS[shape[0]][0], "launch": MODES[sp["mode"]]},
                        f"server {reqnames!r}: child argv {_hexs(L['argv'])!r} != expected {_hexs(exp_argv)!r} "
                        f"(configured command {sp['entry']['command']!r} args {sp['entry'].get('args', '<absent>')!r})")
                got_env = {}
                for k, v in L["env"].items():
                    try:
                        got_env[os.fsdecode(bytes.fromhex(k))] = os.fsdecode(bytes.fromhex(v))
                    except ValueError:
                        pass
                if _with_values(conf_env):
                    want = dict(conf_env)
                    kind = "configured"
                else:
                    want = dict(expected_default)
                    kind = "default"
                have = {k: got_env.get(k, ABSENT) for k in want}
                summary["env_ok"].append(have == want)
                if have != want:
                    add({"class": "env-mismatch", "entry": entry, "env": sp["env_name"]},
                        f"server {reqnames!r}: child environment restricted to the {kind} names is {have!r}, "
                        f"expected {want!r}")
                conf_keys = set(conf_env) if _with_values(conf_env) else set()
                # a default-inherited name the HOST does not have cannot be inherited: nobody may invent a value for it
                invented = sorted(k for k in (cfg.get("host_lacks") or ()) if k not in conf_keys and k in got_env)
                if invented:
                    add({"class": "env-variable-invented", "entry": entry, "env": sp["env_name"], "names": "+".join(invented)},
                        f"server {reqnames!r}: the host has no {invented!r} and the configuration sets none, but the child has "
                        f"{ {k: got_env[k] for k in invented}!r}")
                leaked = sorted(k for k in CANARIES if k not in conf_keys and k in got_env)
                summary["leaked"].append(leaked)
                if leaked:
                    add({"class": "env-leak", "entry": entry, "env": sp["env_name"]},
                        f"server {reqnames!r}: parent-only variables {leaked!r} reached the child "
                        f"(configured env: {'absent' if conf_env is ABSENT else repr(conf_env)})")
                methods = [m for m, _ in L["methods"]]
                summary["methods"].append(methods)
                got_init = "initialize" in methods
                got_inited = got_init and "notifications/initialized" in methods[methods.index("initialize") + 1:]
                if got_init and got_inited:
                    n_handshake += 1
                else:
                    add({"class": "no-handshake", "entry": entry,
                         "missing": "initialize" if not got_init else "notifications/initialized"},
                        f"server {reqnames!r} was launched but the witness saw only {methods!r} "
                        f"(error={rec.get('error')}, printed={diag[:160]!r})")
            per_sink.append(summary)

        obs["servers"] = per_sink
        obs["decoy_launches"] = len(decoy_launches)
        if entry == "run_command" and judged_valid and "error" in rec and not timed_out:
            add({"class": "run_command-raised", "command": cfg.get("cmdkind") or "plain", "error": rec["error"]},
                f"run_command let {rec['error']} escape (command function kind {cfg.get('cmdkind')!r})")

        # -- documented loader return value (entry load_config only)
        if entry == "load_config" and not mal and rec.get("loader") == "ok":
            conf_t = TIMEOUTS[cfg["servers"][requested_idx[0]][2]][1]
            want_t = None if conf_t is ABSENT else float(conf_t)
            got_t = rec.get("timeout", "<no second element>")
            ok = (got_t is None) if want_t is None else (isinstance(got_t, (int, float)) and got_t == want_t)
            if not ok:
                add({"class": "loader-timeout-mismatch", "timeout": TIMEOUTS[cfg["servers"][requested_idx[0]][2]][0]},
                    f"load_config returned timeout {got_t!r}, the file says "
                    f"{'nothing' if conf_t is ABSENT else repr(conf_t)}")

        # -- malformed classes
        if mal and mal["class"] != "mixed":
            cls = mal["class"]
            if entry == "load_config":
                want_exc = {"missing": "FileNotFoundError", "invalid-json": "JSONDecodeError",
                            "unknown-name": "ValueError"}[cls]
                if want_exc not in (rec.get("error_is") or []):
                    got = rec.get("error") or "returned-normally"
                    add({"class": "wrong-error", "entry": entry, "malformed": cls, "got": got},
                        f"load_config: expected {want_exc}, got {got}")
            else:
                how = None
                if "error" in rec:
                    how = "raised-" + rec["error"]
                elif entry == "test_server" and rec.get("returned") is not False:
                    how = "reported-success" if rec.get("returned") is True else "returned-non-bool"
                elif entry == "run_command" and rec.get("command_calls"):
                    how = "command-ran"
                elif not diag:
                    how = "silent"
                if how:
                    add({"class": "malformed-config-not-reported", "entry": entry, "malformed": cls, "how": how},
                        f"{entry} on a {cls} configuration: {how}; printed={diag[:160]!r}")
        elif bad_names:
            # run_command with a known and an unknown name: the known ones were judged above
            if not diag:
                add({"class": "malformed-config-not-reported", "entry": entry, "malformed": "unknown-name-among-valid",
                     "how": "silent"}, f"run_command printed nothing about the unknown name {bad_names!r}")

        if mal and mal["class"] != "mixed":
            shown = rec.get("error") or (f"returned={rec.get('returned')}" if entry == "test_server" else
                                         f"command_calls={rec.get('command_calls')}")
            obs["outcome"] = f"{entry} {mal['class']} -> {shown}"
        else:
            tag = entry if entry != "run_command" else f"run_command/{cfg.get('cmdkind') or 'plain'}"
            obs["outcome"] = (f"{tag} requested={len(cfg['request'])} launched={n_launched} "
                              f"handshakes={n_handshake}" + (" TIMEOUT" if timed_out else ""))
        obs["violations"] = viol
        obs["split_decoy_launches"] = len(split_decoy_launches)
        obs["counters"] = {"witness_launches": sum(len(x) for x in launches.values()) + len(decoy_launches)
                           + len(split_decoy_launches),
                           "handshakes_seen_by_witness": n_handshake}
        return obs



# ---------------------------------------------------------------------------
# the command line itself: chuk_mcp.__main__.main() with an argument vector, a working directory and a HOME
# ---------------------------------------------------------------------------
# the five default locations main() documents (find_default_config), in their order of precedence
DEFAULT_LOCATIONS = ["cwd/server_config.json", "cwd/mcp_config.json", "cwd/config.json",
                     "home/.config/mcp/config.json", "home/.mcp_config.json"]
CLI_CONFIG = ["existing", "missing", "invalid-json", "absent"]     # what --config names
CLI_SERVER = ["given", "absent", "unknown"]                         # --server alpha | (default: sqlite) | nope
CLI_FLAGS = ["run", "verbose", "list"]
CLI_FORMS = ["long", "short", "equals"]                             # --config P --server S | -c P -s S | --config=P --server=S
CLI_VIA = ["main", "process"]                                       # main() called in the worker | python -m chuk_mcp
# every file holds the same three server names, each with its own witness, so the record says WHICH file was used
CLI_SERVERS = [("alpha", ["a b"], {"A": "1", "API_TOKEN": "tok-123", "db_password": "p w"}), ("sqlite", [], ABSENT)]


def cli_text(c: Dict[str, Any]) -> str:
    dl = [DEFAULT_LOCATIONS[i] for i in c["defaults"]]
    cfgs = {"existing": "--config <an existing file>", "missing": "--config <a file that does not exist>",
            "invalid-json": "--config <a file that is not JSON>", "absent": "no --config"}[c["config"]]
    srv = {"given": "--server alpha", "absent": "no --server (default 'sqlite')", "unknown": "--server nope"}[c["server"]]
    flag = {"run": "", "verbose": " --verbose", "list": " --list-servers"}[c["flags"]]
    how = "python -m chuk_mcp" if c.get("via") == "process" else "chuk_mcp.__main__.main()"
    return (f"entry={how}: {cfgs} {srv}{flag} (option form: {c.get('form', 'long')}); default-location files present: "
            f"{dl or 'none'}")


def _cli_file(tmp: str, fid: str) -> Dict[str, Any]:
    """A valid config file 'fid' with servers alpha / sqlite / only-in-<fid>; returns the document and the sinks."""
    servers: Dict[str, Any] = {}
    sinks: Dict[str, Dict[str, Any]] = {}
    for name, args, env in CLI_SERVERS + [(f"only-in-{fid}", ["m"], ABSENT)]:
        d = os.path.join(tmp, "files", fid, name)
        os.makedirs(d)
        script = os.path.join(d, "witness.py")
        shutil.copyfile(WITNESS_SRC, script)
        ent: Dict[str, Any] = {"command": WITNESS_PY, "args": [script] + list(args)}
        if env is not ABSENT:
            ent["env"] = dict(env)
        servers[name] = ent
        sinks[name] = {"dir": d, "exp_argv": [WITNESS_PY, script] + list(args), "env": env}
    return {"doc": {"mcpServers": servers}, "sinks": sinks}


def _run_cli_case(cfg: Dict[str, Any], tmp: str, pids: List[int], keep_logging: bool = False) -> Dict[str, Any]:
    import logging
    import subprocess

    c = cfg["cli"]
    via = c.get("via") or "main"
    entry = "cli-" + via
    cwd = os.path.join(tmp, "cwd")
    home = os.path.join(tmp, "home")
    named_dir = os.path.join(tmp, "named")
    for d in (cwd, home, named_dir):
        os.makedirs(d)
    files: Dict[str, Dict[str, Any]] = {}
    paths: Dict[str, str] = {}
    for i in c["defaults"]:
        fid = DEFAULT_LOCATIONS[i]
        base, rel = fid.split("/", 1)
        path = os.path.join(cwd if base == "cwd" else home, rel)
        os.makedirs(os.path.dirname(path), exist_ok=True)
        files[fid] = _cli_file(tmp, fid.replace("/", "_"))
        paths[fid] = path
        _write_config(path, json.dumps(files[fid]["doc"], ensure_ascii=False, indent=1), None)
    named = None
    if c["config"] == "existing":
        named = os.path.join(named_dir, "my-servers.json")
        files["named"] = _cli_file(tmp, "named")
        _write_config(named, json.dumps(files["named"]["doc"], ensure_ascii=False, indent=1), None)
    elif c["config"] == "missing":
        named = os.path.join(named_dir, "not-there.json")
    elif c["config"] == "invalid-json":
        named = os.path.join(named_dir, "broken.json")
        _write_config(named, INVALID_JSON[1][1], None)
    # -- what the documentation promises
    if c["config"] == "absent":
        present = [DEFAULT_LOCATIONS[i] for i in sorted(c["defaults"])]
        exp_file = present[0] if present else None       # first of the documented locations that exists
        why_fail = None if present else "no configuration file anywhere"
    elif c["config"] == "existing":
        exp_file, why_fail = "named", None
    else:
        exp_file, why_fail = None, f"the named file is {c['config']}"
    req_name = {"given": "alpha", "absent": "sqlite", "unknown": "nope"}[c["server"]]
    listing = c["flags"] == "list"
    if exp_file and not listing and c["server"] == "unknown":
        why_fail = "the server name is not in the file"
    exp_sink = None if (listing or why_fail) else (exp_file, req_name)

    form = c.get("form") or "long"
    argv: List[str] = []
    if named is not None:
        argv += {"long": ["--config", named], "short": ["-c", named], "equals": ["--config=" + named]}[form]
    if c["server"] != "absent":
        argv += {"long": ["--server", req_name], "short": ["-s", req_name], "equals": ["--server=" + req_name]}[form]
    if c["flags"] == "verbose":
        argv += ["--verbose"] if form != "short" else ["-v"]
    if listing:
        argv += ["--list-servers"] if form != "short" else ["-l"]

    rec: Dict[str, Any] = {}
    timed_out = False
    marker = os.fsencode(tmp + os.sep)
    printed = ""
    with _parent_env():
        os.environ["HOME"] = home
        expected_default = {k: os.environ[k] for k in DEFAULT_NAMES}
        if via == "main":
            quiet = _Quiet(collect=False)
            root_logger = logging.getLogger()
            saved = (list(root_logger.handlers), root_logger.level, logging.getLogger("anyio").level, sys.argv, os.getcwd())
            lifted = _Logging("lift")
            lifted.__enter__()                      # a command line runs with logging enabled; main() sets the level
            for h in list(root_logger.handlers):
                if type(h).__name__ == "NullHandler" and h not in saved[0]:
                    root_logger.removeHandler(h)    # let main()'s basicConfig install its own handler, as in a fresh process
            try:
                with _Watchdog(CASE_LIMIT_S):
                    with quiet:
                        from chuk_mcp.__main__ import main
                        sys.argv = ["chuk_mcp"] + argv
                        os.chdir(cwd)
                        try:
                            main()
                            rec["exit"] = 0
                        except SystemExit as e:
                            rec["exit"] = 0 if e.code is None else (e.code if isinstance(e.code, int) else 1)
                        except Exception as e:  # noqa: BLE001
                            rec["error"] = _exc_name(e)
            except CaseTimeout:
                timed_out = True
            finally:
                sys.argv = saved[3]
                os.chdir(saved[4])
                if not keep_logging:
                    lifted.__exit__(None, None, None)
            printed = quiet.text()
        else:
            import chuk_mcp

            src_root = os.path.dirname(os.path.dirname(os.path.abspath(chuk_mcp.__file__)))
            env = {k: os.environ[k] for k in PARENT_ENV}
            env.update({"PYTHONPATH": src_root, "PYTHONDONTWRITEBYTECODE": "1", "PYTHONHASHSEED": "0",
                        "PYTHONIOENCODING": "utf-8"})
            try:
                p = subprocess.run([sys.executable, "-m", "chuk_mcp"] + argv, cwd=cwd, env=env, stdin=subprocess.DEVNULL,
                                   stdout=subprocess.PIPE, stderr=subprocess.DEVNULL, timeout=CASE_LIMIT_S)
                rec["exit"] = p.returncode
                printed = p.stdout.decode("utf-8", "replace")
            except subprocess.TimeoutExpired:
                timed_out = True

        # -- collect
        launches: Dict[Tuple[str, str], List[Dict[str, Any]]] = {}
        for fid, f in files.items():
            for name, sk in f["sinks"].items():
                launches[(fid, name)] = _launches_in(sk["dir"], pids)
        _reap(pids, marker)

    text = cli_text(c)
    viol: List[Dict[str, Any]] = []

    def norm(x: str) -> str:
        return x.replace(tmp, "<TMP>").replace(WITNESS_PY, "<PY>")

    def add(sig: Dict[str, Any], msg: str):
        viol.append({"sig": sig, "msg": norm(f"{msg} :: {text}")})

    diag = norm(printed).strip()
    nd = len(c["defaults"])
    dtag = "none" if nd == 0 else ("one" if nd == 1 else "several")
    tag = {"entry": entry, "config": c["config"], "defaults": dtag}
    if timed_out:
        add({"class": "hang", **tag}, f"did not finish within {CASE_LIMIT_S:.0f} s")
    if "error" in rec:
        add({"class": "cli-raised", **tag, "error": rec["error"]}, f"main() let {rec['error']} escape")
    n_launched = n_handshake = 0
    for (fid, name), ls in launches.items():
        if not ls:
            continue
        if (fid, name) != exp_sink:
            if exp_file is None or fid != exp_file:
                add({"class": "server-from-a-file-that-was-not-named", **tag, "used": fid, "flags": c["flags"]},
                    f"server {name!r} of {fid} was launched {len(ls)} time(s); "
                    + (f"expected a failure because {why_fail}" if why_fail else
                       ("a listing launches nothing" if listing else f"the file to use is {exp_file}")))
            else:
                add({"class": "wrong-server-of-the-file", **tag}, f"server {name!r} of {fid} was launched, {req_name!r} was asked for")
            continue
        sk = files[fid]["sinks"][name]
        n_launched += 1
        if len(ls) > 1:
            add({"class": "launched-more-than-once", **tag}, f"server {name!r} of {fid}: {len(ls)} launches")
        L = ls[0]
        exp_argv = [os.fsencode(x).hex() for x in sk["exp_argv"]]
        if L["argv"] != exp_argv:
            add({"class": "argv-mismatch", **tag}, f"child argv {_hexs(L['argv'])!r} != configured {_hexs(exp_argv)!r}")
        got_env = {}
        for k, v in L["env"].items():
            try:
                got_env[os.fsdecode(bytes.fromhex(k))] = os.fsdecode(bytes.fromhex(v))
            except ValueError:
                pass
        want = dict(sk["env"]) if _with_values(sk["env"]) else dict(expected_default)
        have = {k: got_env.get(k, ABSENT) for k in want}
        if have != want:
            add({"class": "env-mismatch", **tag, "env": "configured" if _with_values(sk["env"]) else "default"},
                f"child environment restricted to the expected names is {have!r}, expected {want!r}")
        conf_keys = set(sk["env"]) if _with_values(sk["env"]) else set()
        leaked = sorted(k for k in CANARIES if k not in conf_keys and k in got_env)
        if leaked:
            add({"class": "env-leak", **tag}, f"parent-only variables {leaked!r} reached the child")
        methods = [m for m, _ in L["methods"]]
        if "initialize" in methods and "notifications/initialized" in methods[methods.index("initialize") + 1:]:
            n_handshake += 1
        else:
            add({"class": "no-handshake", **tag}, f"the witness saw only {methods!r}; printed={diag[:160]!r}")
    if exp_sink is not None and not launches.get(exp_sink):
        add({"class": "not-launched", **tag, "server": c["server"]},
            f"server {req_name!r} of {exp_file} was never launched (exit={rec.get('exit')}, printed={diag[:200]!r})")
    if why_fail and not timed_out and "error" not in rec:
        how = None
        if rec.get("exit") == 0:
            how = "exit-status-0"
        elif not diag:
            how = "silent"
        if how:
            add({"class": "cli-failure-not-reported", **tag, "server": c["server"], "flags": c["flags"], "how": how},
                f"{why_fail}, but the command line ended with exit status {rec.get('exit')} and printed {diag[:200]!r}")
    if listing and exp_file and not timed_out and "error" not in rec:
        others = sorted(f for f in files if f != exp_file and f"only-in-{f.replace('/', '_')}" in printed)
        mine = f"only-in-{exp_file.replace('/', '_')}" in printed
        if others or not mine:
            add({"class": "listing-from-another-file", **tag},
                f"--list-servers should list {exp_file}; its marker server is {'shown' if mine else 'missing'}, markers of "
                f"{others} are shown")
    outcome = (f"{entry} {c['config']}/{c['server']}/{c['flags']} -> exit={rec.get('exit')} launched={n_launched} "
               f"handshakes={n_handshake}" + (" TIMEOUT" if timed_out else ""))
    return {"entry": entry, "case": text, "printed": diag[:400], "exit": rec.get("exit"), "error": rec.get("error"),
            "launched": sorted(f"{fid}:{name}" for (fid, name), ls in launches.items() if ls), "outcome": outcome,
            "violations": viol,
            "counters": {"witness_launches": sum(len(x) for x in launches.values()), "handshakes_seen_by_witness": n_handshake}}


def cli_configs(tier: str) -> Dict[str, List[Dict[str, Any]]]:
    thorough = tier == "thorough"
    n = len(DEFAULT_LOCATIONS)
    all_subsets = [list(sub) for k in range(n + 1) for sub in itertools.combinations(range(n), k)]
    few = [[]] + [[i] for i in range(n)] + [list(range(n))]
    g: List[Dict[str, Any]] = []

    def case(**kw):
        return {"cli": {"config": kw["config"], "server": kw.get("server", "given"), "defaults": kw["defaults"],
                        "flags": kw.get("flags", "run"), "form": kw.get("form", "long"), "via": kw.get("via", "main")}}

    for server in CLI_SERVER:
        for d in all_subsets:                                   # no --config: every subset of the five locations
            g.append(case(config="absent", server=server, defaults=d))
        for config in ("existing", "missing", "invalid-json"):  # a file is named: the locations must not matter
            for d in (all_subsets if thorough else few):
                g.append(case(config=config, server=server, defaults=d))
    for config in CLI_CONFIG:
        for d in (all_subsets if thorough else few):
            g.append(case(config=config, defaults=d, flags="list"))
    for config in ("existing", "missing", "absent"):
        for d in ([], list(range(n))):
            g.append(case(config=config, defaults=d, flags="verbose"))
    for server in ("given", "absent"):        # --verbose with a configured env (alpha) and with none (sqlite)
        for form in CLI_FORMS:
            g.append(case(config="existing", server=server, defaults=[], flags="verbose", form=form))
    for form in ("short", "equals"):
        for config in ("existing", "missing"):
            for d in ([], list(range(n))):
                for flags in ("run", "list"):
                    g.append(case(config=config, defaults=d, form=form, flags=flags))
    # the real process: python -m chuk_mcp with cwd, HOME and environment given
    pr = []
    for config in ("existing", "missing", "absent"):
        for d in [[], list(range(n))] + ([[3], [4]] if thorough else []):
            pr.append(case(config=config, defaults=d, via="process"))
    pr.append(case(config="existing", server="unknown", defaults=[], via="process"))
    pr.append(case(config="existing", server="absent", defaults=[0], via="process"))
    pr.append(case(config="invalid-json", defaults=list(range(n)), via="process"))
    pr.append(case(config="missing", defaults=list(range(n)), flags="list", via="process"))
    pr.append(case(config="absent", defaults=[2, 4], flags="list", via="process"))
    return {"command-line-main": g, "command-line-real-process": pr}


NAMES_AS = ["list", "tuple", "generator", "map", "dict-keys", "iterator"]   # how run_command is given the server names
CMD_KINDS = ["plain", "interactive_mode", "chat_run", "interactive_mode-without-server_info", "raises", "keyboard-interrupt"]


# ---------------------------------------------------------------------------
# the space
# ---------------------------------------------------------------------------
def _subsets(n: int) -> List[List[int]]:
    out = []
    for k in range(1, n + 1):
        out.extend(list(c) for c in itertools.combinations(range(n), k))
    return out


def shapes_for(tier: str, n: int) -> int:
    """How many of the R_SHAPES are assigned to the positions of an n-server file."""
    if tier == "thorough":
        return len(R_SHAPES) if n <= 3 else 3
    return len(R_SHAPES) if n <= 2 else 3


def configs_for(tier: str) -> Dict[str, Tuple[int, List[Dict[str, Any]]]]:
    """part name -> (max witness children alive in one case, cases)."""
    thorough = tier == "thorough"
    parts: Dict[str, Tuple[int, List[Dict[str, Any]]]] = {}

    # (1) one server: the full product of the grammar x entry points
    g = []
    for a, e, t, x in itertools.product(range(N_BASE_ARGS), range(N_BASE_ENVS), range(len(TIMEOUTS)), range(N_BASE_EXTRAS)):
        shape = [a, e, t, x]
        g.append({"entry": "load_config", "servers": [shape], "request": [0]})
        for verbose in ([False, True] if thorough else [False]):
            g.append({"entry": "test_server", "servers": [shape], "request": [0], "verbose": verbose})
        for kind in (["plain", "interactive_mode"] if thorough else ["plain"]):
            g.append({"entry": "run_command", "servers": [shape], "request": [0], "cmdkind": kind})
    parts["one-server-full-product"] = (1, g)

    # (2) malformed classes x entry points (no child expected)
    g = []
    for entry in ENTRIES:
        extra = {"cmdkind": "plain"} if entry == "run_command" else {}
        for v in range(N_MISSING_BASE):
            g.append({"entry": entry, "servers": [R_SHAPES[1]], "request": [0],
                      "malformed": {"class": "missing", "variant": v}, **extra})
        for v in range(len(INVALID_JSON)):
            g.append({"entry": entry, "servers": [R_SHAPES[1]], "request": [0],
                      "malformed": {"class": "invalid-json", "variant": v}, **extra})
        for f, fname in enumerate(UNKNOWN_FILES):
            servers = {"no-mcpServers-key": [], "empty-mcpServers": [], "one-server": [R_SHAPES[1]],
                       "three-servers": [R_SHAPES[0], R_SHAPES[1], R_SHAPES[2]]}[fname]
            for _, uname in UNKNOWN_NAMES:
                g.append({"entry": entry, "servers": servers, "request": [uname],
                          "malformed": {"class": "unknown-name", "file": f}, **extra})
    parts["malformed-classes"] = (1, g)

    # (3) several servers in one file
    max_n = 4 if thorough else 3
    mixed_max_n = 3 if thorough else 2
    by_children: Dict[int, List[Dict[str, Any]]] = {}
    for n in range(1, max_n + 1):
        for combo in itertools.product(range(shapes_for(tier, n)), repeat=n):
            servers = [R_SHAPES[c] for c in combo]
            if n >= 2:
                for target in range(n):
                    by_children.setdefault(1, []).append(
                        {"entry": "load_config", "servers": servers, "request": [target]})
                    by_children.setdefault(1, []).append(
                        {"entry": "test_server", "servers": servers, "request": [target], "verbose": False})
                for sub in _subsets(n):
                    orders = [sub]
                    if thorough and len(sub) == n:
                        orders.append(list(reversed(sub)))
                    # quick: the 'interactive_mode' command function only with all names of the file
                    kinds = ["plain", "interactive_mode"] if (thorough or len(sub) == n) else ["plain"]
                    for req in orders:
                        for kind in kinds:
                            by_children.setdefault(len(sub), []).append(
                                {"entry": "run_command", "servers": servers, "request": list(req), "cmdkind": kind})
            if n <= mixed_max_n:
                # run_command given every server of the file plus one unknown name, at every position
                for pos in range(n + 1):
                    req: List[Any] = list(range(n))
                    req.insert(pos, UNKNOWN)
                    by_children.setdefault(n, []).append(
                        {"entry": "run_command", "servers": servers, "request": req, "cmdkind": "plain",
                         "malformed": {"class": "mixed"}})
    # (4) servers that share command+args and differ only in env (or only in timeout / an extra key):
    #     they are different servers, each requested one must be launched once, with its own env
    for n in (2, 3):
        pool = list(range(len(D_SHAPES))) if (n == 2 or thorough) else D_SHAPES_TRIPLES_QUICK
        for combo in itertools.product(pool, repeat=n):
            servers = [D_SHAPES[c] for c in combo]
            hp = "decoy-prepended" if any(D_SHAPES[c][4] >= 3 for c in combo) else "plain"
            if n == 2 or thorough:
                for target in range(n):
                    by_children.setdefault(1, []).append(
                        {"entry": "load_config", "servers": servers, "request": [target], "host_path": hp})
                    by_children.setdefault(1, []).append(
                        {"entry": "test_server", "servers": servers, "request": [target], "verbose": False,
                         "host_path": hp})
                orders = [list(p) for sub in _subsets(n) for p in itertools.permutations(sub)]
            else:
                orders = [list(range(n)), list(reversed(range(n)))]
            for req in orders:
                kinds = ["plain", "interactive_mode"] if (len(req) == n and n == 2) else ["plain"]
                for kind in kinds:
                    by_children.setdefault(len(req), []).append(
                        {"entry": "run_command", "servers": servers, "request": req, "cmdkind": kind, "host_path": hp})
    # (4b) what run_command does around the command function and with a server that cannot start
    two = [R_SHAPES[1], R_SHAPES[2]]
    for req in ([0], [0, 1], [1, 0]):
        for kind in CMD_KINDS[2:]:
            by_children.setdefault(len(req), []).append(
                {"entry": "run_command", "servers": two, "request": req, "cmdkind": kind})
    for names_as in NAMES_AS[1:]:
        for req in ([0], [1], [0, 1], [1, 0]):
            for kind in ("plain", "interactive_mode"):
                by_children.setdefault(len(req), []).append(
                    {"entry": "run_command", "servers": two, "request": req, "cmdkind": kind, "names_as": names_as})
    broken = [R_SHAPES[1], [0, 0, 0, 0, CANNOT_START, 0], R_SHAPES[2]]
    for req in ([1], [0, 1], [1, 0], [0, 1, 2], [1, 2, 0], [2, 0, 1]):
        for kind in (CMD_KINDS if thorough else ["plain", "interactive_mode", "raises"]):
            n_ok = len([r for r in req if r != 1])
            by_children.setdefault(max(1, n_ok), []).append(
                {"entry": "run_command", "servers": broken, "request": req, "cmdkind": kind})
    # the real 'python -m chuk_mcp' processes (command-line process + witness = two children) ride along with the
    # two-children cases, so that the pool - with its bound on live children - runs them
    cli = cli_configs(tier)
    by_children.setdefault(2, []).extend(cli["command-line-real-process"])
    for k in sorted(by_children):
        parts[f"multi-server-{k}-child{'ren' if k > 1 else ''}"] = (k, by_children[k])

    # (5) how the command is resolved: a bare name must be looked up on the PATH the child gets
    #     (the configured env's PATH; the default env's PATH when env is absent), never on the harness's own
    g = []
    res_args = list(range(N_BASE_ARGS)) if thorough else [0, 2, 6]
    for entry in ENTRIES:
        extra = {"cmdkind": "plain"} if entry == "run_command" else ({"verbose": False} if entry == "test_server" else {})
        for a in res_args:
            for m, hp in ((4, "decoy-prepended"), (3, "plain"), (3, "decoy-prepended"), (3, "decoy-appended")):
                for e, pf in ([(2, 0), (2, 1), (2, 2), (1, 0), (1, 1), (1, 2)] if thorough
                              else [(2, 0), (2, 1), (2, 2), (1, 0)]):
                    g.append({"entry": entry, "servers": [[a, e, 0, 0, m, pf]], "request": [0], "host_path": hp, **extra})
            for e in (0, 1):
                g.append({"entry": entry, "servers": [[a, e, 0, 0, 5, 0]], "request": [0], "host_path": "own-prepended",
                          **extra})
    parts["command-resolution"] = (1, g)

    # (6) env shapes that steer the library itself (LOG_LEVEL / LOGGING_LEVEL decide how the child's stderr is set up)
    g = []
    for entry in ENTRIES:
        extra = {"cmdkind": "plain"} if entry == "run_command" else ({"verbose": False} if entry == "test_server" else {})
        for a in (range(N_BASE_ARGS) if thorough else (0, 2, 5, 6)):   # >= 128 cases, so the pool (not the parent) runs them
            for e in STEER_ENVS:
                g.append({"entry": entry, "servers": [[a, e, 0, 0]], "request": [0], **extra})
    # verbose connectivity test: the server's environment is still exactly the configured one (or the default set)
    for verbose in (False, True):
        for a in (0, 2):
            for e in [0, 1, 2, 3] + [STEER_ENVS[4], STEER_ENVS[5], STEER_ENVS[0]]:
                g.append({"entry": "test_server", "servers": [[a, e, 0, 0]], "request": [0], "verbose": verbose})
    # a host that lacks default-inherited names: they are absent from the child too (nothing is made up for them)
    for entry in ENTRIES:
        extra = {"cmdkind": "plain"} if entry == "run_command" else ({"verbose": False} if entry == "test_server" else {})
        for lacks in [[n] for n in DEFAULT_NAMES if n != "PATH"] + [["TERM", "SHELL", "LOGNAME"], ["HOME", "USER", "LOGNAME", "SHELL", "TERM"]]:
            for e in (0, 1, 2):
                g.append({"entry": entry, "servers": [[2, e, 0, 0]], "request": [0], "host_lacks": lacks, **extra})
    # ... and stays absent for whatever is launched next in the same process
    for lacks in (["TERM"], ["HOME", "TERM"]):
        for e2 in ENTRIES:
            extra2 = {"cmdkind": "plain"} if e2 == "run_command" else ({"verbose": False} if e2 == "test_server" else {})
            g.append({"after_run_command": True, "entry": e2, "servers": [[0, 0, 0, 0]], "request": [0], "host_lacks": lacks, **extra2})
    parts["env-steering-variables"] = (1, g)

    # (7) two calls on the same path in one process, the file changing in between: every ordered pair of file states
    #     x every pair of entry points; file->file transitions also with identical size and restored mtime
    g = []
    file_states = [i for i, n in enumerate(SEQ_STATES) if n != "missing"]
    for s1 in range(len(SEQ_STATES)):
        for s2 in range(len(SEQ_STATES)):
            for e1 in ENTRIES:
                for e2 in ENTRIES:
                    g.append({"sequence": [[s1, e1], [s2, e2]], "stamp": "natural"})
                    if s1 in file_states and s2 in file_states:
                        g.append({"sequence": [[s1, e1], [s2, e2]], "stamp": "same-size-same-mtime"})
    parts["call-sequences-on-one-path"] = (1, g)

    # (8) the command line: main() with an argument vector, working directory and HOME (the real-process cases are in the
    #     two-children part above)
    parts["command-line-main"] = (1, cli["command-line-main"])

    # (9) env NAMES that look like secrets x what the root logger is set to (and: a command-line call earlier in the process)
    g = []
    for entry in ENTRIES:
        extra = {"cmdkind": "plain"} if entry == "run_command" else ({"verbose": False} if entry == "test_server" else {})
        for e in SECRET_ENVS:
            for lvl in LOGGING:
                for a in ((0, 2, 5, 6) if not thorough else range(N_BASE_ARGS)):
                    g.append({"entry": entry, "servers": [[a, e, 0, 0]], "request": [0], "logging": lvl, **extra})
            for flags in ("verbose", "run"):
                g.append({"after_cli": flags, "entry": entry, "servers": [[2, e, 0, 0]], "request": [0], **extra})
        if entry == "test_server":
            for e in SECRET_ENVS:
                for lvl in LOGGING:
                    g.append({"entry": entry, "servers": [[2, e, 0, 0]], "request": [0], "logging": lvl, "verbose": True})
    parts["secret-looking-env-names-x-logging"] = (1, g)

    # (10) a command whose path contains white space, with no / empty / some args: it is ONE program name
    g = []
    for entry in ENTRIES:
        extra = {"cmdkind": "plain"} if entry == "run_command" else ({"verbose": False} if entry == "test_server" else {})
        for d in range(len(ODD_DIRS)):
            for (m, a) in ((8, 0), (7, 0), (7, 2), (7, 6)):
                for e in ((0, 2) if not thorough else (0, 1, 2, 3)):
                    g.append({"entry": entry, "servers": [[a, e, 0, 0, m, d]], "request": [0], **extra})
    parts["command-path-with-white-space"] = (1, g)

    # (11) load once, connect k times from the same returned parameters object
    g = []
    for launcher in LAUNCHERS:
        for k in (2, 3):
            for a in range(N_BASE_ARGS):
                for e in ((0, 2, 3) if not thorough else range(N_BASE_ENVS)):
                    g.append({"entry": "load_config", "servers": [[a, e, 0, 0]], "request": [0], "launches": k, "launcher": launcher})
    parts["reconnect-from-the-same-parameters"] = (1, g)

    # (12) strings that look like comments / JSON syntax - in args, env values, env names, extra keys, server names
    g = []
    for entry in ENTRIES:
        extra = {"cmdkind": "plain"} if entry == "run_command" else ({"verbose": False} if entry == "test_server" else {})
        for a in SYNTAX_ARGS:
            for e in [0] + SYNTAX_ENVS:
                for x in (0, N_BASE_EXTRAS):
                    g.append({"entry": entry, "servers": [[a, e, 0, x]], "request": [0], **extra})
        for e in SYNTAX_ENVS:
            g.append({"entry": entry, "servers": [[0, e, 0, 0]], "request": [0], **extra})
        for off in range(N_BASE_NAMES, len(NAMES)):
            for a in (0, SYNTAX_ARGS[0]):
                g.append({"entry": entry, "servers": [[a, 0, 0, 0]], "name_offset": off, "request": [0], **extra})
        # the opening fragment in one server entry, the closing one in the next (names /*srv and srv*/)
        pair = [[SYNTAX_ARGS[2], SYNTAX_ENVS[0], 0, 0], [SYNTAX_ARGS[3], SYNTAX_ENVS[1], 1, N_BASE_EXTRAS]]
        for req in ([0], [1]):
            g.append({"entry": entry, "servers": pair, "name_offset": N_BASE_NAMES, "request": req, **extra})
    parts["syntax-like-strings"] = (1, g)
    return parts


def run(tier: str, only=None) -> core.Result:
    res = core.Result("C20", "exploration")
    parts = configs_for(tier)
    t_before = time.time()
    # import the library once in the parent: the pool workers of every part are forked from here and would
    # otherwise each pay the import again
    import anyio  # noqa: F401
    import chuk_mcp.__main__  # noqa: F401
    import chuk_mcp.config  # noqa: F401
    import chuk_mcp.mcp_client.host.environment  # noqa: F401
    import chuk_mcp.mcp_client.host.server_manager  # noqa: F401
    import chuk_mcp.protocol.messages  # noqa: F401
    import chuk_mcp.transports.stdio  # noqa: F401
    for name, (children, cfgs) in parts.items():
        if only and name not in only:
            continue
        workers = max(1, min(explorer.n_workers(), 16 // max(1, children)))
        out = explorer.explore(RUN, cfgs, workers=workers)
        # real OS processes: a violation counts only if it shows up again in both confirmation runs;
        # audit mismatches are surfaced in coverage (audit_mismatches) instead of aborting the check
        sched.absorb(res, name, RUN, out, cfgs, real_world=True)
        res.parts[name]["workers"] = workers
        res.parts[name]["max_children_per_case"] = children
    cov = res.coverage
    cov["exhaustive"] = True
    # the explorer's samples depend on which worker finishes first; write out fixed positions instead
    cov["samples"] = []
    for name, (children, cfgs) in parts.items():
        if name in res.parts and cfgs:
            for idx in sorted({0, len(cfgs) // 2, len(cfgs) - 1}):
                cov["samples"].append({"part": name, "index": idx, "cfg": cfgs[idx], "case": case_text(cfgs[idx])})
    launches = sum(p["counters"].get("witness_launches", 0) for p in res.parts.values())
    cov["real_child_processes_spawned"] = launches
    cov["handshakes_seen_by_witness"] = sum(p["counters"].get("handshakes_seen_by_witness", 0)
                                            for p in res.parts.values())
    cov["grammar"] = {
        "args": [a for _, a in ARGS[:N_BASE_ARGS]],
        "env": ["absent" if e is ABSENT else e for _, e in ENVS[:N_BASE_ENVS]],
        "env_steering": [e for _, e in ENVS[N_BASE_ENVS:]],
        "sequence_states": SEQ_STATES,
        "env_with_secret_looking_names": [e for _, e in ENVS[SECRET_ENVS[0]:]],
        "root_logger": LOGGING,
        "odd_directory_names": [d for _, d in ODD_DIRS],
        "syntax_like_args": [a for _, a in ARGS[N_BASE_ARGS:]],
        "syntax_like_env": [e for _, e in ENVS[SYNTAX_ENVS[0]:]],
        "syntax_like_server_names": NAMES[N_BASE_NAMES:],
        "launchers": LAUNCHERS,
        "command_line": {"config": CLI_CONFIG, "server": CLI_SERVER, "flags": CLI_FLAGS, "option_forms": CLI_FORMS,
                         "default_locations_in_order": DEFAULT_LOCATIONS, "via": CLI_VIA},
        "run_command_command_functions": CMD_KINDS,
        "run_command_server_names_given_as": NAMES_AS,
        "timeout": ["absent" if t is ABSENT else t for _, t in TIMEOUTS],
        "extra_keys": [n for n, _, _ in EXTRAS],
        "server_names_by_position": NAMES[:N_BASE_NAMES],
        "entry_points": ENTRIES,
        "multi_server_shapes": [shape_text(s) for s in R_SHAPES],
        "same_command_and_args_shapes": [shape_text(s) for s in D_SHAPES],
        "launch_modes": MODES,
        "configured_PATH_forms": [f for _, f in PATH_FORMS],
        "harness_PATH_variants": HOST_PATHS,
        "multi_server_shapes_used_by_file_size": {str(n): shapes_for(tier, n)
                                                  for n in range(1, (4 if tier == "thorough" else 3) + 1)},
        "max_servers_per_file": 4 if tier == "thorough" else 3,
        "missing_file_variants": MISSING_VARIANTS,
        "invalid_json_variants": [n for n, _ in INVALID_JSON],
        "unknown_name_files": UNKNOWN_FILES,
        "unknown_names": [n for _, n in UNKNOWN_NAMES],
    }
    cov["rule"] = (
        "complete enumeration, every case executed on the real code with real child processes: "
        "(1) one-server files = args(7) x env(4) x timeout(5) x extra-keys(2) x the three entry points "
        "(thorough: test_server also verbose, run_command also with an 'interactive_mode' command function); "
        "(2) malformed = {3 missing-path variants, 6 invalid-JSON texts, 4 file shapes x 3 unknown names} x entry points; "
        "(3) files of 2..3 (thorough 4) servers, every assignment of the pairwise-different server shapes to the positions "
        "(4 shapes; 3 shapes for 3-server files in quick and for 4-server files in thorough): "
        "load_config and test_server for every position, run_command for every non-empty subset of names in file order "
        "(thorough: the full set also reversed) with a plain command function, and with one named 'interactive_mode' (quick: only for "
        "the full set of names; thorough: for every subset), and run_command with all names plus one "
        "unknown name at every position (files of 1..2, thorough 1..3 servers).  "
        "(4) files of 2 and 3 servers that all share command AND args and differ only in env (own record directory / own PATH "
        "in env) or only in timeout / unknown keys, every assignment of 4 such shapes (quick: 3 shapes for triples): "
        "load_config and test_server for every position, run_command for every non-empty subset in every order (quick, "
        "triples: full set in file order and reversed), judged as 'exactly the requested servers, each once, each with its "
        "own env'; (5) command resolution: the program is an executable '#!<python>' copy of the witness named by a bare "
        "command name x {env PATH names only its directory, first, last} x {harness PATH without it, with a decoy of the same "
        "name prepended, appended}, by absolute path (control), and bare with env absent/{} while the harness PATH (= the "
        "default env's PATH) leads to it; x args x entry points; a launch of the decoy is a violation.  "
        "(6) env = {LOG_LEVEL or LOGGING_LEVEL: one of ERROR, error, CRITICAL, Critical, DEBUG, INFO, '' ; A: '1'} x args x "
        "entry points, judged like any configured env; (7) call sequences: in ONE process and on ONE path, first call with "
        "the file in state s1, file rewritten in place / deleted to state s2, second call - for every ordered pair over "
        "{valid A, valid B, invalid JSON, missing, valid but the server name absent} x every pair of entry points, "
        "file-to-file transitions also with identical size and restored mtime; the second call is judged exactly like the "
        "single-call case of s2.  "
        "(8) the command line (chuk_mcp.__main__.main() with sys.argv, working directory and HOME set for the call; a few cases "
        "as a real 'python -m chuk_mcp' process): no --config x every subset of the five documented default locations, "
        "--config naming an existing / missing / non-JSON file x {no default file, each single one, all five} (thorough: "
        "every subset) x --server given / absent (default 'sqlite') / unknown; --list-servers; --verbose; short and "
        "'=' option forms; every file defines the same server names with its own witnesses, so the record shows which FILE "
        "was used; run_command additionally with command functions named chat_run, an interactive_mode without the "
        "server_info parameter, one that raises and one that raises KeyboardInterrupt, and with a server whose command "
        "does not exist among working ones.  "
        "(9) env whose NAMES contain KEY/TOKEN/SECRET/PASSWORD/PASSWD/CREDENTIAL (upper, lower, mixed case) with ordinary "
        "values x root logger {as the runner leaves it (disabled), INFO, DEBUG} x args x entry points, test_server also "
        "verbose, and each entry point after a command-line call (--verbose / plain) in the same process whose logging "
        "set-up is left in place; the command-line part itself now runs with logging enabled and its alpha server carries "
        "such names; (10) the program under a directory whose name contains a space / tab / two spaces / quotes + space / "
        "apostrophe + space / no-break space / em space x {no args member, args [], two non-empty args} x env x entry points, "
        "with a decoy program installed at every white-space prefix of the command.  "
        "(11) load_config once, then 2 and 3 connections one after the other from the SAME returned parameters object through "
        "stdio_client / StdioClient / StdioTransport / stdio_client_with_initialize x args(7) x env: every launch judged, and "
        "the parameters object compared before and after every launch; (12) strings that look like comments or JSON syntax "
        "(/*, */, //, #, /* x */, src/* ... */node_modules, http://host//path, {\"a\":1}, [1,2], a,] ...) as args, env values, "
        "env names, unknown extra keys and values, server names, and split over two server entries, x entry points.  "
        "A case is non-trivial if it ran the entry point to completion; distinct = distinct observation digests "
        "(the observation contains the case description, what each witness recorded and what the entry point printed, "
        "with temp paths and the interpreter path normalised)"
    )
    res.assumptions = [
        "Linux: the witness reads its exact argv and environment bytes from /proc/self (falls back to sys.orig_argv / os.environ)",
        "commands are the interpreter (sys._base_executable, i.e. the python underneath the venv) + witness script, a bare name resolved through a PATH, or an absolute path to a '#!' "
        "wrapper; commands with a slash that are relative to the working directory are not in the grammar",
        "for the '#!' wrapper the expected argv is [<interpreter>, <configured directory>/<name>, *args] (what the kernel "
        "passes for an interpreter script), i.e. it also states WHICH file was resolved",
        "a bare command with a configured env that has no PATH, or with an env-absent default PATH that does not lead to it, is "
        "not generated (the outcome would depend on the platform's default search path)",
        "servers recording into one shared place are generated only when their launches are indistinguishable (same command, "
        "args and default env); then the number of launches must equal the number of requested servers among them",
        "the parent environment is fixed for the duration of each call (HOME, LOGNAME, PATH, SHELL, TERM, USER set to non-empty "
        "values not starting with '()'; canaries A, B, C20_CANARY); empty or '()'-prefixed parent values, LOG_LEVEL handling and "
        "non-POSIX default names are not exercised",
        "env absent or {} is judged against the library's own get_default_environment() evaluated under the same parent "
        "environment, restricted to the documented POSIX names (HOME, LOGNAME, PATH, SHELL, TERM, USER), plus 'no parent-only "
        "canary reaches the child'; with a configured env only the configured keys are compared, so additional default "
        "variables merged in by the library would be accepted",
        "handshake reached = the witness received 'initialize' and later 'notifications/initialized' in that launch; what the "
        "entry point reports afterwards (return value, later requests) is recorded but not judged",
        "what the 'timeout' value means to a caller is not judged; only load_config's documented return (float of the configured "
        "number, None when absent) is compared",
        "test_server and run_command on malformed configurations are judged on: no exception escapes, no success reported "
        "(False / command function not run), something is printed, nothing is spawned - the wording of the diagnostic is free",
        "config files are written as UTF-8 with non-ASCII characters unescaped and read by the library under the check's "
        "(UTF-8) locale; other locales are not exercised",
        "whether children are terminated when the entry point returns is C16's subject: leftovers are killed by the harness "
        "and not judged here",
        "run_command clears the terminal through os.system; fd 1/2 are pointed at /dev/null during each call, so the child's "
        "inherited stderr is /dev/null as well",
        "call sequences have length 2, rewrite the file in place (same inode; ctime is not controlled) and run both calls in "
        "the same worker process; longer histories, replacement by rename and changes made while a call is in flight are "
        "not generated",
        "command line: the order of find_default_config's list (server_config.json, mcp_config.json, config.json in the working "
        "directory, then ~/.config/mcp/config.json, ~/.mcp_config.json) is taken as the documented precedence; a failure must "
        "end with a non-zero exit status, print something and launch nothing; the exit status of a successful run and the "
        "wording of messages are not judged; argparse usage errors are not generated; HOME, the working directory, sys.argv "
        "and the root logger's handlers are set for the call and restored afterwards",
        "a server whose command does not exist is expected not to start while run_command reports it and serves the others; "
        "servers that start but never answer, and cleanup time-outs inside run_command, are not generated (they take the "
        "library's 60 s / 2 s real time-outs)",
        "logging: cases that set the root logger lift the runner's global logging.disable for the call, put a NullHandler "
        "on the root logger (the command line installs its own stderr handler; fd 2 is /dev/null meanwhile) and restore "
        "level, handlers and the disable afterwards; file-based logging configuration is not generated",
        "odd program paths are absolute; the expected argv for the '#!' wrapper is [interpreter, configured path, *args]",
        "reconnects are sequential (the previous connection is closed before the next is opened); concurrent connections "
        "from one parameters object are not generated",
        "host environments that lack default-inherited names (each of HOME, LOGNAME, SHELL, TERM, USER alone, and two "
        "combinations; PATH is always present): the child of a server without configured env must lack them too; also for a "
        "launch that follows a run_command call in the same process without the harness restoring the environment in between",
        "valid JSON that is not an object, entries without 'command', directories given as config path are outside the three "
        "malformed classes of the statement and not generated",
    ]
    cov["enumeration_wall_s"] = round(time.time() - t_before, 2)
    return res
