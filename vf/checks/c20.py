"""C20 - every host entry point launches exactly the server the configuration names.

Engine: E-INPUT with REAL child processes on a real asyncio/anyio loop (the one
property that does not use the virtual loop).  A bounded configuration grammar
is enumerated completely; every case writes a real config file into a fresh
temp directory, calls one real entry point of the library and lets it spawn the
real witness child (vf/children/witness.py, stdlib only).

Entry points
  load_config   chuk_mcp.config.load_config; the harness opens stdio_client on
                the StdioParameters it returns and performs send_initialize
                (+ one ping as a barrier so the 'initialized' notification has
                been flushed to the child before the connection is closed)
  test_server   chuk_mcp.__main__.test_server, run the way main() runs it
                (anyio.run(test_server, config_path, server, verbose))
  run_command   chuk_mcp.mcp_client.host.server_manager.run_command with a
                command function that pings every stream it is given

The witness is told nothing through args or env: the harness puts a private copy
of the script into <tmp>/s<i>/ and configures that path as the first argument;
the witness writes its record next to its own file.  So the configured
args/env reach the comparison untouched.

Oracle (independent of the library):
  * exactly one launch of every requested server, none of the others
  * recorded argv bytes == [command, *args] of the config entry (os.fsencode)
  * env configured with values: recorded env restricted to the configured keys
    == configured env; env absent or {}: recorded env restricted to the
    documented default-inherited names == the parent's values of those names
  * no parent-only variable (canaries) shows up in the child
  * witness received 'initialize' and then 'notifications/initialized'
  * malformed classes: load_config raises FileNotFoundError / JSONDecodeError /
    ValueError; test_server and run_command print a diagnostic, do not raise,
    do not report success and spawn nothing
"""
from __future__ import annotations

import contextlib
import gc
import io
import itertools
import json
import os
import shutil
import signal
import sys
import tempfile
import threading
import time
from typing import Any, Dict, List, Optional, Tuple

from .. import core, explorer, sched

RUN = "vf.checks.c20:run_one"

WITNESS_SRC = os.path.join(os.path.dirname(os.path.dirname(os.path.abspath(__file__))), "children", "witness.py")

# ---------------------------------------------------------------------------
# the grammar (module-level tables; cfgs hold indices only)
# ---------------------------------------------------------------------------
ARGS: List[Tuple[str, List[str]]] = [
    ("none", []),
    ("plain", ["a"]),
    ("space", ["a b"]),
    ("quotes", ["'q\"x"]),
    ("unicode", ["é"]),
    ("empty-string", [""]),
    ("options", ["--k=v", "-x"]),
]
ABSENT = "<absent>"
ENVS: List[Tuple[str, Any]] = [
    ("absent", ABSENT),
    ("empty", {}),
    ("one", {"A": "1"}),
    ("empty-value+space", {"A": "", "B": "x y"}),
]
TIMEOUTS: List[Tuple[str, Any]] = [
    ("absent", ABSENT),
    ("int", 5),
    ("float", 2.5),
    ("str-int", "7"),
    ("str-float", "7.5"),
]
EXTRAS: List[Tuple[str, Dict[str, Any], Dict[str, Any]]] = [
    # (name, extra keys in the server entry, extra keys at top level)
    ("none", {}, {}),
    ("unknown-keys",
     {"disabled": False, "description": "x y", "transport": "stdio", "x-unknown": {"nested": [1, None]}},
     {"$schema": "https://example.invalid/schema.json", "defaults": {"timeout": 1}, "version": 3}),
]
NAMES = ["alpha", "b c", "é-ü", "d.e/f"]
ENTRIES = ["load_config", "test_server", "run_command"]

# shapes used in multi-server files: pairwise different in args, env and timeout,
# so that picking the wrong entry or mixing two entries is visible
R_SHAPES: List[List[int]] = [
    [0, 0, 0, 0],   # args none,    env absent,            timeout absent,    no extras
    [2, 2, 1, 1],   # args "a b",   env {"A":"1"},         timeout 5,         extras
    [6, 3, 4, 0],   # --k=v -x,     env {"A":"","B":"x y"}, timeout "7.5",     no extras
    [4, 1, 2, 1],   # args "é",     env {},                timeout 2.5,       extras
]

MISSING_VARIANTS = ["nonexistent-file", "nonexistent-dir", "empty-path"]
INVALID_JSON: List[Tuple[str, str]] = [
    ("empty-file", ""),
    ("truncated", '{"mcpServers": {"alpha": {"command": "x", "args": ['),
    ("trailing-comma", '{"mcpServers": {"alpha": {"command": "x",}}}'),
    ("not-json", "mcpServers: alpha"),
    ("single-quotes", "{'mcpServers': {}}"),
    ("garbage-after-value", '{"mcpServers": {}} x'),
]
UNKNOWN_FILES = ["no-mcpServers-key", "empty-mcpServers", "one-server", "three-servers"]
UNKNOWN_NAMES = [("other", "nope"), ("empty", ""), ("case-variant", "ALPHA")]
UNKNOWN = "nope"  # the unknown name mixed into run_command name lists

# the parent environment every case runs under (set for the duration of the call)
DEFAULT_NAMES = ["HOME", "LOGNAME", "PATH", "SHELL", "TERM", "USER"]  # documented POSIX default-inherited names
PARENT_ENV = {
    "HOME": "/c20-home",
    "LOGNAME": "c20-logname",
    "PATH": "/usr/local/sbin:/usr/local/bin:/usr/sbin:/usr/bin:/sbin:/bin",
    "SHELL": "/bin/sh",
    "TERM": "dumb",
    "USER": "c20-user",
    # canaries: must never override a configured value nor leak into the child
    "A": "parent-A",
    "B": "parent-B",
    "C20_CANARY": "leak",
}
CANARIES = ["A", "B", "C20_CANARY"]

CASE_LIMIT_S = 45.0      # hard watchdog per case (SIGALRM)
INNER_LIMIT_S = 30.0     # cancel scope around the async entry points
REQ_TIMEOUT_S = 12.0     # harness's own initialize / ping timeout


class CaseTimeout(BaseException):
    pass


# ---------------------------------------------------------------------------
# helpers
# ---------------------------------------------------------------------------
class _Watchdog:
    """SIGALRM watchdog: a hung case becomes an outcome, never a hung check."""

    def __init__(self, seconds: float):
        self.seconds = seconds
        self.active = False
        self.fired = 0

    def _handler(self, signum, frame):
        self.fired += 1
        if self.fired < 3:
            signal.setitimer(signal.ITIMER_REAL, 10.0)  # cleanup gets 10 s, then again
        raise CaseTimeout()

    def __enter__(self):
        if threading.current_thread() is threading.main_thread():
            self.prev = signal.signal(signal.SIGALRM, self._handler)
            signal.setitimer(signal.ITIMER_REAL, self.seconds)
            self.active = True
        return self

    def __exit__(self, *a):
        if self.active:
            signal.setitimer(signal.ITIMER_REAL, 0)
            signal.signal(signal.SIGALRM, self.prev)
        return False


class _Quiet:
    """Capture print() output; send fd 1 / fd 2 (os.system('clear'), the child's
    inherited stderr, 'Exception ignored' notes) to /dev/null."""

    def __enter__(self):
        sys.stdout.flush()
        sys.stderr.flush()
        self.saved = (os.dup(1), os.dup(2))
        dn = os.open(os.devnull, os.O_WRONLY)
        os.dup2(dn, 1)
        os.dup2(dn, 2)
        os.close(dn)
        self.buf = io.StringIO()
        self.old = sys.stdout
        sys.stdout = self.buf
        return self

    def __exit__(self, *a):
        try:
            gc.collect()  # drop transports of closed loops while fd 2 is still muted
            sys.stderr.flush()
        finally:
            sys.stdout = self.old
            os.dup2(self.saved[0], 1)
            os.dup2(self.saved[1], 2)
            os.close(self.saved[0])
            os.close(self.saved[1])
        return False

    def text(self) -> str:
        return self.buf.getvalue()


@contextlib.contextmanager
def _parent_env():
    saved = dict(os.environ)
    try:
        for k in list(os.environ):
            if k in PARENT_ENV or k in ("LOG_LEVEL", "LOGGING_LEVEL"):
                del os.environ[k]
        os.environ.update(PARENT_ENV)
        yield
    finally:
        os.environ.clear()
        os.environ.update(saved)


def _proc_state(pid: int, marker: bytes) -> str:
    """'gone' | 'zombie' | 'alive' | 'other' (pid reused by an unrelated process)."""
    try:
        with open(f"/proc/{pid}/stat", "rb") as f:
            stat = f.read()
    except OSError:
        return "gone"
    try:
        state = stat.rsplit(b")", 1)[1].split()[0]
    except Exception:
        state = b"?"
    if state in (b"Z", b"X"):
        return "zombie"
    try:
        with open(f"/proc/{pid}/cmdline", "rb") as f:
            cmd = f.read()
    except OSError:
        return "gone"
    if not cmd:
        return "zombie"
    return "alive" if marker in cmd else "other"


def _reap(pids: List[int], marker: bytes, grace: float = 5.0) -> int:
    """Wait for the witness children of this case to be gone; kill what is left.
    Returns how many had to be killed (not part of the observation: C16 judges
    shutdown, this is only hygiene)."""
    forced = 0
    deadline = time.monotonic() + grace
    for pid in pids:
        st = _proc_state(pid, marker)
        while st == "alive" and time.monotonic() < deadline:
            time.sleep(0.005)
            st = _proc_state(pid, marker)
        if st == "alive":
            forced += 1
            for fn, target in ((os.killpg, pid), (os.kill, pid)):
                try:
                    fn(target, signal.SIGKILL)
                except OSError:
                    pass
            t1 = time.monotonic() + 5.0
            while _proc_state(pid, marker) == "alive" and time.monotonic() < t1:
                time.sleep(0.005)
        if st != "other":
            try:
                os.waitpid(pid, os.WNOHANG)
            except OSError:
                pass
    return forced


def _hexs(parts: List[str]) -> List[str]:
    out = []
    for p in parts:
        try:
            out.append(bytes.fromhex(p).decode("utf-8", "backslashreplace"))
        except ValueError:
            out.append("?" + p)
    return out


def _read_events(path: str) -> List[dict]:
    if not os.path.exists(path):
        return []
    out = []
    with open(path, "rb") as f:
        for line in f:
            line = line.strip()
            if not line:
                continue
            try:
                out.append(json.loads(line))
            except ValueError:
                out.append({"ev": "garbled"})
    return out


def server_entry(shape: List[int], script: str) -> Dict[str, Any]:
    a, e, t, x = shape
    d: Dict[str, Any] = {"command": sys.executable, "args": [script] + list(ARGS[a][1])}
    if ENVS[e][1] is not ABSENT:
        d["env"] = dict(ENVS[e][1])
    if TIMEOUTS[t][1] is not ABSENT:
        d["timeout"] = TIMEOUTS[t][1]
    d.update(EXTRAS[x][1])
    return d


def shape_text(shape: List[int]) -> str:
    a, e, t, x = shape
    env = "absent" if ENVS[e][1] is ABSENT else repr(ENVS[e][1])
    tmo = "absent" if TIMEOUTS[t][1] is ABSENT else repr(TIMEOUTS[t][1])
    return f"args={ARGS[a][1]!r} env={env} timeout={tmo} extra={EXTRAS[x][0]}"


# ---------------------------------------------------------------------------
# building the case on disk
# ---------------------------------------------------------------------------
def _build(cfg: Dict[str, Any], tmp: str) -> Tuple[str, List[str], List[Optional[Dict[str, Any]]]]:
    """Returns (config_path, server dirs, configured server entries by index)."""
    shapes: List[List[int]] = cfg.get("servers") or []
    dirs, entries = [], []
    servers: Dict[str, Any] = {}
    top_extra: Dict[str, Any] = {}
    for i, shape in enumerate(shapes):
        d = os.path.join(tmp, f"s{i}")
        os.mkdir(d)
        script = os.path.join(d, "witness.py")
        shutil.copyfile(WITNESS_SRC, script)
        ent = server_entry(shape, script)
        servers[NAMES[i]] = ent
        entries.append(ent)
        dirs.append(d)
        top_extra.update(EXTRAS[shape[3]][2])
    path = os.path.join(tmp, "config.json")
    mal = cfg.get("malformed")
    doc: Dict[str, Any] = dict(top_extra)
    doc["mcpServers"] = servers
    if mal and mal["class"] == "missing":
        v = MISSING_VARIANTS[mal["variant"]]
        if v == "nonexistent-file":
            path = os.path.join(tmp, "no-such-config.json")
        elif v == "nonexistent-dir":
            path = os.path.join(tmp, "no-such-dir", "config.json")
        else:
            path = ""
        return path, dirs, entries
    if mal and mal["class"] == "invalid-json":
        with open(path, "w", encoding="utf-8") as f:
            f.write(INVALID_JSON[mal["variant"]][1])
        return path, dirs, entries
    if mal and mal["class"] == "unknown-name" and UNKNOWN_FILES[mal["file"]] == "no-mcpServers-key":
        doc = {"servers": {}, "version": 1}
    with open(path, "w", encoding="utf-8") as f:
        json.dump(doc, f, ensure_ascii=False, indent=1)
    return path, dirs, entries


# ---------------------------------------------------------------------------
# driving the entry points
# ---------------------------------------------------------------------------
def _exc_name(e: BaseException) -> str:
    return type(e).__name__


def _drive_load_config(path: str, name: str, rec: Dict[str, Any]) -> None:
    import anyio
    from chuk_mcp.config import load_config
    from chuk_mcp.protocol.messages import send_initialize, send_ping
    from chuk_mcp.transports.stdio import stdio_client

    async def main():
        with anyio.fail_after(INNER_LIMIT_S):
            rec["stage"] = "load"
            loaded = await load_config(path, name)
            rec["loader"] = "ok"
            if isinstance(loaded, tuple):
                params = loaded[0]
                if len(loaded) > 1:
                    t = loaded[1]
                    rec["timeout"] = t if (t is None or (isinstance(t, (int, float)) and not isinstance(t, bool))) \
                        else f"<{type(t).__name__}>"
            else:
                params = loaded
            rec["stage"] = "connect"
            async with stdio_client(params) as (r, w):
                rec["stage"] = "initialize"
                init = await send_initialize(r, w, timeout=REQ_TIMEOUT_S)
                rec["init"] = bool(init)
                rec["stage"] = "ping"
                rec["ping"] = bool(await send_ping(r, w, timeout=REQ_TIMEOUT_S))
                rec["stage"] = "exit"
            rec["stage"] = "done"

    try:
        anyio.run(main)
    except Exception as e:  # noqa: BLE001
        rec["error"] = _exc_name(e)
        rec["error_is"] = [n for n, t in (("FileNotFoundError", FileNotFoundError),
                                          ("JSONDecodeError", json.JSONDecodeError),
                                          ("ValueError", ValueError)) if isinstance(e, t)]
        if rec.get("stage") == "load":
            rec["loader"] = "raises-" + _exc_name(e)


def _drive_test_server(path: str, name: str, verbose: bool, rec: Dict[str, Any]) -> None:
    import anyio
    from chuk_mcp.__main__ import test_server

    async def main():
        with anyio.fail_after(INNER_LIMIT_S):
            return await test_server(path, name, verbose)

    try:
        rec["returned"] = anyio.run(main)
        if not isinstance(rec["returned"], bool):
            rec["returned"] = f"<{type(rec['returned']).__name__}>"
    except Exception as e:  # noqa: BLE001
        rec["error"] = _exc_name(e)


def _drive_run_command(path: str, names: List[str], cmdkind: str, rec: Dict[str, Any]) -> None:
    from chuk_mcp.mcp_client.host.server_manager import run_command
    from chuk_mcp.protocol.messages import send_ping

    rec["command_calls"] = 0
    rec["streams"] = None

    async def _body(server_streams):
        rec["command_calls"] += 1
        rec["streams"] = len(server_streams)
        pings = []
        for r, w in server_streams:
            try:
                pings.append(bool(await send_ping(r, w, timeout=REQ_TIMEOUT_S)))
            except Exception as e:  # noqa: BLE001
                pings.append(_exc_name(e))
        rec["pings"] = pings

    if cmdkind == "interactive_mode":
        async def interactive_mode(server_streams, server_info=None):
            rec["server_info_names"] = None if server_info is None else [i.get("name") for i in server_info]
            await _body(server_streams)
            return True
        fn = interactive_mode
    else:
        async def plain_command(server_streams):
            await _body(server_streams)
        fn = plain_command

    try:
        run_command(fn, path, list(names))
    except Exception as e:  # noqa: BLE001
        rec["error"] = _exc_name(e)


def _probe_loader(path: str, name: str) -> str:
    """Only to make the signature narrow: does the loader alone accept (path, name)?"""
    import anyio
    from chuk_mcp.config import load_config

    async def main():
        with anyio.fail_after(10):
            await load_config(path, name)

    try:
        anyio.run(main)
        return "ok"
    except Exception as e:  # noqa: BLE001
        return "raises-" + _exc_name(e)


# ---------------------------------------------------------------------------
# one case
# ---------------------------------------------------------------------------
def case_text(cfg: Dict[str, Any]) -> str:
    parts = [f"entry={cfg['entry']}"]
    if cfg.get("cmdkind") and cfg["entry"] == "run_command":
        parts.append(f"command={cfg['cmdkind']}")
    if cfg.get("verbose"):
        parts.append("verbose")
    mal = cfg.get("malformed")
    if mal:
        if mal["class"] == "missing":
            parts.append(f"malformed=missing/{MISSING_VARIANTS[mal['variant']]}")
        elif mal["class"] == "invalid-json":
            parts.append(f"malformed=invalid-json/{INVALID_JSON[mal['variant']][0]} content={INVALID_JSON[mal['variant']][1]!r}")
        elif mal["class"] == "unknown-name":
            parts.append(f"malformed=unknown-name file={UNKNOWN_FILES[mal['file']]}")
        else:
            parts.append("one unknown name among valid ones")
    for i, s in enumerate(cfg.get("servers") or []):
        parts.append(f"server[{NAMES[i]!r}]: {shape_text(s)}")
    parts.append(f"requested={_req_names(cfg)!r}")
    return "; ".join(parts)


def _req_names(cfg: Dict[str, Any]) -> List[str]:
    out = []
    for r in cfg["request"]:
        out.append(NAMES[r] if isinstance(r, int) else str(r))
    return out


def run_one(ctl: explorer.Ctl, cfg: Dict[str, Any]) -> Dict[str, Any]:
    if not os.path.isfile(WITNESS_SRC):
        raise core.HarnessError(f"witness script missing: {WITNESS_SRC}")
    tmp = os.path.realpath(tempfile.mkdtemp(prefix="c20-"))
    for forbidden in ("/repo", core.ROOT):
        if tmp == forbidden or tmp.startswith(forbidden.rstrip("/") + "/"):
            shutil.rmtree(tmp, ignore_errors=True)
            raise core.HarnessError(f"temp directory {tmp} is inside {forbidden}; set TMPDIR elsewhere")
    marker = os.fsencode(tmp + os.sep)
    pids: List[int] = []
    try:
        return _run_case(cfg, tmp, pids)
    finally:
        # whatever happened: no child of this case survives, nothing stays on disk
        for d in sorted(os.listdir(tmp)) if os.path.isdir(tmp) else []:
            for ev in _read_events(os.path.join(tmp, d, "events.jsonl")):
                if ev.get("ev") == "start" and isinstance(ev.get("pid"), int) and ev["pid"] not in pids:
                    pids.append(ev["pid"])
        _reap(pids, marker, grace=0.0 if not pids else 2.0)
        shutil.rmtree(tmp, ignore_errors=True)


def _run_case(cfg: Dict[str, Any], tmp: str, pids: List[int]) -> Dict[str, Any]:
    entry = cfg["entry"]
    mal = cfg.get("malformed")
    path, dirs, entries = _build(cfg, tmp)
    names = _req_names(cfg)
    rec: Dict[str, Any] = {}
    timed_out = False
    marker = os.fsencode(tmp + os.sep)

    with _parent_env():
        # reference for "env absent or empty": what the library documents as the default environment,
        # evaluated under the same parent environment; restricted to the documented POSIX names so that
        # a reference which itself inherits everything cannot legitimise a leak
        from chuk_mcp.mcp_client.host.environment import get_default_environment
        try:
            lib_default = dict(get_default_environment())
        except Exception as e:  # noqa: BLE001
            raise core.HarnessError(f"get_default_environment() raised {e!r}")
        expected_default = {k: v for k, v in lib_default.items() if k in DEFAULT_NAMES}
        if not expected_default:
            raise core.HarnessError("get_default_environment() names none of the documented variables: "
                                    "the env-absent comparison would be vacuous")
        quiet = _Quiet()
        try:
            with _Watchdog(CASE_LIMIT_S):
                with quiet:
                    if entry == "load_config":
                        _drive_load_config(path, names[0], rec)
                    elif entry == "test_server":
                        _drive_test_server(path, names[0], bool(cfg.get("verbose")), rec)
                    elif entry == "run_command":
                        _drive_run_command(path, names, cfg.get("cmdkind") or "plain", rec)
                    else:
                        raise core.HarnessError(f"unknown entry {entry!r}")
        except CaseTimeout:
            timed_out = True
        except TimeoutError:
            rec["error"] = "TimeoutError"
        printed = quiet.text()

        # -- collect what the witnesses recorded, then make sure they are gone
        launches: List[List[Dict[str, Any]]] = []
        for d in dirs:
            evs = _read_events(os.path.join(d, "events.jsonl"))
            by_pid: Dict[int, Dict[str, Any]] = {}
            for ev in evs:
                pid = ev.get("pid")
                if ev.get("ev") == "start":
                    by_pid[pid] = {"argv": ev.get("argv") or [], "env": ev.get("env") or {}, "methods": []}
                    if isinstance(pid, int):
                        pids.append(pid)
                elif ev.get("ev") == "recv" and pid in by_pid:
                    by_pid[pid]["methods"].append([ev.get("method"), bool(ev.get("has_id"))])
            launches.append([by_pid[p] for p in by_pid])  # insertion order = launch order
        _reap(pids, marker)
        loader_probe: Dict[str, str] = {}

        def loader_status(name: str) -> str:
            if entry == "load_config" and "loader" in rec:
                return rec["loader"]
            if name not in loader_probe:
                loader_probe[name] = _probe_loader(path, name)
            return loader_probe[name]

        viol: List[Dict[str, Any]] = []
        text = case_text(cfg)

        def add(sig: Dict[str, Any], msg: str):
            viol.append({"sig": sig, "msg": f"{msg} :: {text}"})

        def norm(s: str) -> str:
            return s.replace(tmp, "<TMP>").replace(sys.executable, "<PY>")

        diag = norm(printed).strip()
        obs: Dict[str, Any] = {"entry": entry, "case": text, "printed": diag[:400]}
        for k in ("error", "stage", "returned", "timeout", "init", "ping", "command_calls", "streams", "pings",
                  "server_info_names"):
            if k in rec:
                obs[k] = rec[k]

        if timed_out:
            add({"class": "hang", "entry": entry}, f"case did not finish within {CASE_LIMIT_S:.0f} s (watchdog)")

        requested_idx = [r for r in cfg["request"] if isinstance(r, int)]
        bad_names = [r for r in cfg["request"] if not isinstance(r, int)]
        per_server = []
        n_launched = 0
        n_handshake = 0

        for i, d in enumerate(dirs):
            ls = launches[i]
            summary: Dict[str, Any] = {"server": NAMES[i], "launches": len(ls)}
            shape = cfg["servers"][i]
            if i not in requested_idx or mal and mal["class"] != "mixed":
                if ls:
                    if mal and mal["class"] != "mixed":
                        add({"class": "spawned-on-malformed-config", "entry": entry, "malformed": mal["class"]},
                            f"server {NAMES[i]!r} was launched although the configuration request is malformed")
                    else:
                        add({"class": "unrequested-server-launched", "entry": entry},
                            f"server {NAMES[i]!r} was launched but only {names!r} were requested")
                per_server.append(summary)
                continue
            # a requested server of a valid configuration
            if not ls:
                st = loader_status(NAMES[i])
                add({"class": "not-launched", "entry": entry, "loader": st},
                    f"server {NAMES[i]!r} was never launched (loader alone: {st}; error={rec.get('error')}; "
                    f"printed={diag[:160]!r})")
                per_server.append(summary)
                continue
            n_launched += 1
            if len(ls) > 1:
                add({"class": "launched-more-than-once", "entry": entry},
                    f"server {NAMES[i]!r} was launched {len(ls)} times")
            L = ls[0]
            ent = entries[i]
            exp_argv = [os.fsencode(x).hex() for x in [ent["command"], *ent["args"]]]
            summary["argv_ok"] = L["argv"] == exp_argv
            if not summary["argv_ok"]:
                add({"class": "argv-mismatch", "entry": entry, "args": ARGS[shape[0]][0]},
                    f"server {NAMES[i]!r}: child argv {[norm(x) for x in _hexs(L['argv'])]!r} != configured "
                    f"{[norm(x) for x in _hexs(exp_argv)]!r}")
            got_env = {}
            for k, v in L["env"].items():
                try:
                    got_env[os.fsdecode(bytes.fromhex(k))] = os.fsdecode(bytes.fromhex(v))
                except ValueError:
                    pass
            conf_env = ENVS[shape[1]][1]
            if conf_env is not ABSENT and conf_env:
                want = dict(conf_env)
                kind = "configured"
            else:
                want = dict(expected_default)
                kind = "default"
            have = {k: got_env.get(k, ABSENT) for k in want}
            summary["env_ok"] = have == want
            if have != want:
                add({"class": "env-mismatch", "entry": entry, "env": ENVS[shape[1]][0]},
                    f"server {NAMES[i]!r}: child environment restricted to the {kind} names is {have!r}, expected {want!r}")
            conf_keys = set(conf_env) if (conf_env is not ABSENT and conf_env) else set()
            leaked = sorted(k for k in CANARIES if k not in conf_keys and k in got_env)
            summary["leaked"] = leaked
            if leaked:
                add({"class": "env-leak", "entry": entry, "env": ENVS[shape[1]][0]},
                    f"server {NAMES[i]!r}: parent-only variables {leaked!r} reached the child "
                    f"(configured env: {'absent' if conf_env is ABSENT else repr(conf_env)})")
            methods = [m for m, _ in L["methods"]]
            summary["methods"] = methods
            got_init = "initialize" in methods
            got_inited = got_init and "notifications/initialized" in methods[methods.index("initialize") + 1:]
            if got_init and got_inited:
                n_handshake += 1
            else:
                add({"class": "no-handshake", "entry": entry,
                     "missing": "initialize" if not got_init else "notifications/initialized"},
                    f"server {NAMES[i]!r} was launched but the witness saw only {methods!r} "
                    f"(error={rec.get('error')}, printed={diag[:160]!r})")
            per_server.append(summary)

        obs["servers"] = per_server

        # -- documented loader return value (entry load_config only)
        if entry == "load_config" and not mal and rec.get("loader") == "ok":
            conf_t = TIMEOUTS[cfg["servers"][requested_idx[0]][2]][1]
            want_t = None if conf_t is ABSENT else float(conf_t)
            got_t = rec.get("timeout", "<no second element>")
            ok = (got_t is None) if want_t is None else (isinstance(got_t, (int, float)) and got_t == want_t)
            if not ok:
                add({"class": "loader-timeout-mismatch", "timeout": TIMEOUTS[cfg["servers"][requested_idx[0]][2]][0]},
                    f"load_config returned timeout {got_t!r}, the file says "
                    f"{'nothing' if conf_t is ABSENT else repr(conf_t)}")

        # -- malformed classes
        if mal and mal["class"] != "mixed":
            cls = mal["class"]
            if entry == "load_config":
                want_exc = {"missing": "FileNotFoundError", "invalid-json": "JSONDecodeError",
                            "unknown-name": "ValueError"}[cls]
                if want_exc not in (rec.get("error_is") or []):
                    got = rec.get("error") or "returned-normally"
                    add({"class": "wrong-error", "entry": entry, "malformed": cls, "got": got},
                        f"load_config: expected {want_exc}, got {got}")
            else:
                how = None
                if "error" in rec:
                    how = "raised-" + rec["error"]
                elif entry == "test_server" and rec.get("returned") is not False:
                    how = "reported-success" if rec.get("returned") is True else "returned-non-bool"
                elif entry == "run_command" and rec.get("command_calls"):
                    how = "command-ran"
                elif not diag:
                    how = "silent"
                if how:
                    add({"class": "malformed-config-not-reported", "entry": entry, "malformed": cls, "how": how},
                        f"{entry} on a {cls} configuration: {how}; printed={diag[:160]!r}")
        elif bad_names:
            # run_command with a known and an unknown name: the known ones were judged above
            if not diag:
                add({"class": "malformed-config-not-reported", "entry": entry, "malformed": "unknown-name-among-valid",
                     "how": "silent"}, f"run_command printed nothing about the unknown name {bad_names!r}")

        if mal and mal["class"] != "mixed":
            shown = rec.get("error") or (f"returned={rec.get('returned')}" if entry == "test_server" else
                                         f"command_calls={rec.get('command_calls')}")
            obs["outcome"] = f"{entry} {mal['class']} -> {shown}"
        else:
            tag = entry if entry != "run_command" else f"run_command/{cfg.get('cmdkind') or 'plain'}"
            obs["outcome"] = (f"{tag} requested={len(cfg['request'])} launched={n_launched} "
                              f"handshakes={n_handshake}" + (" TIMEOUT" if timed_out else ""))
        obs["violations"] = viol
        obs["counters"] = {"witness_launches": sum(len(x) for x in launches),
                           "handshakes_seen_by_witness": n_handshake}
        return obs


# ---------------------------------------------------------------------------
# the space
# ---------------------------------------------------------------------------
def _subsets(n: int) -> List[List[int]]:
    out = []
    for k in range(1, n + 1):
        out.extend(list(c) for c in itertools.combinations(range(n), k))
    return out


def shapes_for(tier: str, n: int) -> int:
    """How many of the R_SHAPES are assigned to the positions of an n-server file."""
    if tier == "thorough":
        return len(R_SHAPES) if n <= 3 else 3
    return len(R_SHAPES) if n <= 2 else 3


def configs_for(tier: str) -> Dict[str, Tuple[int, List[Dict[str, Any]]]]:
    """part name -> (max witness children alive in one case, cases)."""
    thorough = tier == "thorough"
    parts: Dict[str, Tuple[int, List[Dict[str, Any]]]] = {}

    # (1) one server: the full product of the grammar x entry points
    g = []
    for a, e, t, x in itertools.product(range(len(ARGS)), range(len(ENVS)), range(len(TIMEOUTS)), range(len(EXTRAS))):
        shape = [a, e, t, x]
        g.append({"entry": "load_config", "servers": [shape], "request": [0]})
        for verbose in ([False, True] if thorough else [False]):
            g.append({"entry": "test_server", "servers": [shape], "request": [0], "verbose": verbose})
        for kind in (["plain", "interactive_mode"] if thorough else ["plain"]):
            g.append({"entry": "run_command", "servers": [shape], "request": [0], "cmdkind": kind})
    parts["one-server-full-product"] = (1, g)

    # (2) malformed classes x entry points (no child expected)
    g = []
    for entry in ENTRIES:
        extra = {"cmdkind": "plain"} if entry == "run_command" else {}
        for v in range(len(MISSING_VARIANTS)):
            g.append({"entry": entry, "servers": [R_SHAPES[1]], "request": [0],
                      "malformed": {"class": "missing", "variant": v}, **extra})
        for v in range(len(INVALID_JSON)):
            g.append({"entry": entry, "servers": [R_SHAPES[1]], "request": [0],
                      "malformed": {"class": "invalid-json", "variant": v}, **extra})
        for f, fname in enumerate(UNKNOWN_FILES):
            servers = {"no-mcpServers-key": [], "empty-mcpServers": [], "one-server": [R_SHAPES[1]],
                       "three-servers": [R_SHAPES[0], R_SHAPES[1], R_SHAPES[2]]}[fname]
            for _, uname in UNKNOWN_NAMES:
                g.append({"entry": entry, "servers": servers, "request": [uname],
                          "malformed": {"class": "unknown-name", "file": f}, **extra})
    parts["malformed-classes"] = (1, g)

    # (3) several servers in one file
    max_n = 4 if thorough else 3
    mixed_max_n = 3 if thorough else 2
    by_children: Dict[int, List[Dict[str, Any]]] = {}
    for n in range(1, max_n + 1):
        for combo in itertools.product(range(shapes_for(tier, n)), repeat=n):
            servers = [R_SHAPES[c] for c in combo]
            if n >= 2:
                for target in range(n):
                    by_children.setdefault(1, []).append(
                        {"entry": "load_config", "servers": servers, "request": [target]})
                    by_children.setdefault(1, []).append(
                        {"entry": "test_server", "servers": servers, "request": [target], "verbose": False})
                for sub in _subsets(n):
                    orders = [sub]
                    if thorough and len(sub) == n:
                        orders.append(list(reversed(sub)))
                    # quick: the 'interactive_mode' command function only with all names of the file
                    kinds = ["plain", "interactive_mode"] if (thorough or len(sub) == n) else ["plain"]
                    for req in orders:
                        for kind in kinds:
                            by_children.setdefault(len(sub), []).append(
                                {"entry": "run_command", "servers": servers, "request": list(req), "cmdkind": kind})
            if n <= mixed_max_n:
                # run_command given every server of the file plus one unknown name, at every position
                for pos in range(n + 1):
                    req: List[Any] = list(range(n))
                    req.insert(pos, UNKNOWN)
                    by_children.setdefault(n, []).append(
                        {"entry": "run_command", "servers": servers, "request": req, "cmdkind": "plain",
                         "malformed": {"class": "mixed"}})
    for k in sorted(by_children):
        parts[f"multi-server-{k}-child{'ren' if k > 1 else ''}"] = (k, by_children[k])
    return parts


def run(tier: str, only=None) -> core.Result:
    res = core.Result("C20", "exploration")
    parts = configs_for(tier)
    t_before = time.time()
    for name, (children, cfgs) in parts.items():
        if only and name not in only:
            continue
        workers = max(1, min(explorer.n_workers(), 16 // max(1, children)))
        out = explorer.explore(RUN, cfgs, workers=workers)
        # real OS processes: a violation counts only if it shows up again in both confirmation runs;
        # audit mismatches are surfaced in coverage (audit_mismatches) instead of aborting the check
        sched.absorb(res, name, RUN, out, cfgs, real_world=True)
        res.parts[name]["workers"] = workers
        res.parts[name]["max_children_per_case"] = children
    cov = res.coverage
    cov["exhaustive"] = True
    # the explorer's samples depend on which worker finishes first; write out fixed positions instead
    cov["samples"] = []
    for name, (children, cfgs) in parts.items():
        if name in res.parts and cfgs:
            for idx in sorted({0, len(cfgs) // 2, len(cfgs) - 1}):
                cov["samples"].append({"part": name, "index": idx, "cfg": cfgs[idx], "case": case_text(cfgs[idx])})
    launches = sum(p["counters"].get("witness_launches", 0) for p in res.parts.values())
    cov["real_child_processes_spawned"] = launches
    cov["handshakes_seen_by_witness"] = sum(p["counters"].get("handshakes_seen_by_witness", 0)
                                            for p in res.parts.values())
    cov["grammar"] = {
        "args": [a for _, a in ARGS],
        "env": ["absent" if e is ABSENT else e for _, e in ENVS],
        "timeout": ["absent" if t is ABSENT else t for _, t in TIMEOUTS],
        "extra_keys": [n for n, _, _ in EXTRAS],
        "server_names_by_position": NAMES,
        "entry_points": ENTRIES,
        "multi_server_shapes": [shape_text(s) for s in R_SHAPES],
        "multi_server_shapes_used_by_file_size": {str(n): shapes_for(tier, n)
                                                  for n in range(1, (4 if tier == "thorough" else 3) + 1)},
        "max_servers_per_file": 4 if tier == "thorough" else 3,
        "missing_file_variants": MISSING_VARIANTS,
        "invalid_json_variants": [n for n, _ in INVALID_JSON],
        "unknown_name_files": UNKNOWN_FILES,
        "unknown_names": [n for _, n in UNKNOWN_NAMES],
    }
    cov["rule"] = (
        "complete enumeration, every case executed on the real code with real child processes: "
        "(1) one-server files = args(7) x env(4) x timeout(5) x extra-keys(2) x the three entry points "
        "(thorough: test_server also verbose, run_command also with an 'interactive_mode' command function); "
        "(2) malformed = {3 missing-path variants, 6 invalid-JSON texts, 4 file shapes x 3 unknown names} x entry points; "
        "(3) files of 2..3 (thorough 4) servers, every assignment of the pairwise-different server shapes to the positions "
        "(4 shapes; 3 shapes for 3-server files in quick and for 4-server files in thorough): "
        "load_config and test_server for every position, run_command for every non-empty subset of names in file order "
        "(thorough: the full set also reversed) with a plain command function, and with one named 'interactive_mode' (quick: only for "
        "the full set of names; thorough: for every subset), and run_command with all names plus one "
        "unknown name at every position (files of 1..2, thorough 1..3 servers).  "
        "A case is non-trivial if it ran the entry point to completion; distinct = distinct observation digests "
        "(the observation contains the case description, what each witness recorded and what the entry point printed, "
        "with temp paths and the interpreter path normalised)"
    )
    res.assumptions = [
        "Linux: the witness reads its exact argv and environment bytes from /proc/self (falls back to sys.orig_argv / os.environ)",
        "the command is always sys.executable with the witness script as first argument; relative commands and PATH lookup are not in the grammar",
        "the parent environment is fixed for the duration of each call (HOME, LOGNAME, PATH, SHELL, TERM, USER set to non-empty "
        "values not starting with '()'; canaries A, B, C20_CANARY); empty or '()'-prefixed parent values, LOG_LEVEL handling and "
        "non-POSIX default names are not exercised",
        "env absent or {} is judged against the library's own get_default_environment() evaluated under the same parent "
        "environment, restricted to the documented POSIX names (HOME, LOGNAME, PATH, SHELL, TERM, USER), plus 'no parent-only "
        "canary reaches the child'; with a configured env only the configured keys are compared, so additional default "
        "variables merged in by the library would be accepted",
        "handshake reached = the witness received 'initialize' and later 'notifications/initialized' in that launch; what the "
        "entry point reports afterwards (return value, later requests) is recorded but not judged",
        "what the 'timeout' value means to a caller is not judged; only load_config's documented return (float of the configured "
        "number, None when absent) is compared",
        "test_server and run_command on malformed configurations are judged on: no exception escapes, no success reported "
        "(False / command function not run), something is printed, nothing is spawned - the wording of the diagnostic is free",
        "config files are written as UTF-8 with non-ASCII characters unescaped and read by the library under the check's "
        "(UTF-8) locale; other locales are not exercised",
        "whether children are terminated when the entry point returns is C16's subject: leftovers are killed by the harness "
        "and not judged here",
        "run_command clears the terminal through os.system; fd 1/2 are pointed at /dev/null during each call, so the child's "
        "inherited stderr is /dev/null as well",
        "valid JSON that is not an object, entries without 'command', directories given as config path are outside the three "
        "malformed classes of the statement and not generated",
    ]
    cov["enumeration_wall_s"] = round(time.time() - t_before, 2)
    return res
