"""C16 - stdio client shutdown is bounded and leaves no child process behind.

Two parts.
* virtual (deciding for time bounds, signal escalation, task hygiene, pending
  request outcome): the real ``stdio_client`` over a scripted process on the
  virtual loop; full matrix child behaviour x exit path x moment x grace-period
  boundary timings.
* real (deciding for OS facts: process gone and reaped, no fd leaked): the same
  matrix cells with real child scripts - see ``c16_real.py`` (merged into this
  check's evidence).
"""
from __future__ import annotations

import asyncio
import itertools
from typing import Any, Dict, List

import anyio

from .. import core, explorer, sched, seams
from ..vloop import EPS, new_loop

RUN = "vf.checks.c16:run_one"

BEHAVIOURS = [
    "well", "slow-exit-0.5", "exit-at-spawn", "exit-on-request", "exit-after-response",
    "ignore-term", "ignore-both", "stdin-blocks", "stdin-broken", "stdout-flood",
    "stdout-eof-early", "closes-stdin-side", "slow-start",
]
EXITS = ["normal", "exception", "task-cancel", "scope-cancel", "fail-after"]
MOMENTS = ["before-first", "in-flight", "after-response"]
REQ = {"jsonrpc": "2.0", "id": "q1", "method": "tools/list"}
RESP_LINE = b'{"jsonrpc":"2.0","id":"q1","result":{"tools":[]}}\n'
NOTE_LINE = b'{"jsonrpc":"2.0","method":"notifications/message","params":{"data":"flood"}}\n'


GROUP_EXITS = ["exception-group", "exception-group-cancel-scope-text", "exception-cancel-scope-text", "exception-group-json-text",
               "exception-unrenderable", "exception-base-exception"]


class _Unrenderable(Exception):
    """An exception whose text cannot be produced (a failing __str__ / __repr__ of some wrapped object)."""

    def __str__(self):
        raise RuntimeError("cannot render")

    __repr__ = __str__


class _BodyExit(BaseException):
    """Not an Exception: what a body that calls sys.exit() / is interrupted raises."""


class _BodyError(Exception):
    pass


def make_proc(cfg) -> seams.FakeProcess:
    b = cfg["behaviour"]
    term = cfg.get("term_delay", 0.0)
    kill = cfg.get("kill_delay", 0.0)
    p = seams.FakeProcess(obey_term=term, obey_kill=kill)
    if b == "slow-exit-0.5":
        p.obey_term = 0.5
    elif b == "ignore-term":
        p.obey_term = None
    elif b == "ignore-both":
        p.obey_term = None
        p.obey_kill = None
    elif b == "stdin-blocks":
        p.stdin.mode = "block"
    elif b == "stdin-broken":
        p.stdin.mode = "broken"
    elif b == "stdout-eof-early":
        p.stdout.feed_eof()
    elif b == "exit-at-spawn":
        p.exit(3)
    elif b == "slow-start":
        p.spawn_delay = 0.5
    sig = cfg.get("signals")
    if sig == "ignore-term":
        p.obey_term = None
    elif sig == "ignore-both":
        p.obey_term = None
        p.obey_kill = None
    return p


def run_one(ctl: explorer.Ctl, cfg: Dict[str, Any]) -> Dict[str, Any]:
    from chuk_mcp.protocol.messages.send_message import send_message
    from chuk_mcp.transports.stdio.stdio_client import stdio_client

    b, ex, mo = cfg["behaviour"], cfg["exit"], cfg["moment"]
    loop = new_loop(horizon=120, cancel_order=cfg.get("order", "fifo"))
    q = seams.Quiescence(loop)
    proc = make_proc(cfg)
    info: Dict[str, Any] = {"req_outcome": None}
    answered = {"n": 0}

    def on_stdin(data: bytes):
        # the scripted server: answer a request line
        if b'"method":"initialize"' in data or b'"method": "initialize"' in data:
            if cfg.get("mute_init"):
                info["handshake_pending"] = True  # the server never answers initialize
                return
            import json as _json
            try:
                rid = _json.loads(data.decode("utf-8").strip().splitlines()[0]).get("id")
            except Exception:
                rid = None
            proc.stdout.feed((_json.dumps({"jsonrpc": "2.0", "id": rid, "result": {
                "protocolVersion": "2025-06-18", "capabilities": {}, "serverInfo": {"name": "fake", "version": "1"}}})
                + "\n").encode())
            return
        if b'"method":"tools/list"' in data or b'"method": "tools/list"' in data:
            if b == "exit-on-request":
                proc.exit(0)
                return
            if cfg.get("answers", True) and mo == "after-response":
                proc.stdout.feed(RESP_LINE)
                answered["n"] += 1
                if b == "exit-after-response":
                    loop.call_soon(proc.exit, 0)

    proc.on_stdin = on_stdin
    if cfg.get("stdin_full_after") is not None:
        # the child stops draining its stdin after that many writes: later writes are taken by the pipe and never complete
        k_full = cfg["stdin_full_after"]
        proc.stdin.slow = lambda i, data: float("inf") if i >= k_full else None
    if b == "closes-stdin-side":
        proc.on_stdin_close = None
    flood = {"on": b == "stdout-flood"}
    if flood["on"]:
        orig_receive = proc.stdout.receive

        async def flooding_receive(max_bytes=65536):
            if proc.stdout._chunks or proc.stdout._eof or proc.returncode is not None:
                return await orig_receive(max_bytes)
            await asyncio.sleep(0.01)  # one notification every 10 ms of virtual time
            return NOTE_LINE

        proc.stdout.receive = flooding_receive
    if b == "flood-then-exit":
        # floods faster than anybody reads (the reader ends up parked on the full read stream), then dies by itself with
        # output still in the pipe; the context is left only afterwards
        orig_receive2 = proc.stdout.receive

        async def fast_flood(max_bytes=65536):
            if proc.stdout._chunks or proc.stdout._eof or proc.returncode is not None:
                return await orig_receive2(max_bytes)
            await asyncio.sleep(0.0001)
            return NOTE_LINE

        proc.stdout.receive = fast_flood

        def die():
            proc.stdout.feed(NOTE_LINE * 3)
            proc.exit(0)
        loop.call_later(0.05, die)
    if b in ("grandchild-holds-stdout", "grandchild-keeps-writing"):
        # a helper process inherited the child's stdout and outlives it: the pipe does not reach end-of-file when the
        # child dies; the chatty variant keeps writing every 0.2 s for ever
        proc.eof_on_exit = False
        if b == "grandchild-keeps-writing":
            orig_receive3 = proc.stdout.receive

            async def chatty(max_bytes=65536):
                if proc.stdout._chunks:
                    return await orig_receive3(max_bytes)
                await asyncio.sleep(0.2)
                return NOTE_LINE

            proc.stdout.receive = chatty

    async def open_delay():
        if b == "slow-start":
            await asyncio.sleep(0.5)

    async def request(read, write):
        try:
            r = await send_message(read, write, "tools/list", timeout=5.0, message_id="q1")
            info["req_outcome"] = "result"
            info["req_value"] = sched.jsonable(r)
        except TimeoutError:
            info["req_outcome"] = "timeout"
            raise
        except asyncio.CancelledError:
            info["req_outcome"] = "cancelled"
            raise
        except Exception as e:  # noqa: BLE001
            info["req_outcome"] = "error:" + type(e).__name__
            raise

    async def body(read, write, owner=None):
        v = cfg.get("client_version")
        if v and owner is not None:
            owner.set_protocol_version(v)
        for _ in range(cfg.get("unsolicited_batches", 0)):
            # the child writes a JSON-RPC batch line by itself (at versions without batching the reader answers it with
            # an error written straight to the child's stdin)
            proc.stdout.feed(b'[{"jsonrpc":"2.0","method":"notifications/message","params":{"level":"info","data":"x"}}]\n')
            await q.settle()
        if b == "flood-then-exit":
            await asyncio.sleep(0.2)  # the child is dead by now, its last output still unread
        if mo == "before-first":
            pass
        elif mo == "in-flight":
            if ex in ("normal", "exception", "scope-cancel-during-exit", "exception-then-scope-cancel-during-exit") or ex in GROUP_EXITS:
                await write.send(dict(REQ))
                await q.settle()
            else:
                info["blocked_in_request"] = True
                await request(read, write)  # never answered: the exit path interrupts it (or it times out)
                return
        else:
            try:
                await request(read, write)
            except (TimeoutError, Exception):  # noqa: BLE001
                pass
        if ex in ("exception", "exception-then-scope-cancel-during-exit"):
            info["t_exit_begin"] = loop.time()
            raise _BodyError("body failed")
        if ex in GROUP_EXITS:
            # what a body that runs its own task group raises; the wrappers treat groups and 'cancel scope' texts specially
            info["t_exit_begin"] = loop.time()
            if ex == "exception-group":
                raise ExceptionGroup("body tasks failed", [_BodyError("body failed"), ValueError("second")])
            if ex == "exception-group-cancel-scope-text":
                raise ExceptionGroup("body tasks failed", [RuntimeError("Attempted to exit cancel scope in a different task")])
            if ex == "exception-cancel-scope-text":
                raise RuntimeError("Attempted to exit cancel scope in a different task than it was entered in")
            if ex == "exception-unrenderable":
                raise _Unrenderable()
            if ex == "exception-base-exception":
                raise _BodyExit()
            if ex == "exception-group-json-text":
                raise ExceptionGroup("body tasks failed", [TypeError("the JSON object must be str, bytes or bytearray, not dict")])
        if ex in ("task-cancel", "scope-cancel", "fail-after"):
            info["blocked_in_sleep"] = True
            await asyncio.sleep(3600)
        info["t_exit_begin"] = loop.time()

    async def use_client():
        with seams.patched_open_process(_factory) as pp:
            info["pp"] = pp
            entry = cfg.get("entry", "stdio_client")
            if entry == "transport":
                from chuk_mcp.transports.stdio.transport import StdioTransport

                async with StdioTransport(_params()) as tr:
                    read, write = await tr.get_streams()
                    info["entered"] = loop.time()
                    await body(read, write, tr)
            elif entry == "reuse-client":
                from chuk_mcp.transports.stdio.stdio_client import StdioClient

                client = StdioClient(_params())
                async with client:      # an earlier, uneventful connection through the same object
                    await q.settle()
                info["first_conn_calls"] = [c[0] for c in first_proc.calls]
                async with client:
                    read, write = client.get_streams()
                    info["entered"] = loop.time()
                    await body(read, write, client)
            elif entry in ("transport-after-failed-start", "client-after-failed-start"):
                # the same object: a first entry that fails because the command cannot be started, then a good one
                from chuk_mcp.transports.stdio.stdio_client import StdioClient
                from chuk_mcp.transports.stdio.transport import StdioTransport

                obj = StdioTransport(_params()) if entry.startswith("transport") else StdioClient(_params())
                spawn_state["fail_next"] = True
                try:
                    async with obj:
                        info["first_entered"] = True
                except FileNotFoundError:
                    info["first_failed"] = True
                async with obj as o:
                    read, write = (await o.get_streams()) if entry.startswith("transport") else o.get_streams()
                    info["entered"] = loop.time()
                    await body(read, write)
            elif entry == "connect_to_server":
                from chuk_mcp.client.connection import connect_to_server
                from chuk_mcp.transports.stdio.transport import StdioTransport

                async with connect_to_server(StdioTransport(_params())) as mcp_client:
                    read, write = mcp_client._streams
                    info["entered"] = loop.time()
                    await body(read, write)
            elif entry == "with_initialize":
                from chuk_mcp.transports.stdio.stdio_client import stdio_client_with_initialize

                async with stdio_client_with_initialize(_params(), timeout=2.0) as (read, write, init):
                    info["entered"] = loop.time()
                    await body(read, write)
            else:
                async with stdio_client(_params()) as (read, write):
                    info["entered"] = loop.time()
                    await body(read, write)

    spawn_state = {}

    first_proc = seams.FakeProcess()

    def _params():
        return seams.stdio_params(command=cfg.get("command", "fake-server"), args=cfg.get("args"), env=cfg.get("env"))

    def _factory(cmd, kw):
        if spawn_state.pop("fail_next", None):
            return FileNotFoundError(2, "No such file or directory: 'fake-server'")
        if cfg.get("entry") == "reuse-client" and not spawn_state.get("first_done"):
            spawn_state["first_done"] = True
            return first_proc
        return proc

    async def main():
        # wrap open_process to add the slow start
        import anyio as _anyio
        t0 = loop.time()
        outcome = None
        try:
            if ex in ("normal", "exception") or ex in GROUP_EXITS:
                await use_client()
            elif ex == "task-cancel":
                t = asyncio.ensure_future(use_client())
                await _wait_blocked(q, info, t)
                info["t_exit_begin"] = loop.time()
                t.cancel()
                await t
            elif ex == "scope-cancel":
                with anyio.CancelScope() as scope:
                    async def canceller():
                        await _wait_blocked(q, info, None)
                        info["t_exit_begin"] = loop.time()
                        scope.cancel()
                    ct = asyncio.ensure_future(canceller())
                    try:
                        await use_client()
                    finally:
                        ct.cancel()
                outcome = "scope-cancelled" if scope.cancelled_caught else "scope-not-caught"
            elif ex == "fail-after":
                info["t_exit_begin"] = t0 + 2.5
                with anyio.fail_after(2.5):
                    await use_client()
            elif ex in ("scope-cancel-at-spawn", "scope-cancel-during-spawn"):
                with anyio.CancelScope() as scope:
                    if ex == "scope-cancel-at-spawn":
                        def at_spawn():
                            info["t_exit_begin"] = loop.time()
                            scope.cancel()
                        proc.on_spawned = at_spawn
                    else:
                        proc.spawn_delay = max(getattr(proc, "spawn_delay", 0), 0.5)
                        info["never_spawned_ok"] = True

                        def mid():
                            info["t_exit_begin"] = loop.time()
                            scope.cancel()
                        loop.call_later(0.25, mid)
                    await use_client()
                outcome = "left-under-cancel"
            elif ex in ("scope-cancel-during-exit", "exception-then-scope-cancel-during-exit"):
                with anyio.CancelScope() as scope:
                    async def canceller2():
                        while "t_exit_begin" not in info:
                            await q.settle()
                            await asyncio.sleep(0.01)
                        await asyncio.sleep(cfg.get("during", 0.5))
                        info["t_cancel_during_exit"] = loop.time()
                        scope.cancel()
                    ct = asyncio.ensure_future(canceller2())
                    try:
                        await use_client()
                    except _BodyError:
                        info["body_error_seen"] = True
                    finally:
                        ct.cancel()
                outcome = "left-under-cancel"
        except _BodyError:
            outcome = "body-error-propagated"
        except asyncio.CancelledError:
            outcome = "cancelled-propagated"
        except TimeoutError:
            outcome = "timeout-propagated"
        except BaseException as e:  # noqa: BLE001
            try:
                outcome = "other:" + type(e).__name__ + ":" + str(e)[:80]
            except Exception:  # noqa: BLE001
                outcome = "other:" + type(e).__name__ + ":<unrenderable>"
        else:
            outcome = outcome or "returned"
        info["t_done"] = loop.time()
        info["outcome"] = outcome
        await q.settle()
        info["tasks_left"] = len([t for t in asyncio.all_tasks(loop) if not t.done()]) - 1

    status, val = loop.run_main(main())
    errors = loop.collect_errors()
    loop.abandon()
    obs: Dict[str, Any] = {"status": status, "cfg": f"{b}/{ex}/{mo}/{cfg.get('order')}/{cfg.get('entry', 'stdio_client')}/{cfg.get('during')}/{cfg.get('signals')}"}
    viol: List[dict] = []

    def bad(cls, msg, **extra):
        viol.append({"sig": {"class": cls, "exit": ex, **extra},
                     "msg": f"entry={cfg.get('entry', 'stdio_client')} behaviour={b} signals={cfg.get('signals')} exit={ex} moment={mo} during={cfg.get('during')} order={cfg.get('order')} term={cfg.get('term_delay', 0.0)} "
                            f"kill={cfg.get('kill_delay', 0.0)}: {msg}"})

    if status != "ok":
        obs["outcome"] = status
        bad("did-not-finish", f"execution ended with {status}: {core.clean_repr(val)}", status=status)
        obs["violations"] = viol
        return obs
    pp = info["pp"]
    if len(pp.spawned) != (2 if cfg.get("entry") == "reuse-client" else 1) and not info.get("never_spawned_ok"):
        raise core.HarnessError("seam missing: stdio_client did not call anyio.open_process")
    if not pp.spawned:
        # cancelled while the spawn was still in progress: there is no child, nothing else to judge
        obs["outcome"] = info["outcome"] + "/never-spawned"
        if info["outcome"] != "left-under-cancel":
            bad("wrong-exit-outcome", f"{info['outcome']}")
        obs["violations"] = viol
        return obs
    calls = [(c[0], round(c[1], 6) if c[1] is not None else None) for c in proc.calls]
    obs["calls"] = calls
    obs["outcome"] = info["outcome"]
    obs["req"] = info.get("req_outcome")
    t_begin = info.get("t_exit_begin")
    dur = None if t_begin is None else info["t_done"] - t_begin
    obs["exit_duration"] = None if dur is None else round(dur, 6)

    # 0. nothing reads the child's stderr: it must never be a pipe (an unread pipe blocks the child and leaks its descriptor)
    import subprocess as _sp
    for sp_ in pp.spawned:
        if (getattr(sp_, "kwargs", None) or {}).get("stderr") == _sp.PIPE:
            bad("stderr-piped-but-never-read", f"open_process(stderr=PIPE) with env {cfg.get('env')}")
    # 0a. the child is started from exactly the configured program and arguments, as an argument list (never through a shell)
    for sp_ in pp.spawned:
        want_argv = [cfg.get("command", "fake-server"), *(cfg.get("args") or [])]
        if not isinstance(sp_.argv, list) or list(sp_.argv) != want_argv:
            bad("spawn-argv-not-the-configured-list", f"open_process was called with {sp_.argv!r}, configured {want_argv!r}")
    # 0b. a child that is dead when the context has been left: its stdout pipe must have been read to the end (that is what
    #     closes the descriptor); nothing is demanded when a helper process still holds the pipe open
    if proc.returncode is not None and proc.eof_on_exit and not proc.stdout.eof_seen and not proc.stdout.closed:
        bad("stdout-pipe-left-unread", "the child is dead but its stdout pipe was not read to end-of-file: the descriptor stays open")
    # 1. bounded exit
    if dur is None:
        bad("exit-not-reached", "the exit path was never taken")
    elif dur > 2.0 + 1e-3:
        bad("exit-too-slow", f"leaving the context took {dur:.6f}s of virtual time (> 2 grace periods)")
    # 2. propagation
    want = {"normal": "returned", "exception": "body-error-propagated", "task-cancel": "cancelled-propagated",
            "scope-cancel": "scope-cancelled", "fail-after": "timeout-propagated",
            "scope-cancel-during-exit": "left-under-cancel", "scope-cancel-at-spawn": "left-under-cancel",
            "scope-cancel-during-spawn": "left-under-cancel",
            "exception-then-scope-cancel-during-exit": "left-under-cancel"}.get(ex)
    # (how a group / a 'cancel scope' text raised by the body leaves the wrapper is not part of the statement: only the clean-up is judged)
    if want is not None and info["outcome"] != want:
        bad("wrong-exit-outcome", f"context exit ended with {info['outcome']!r}, expected {want!r}")
    # 3. child gone: either it has exited, or both signals were delivered in order with the grace period
    names = [c[0] for c in calls]
    if proc.returncode is None:
        if "terminate" not in names:
            bad("child-left-running", "context left without signalling the child at all (no terminate/kill)")
        elif "kill" not in names:
            bad("no-kill-escalation", "child ignored terminate and was never killed")
        else:
            t_term = [c[1] for c in calls if c[0] == "terminate"][0]
            t_kill = [c[1] for c in calls if c[0] == "kill"][0]
            if abs((t_kill - t_term) - 1.0) > 1e-3:
                bad("kill-at-wrong-time", f"kill sent {t_kill - t_term:.6f}s after terminate (grace period is 1 s)")
    else:
        # exited: if it exited only because of a signal, the signals must be in order
        if "kill" in names and "terminate" in names:
            t_term = [c[1] for c in calls if c[0] == "terminate"][0]
            t_kill = [c[1] for c in calls if c[0] == "kill"][0]
            if t_kill < t_term:
                bad("kill-before-terminate", f"calls={calls}")
        if "kill" in names and "terminate" not in names:
            bad("kill-without-terminate", f"calls={calls}")
        if proc.wait_calls == 0 and any(n in ("terminate", "kill") for n in names):
            bad("child-not-reaped", "child was signalled but never waited for")
    # 4. nothing left
    if info.get("tasks_left", 0) > 0:
        bad("tasks-left", f"{info['tasks_left']} tasks still alive after leaving the context")
    if errors:
        bad("loop-error", f"{errors[:2]}")
    # 5. pending request never ends with a fabricated result
    if info.get("req_outcome") == "result" and answered["n"] == 0:
        bad("fabricated-result", f"request returned {info.get('req_value')!r} although the child never answered")
    obs["violations"] = viol
    return obs


async def _wait_blocked(q, info, task):
    """Wait (in virtual quiescence steps) until the body is parked at its moment."""
    for _ in range(200):
        await q.settle()
        if info.get("blocked_in_sleep") or info.get("blocked_in_request") or info.get("handshake_pending"):
            # let the conversation run on for a while (a flooding child fills the 100-slot buffer)
            await asyncio.sleep(1.5)
            await q.settle()
            return
        if task is not None and task.done():
            return
        await asyncio.sleep(0.01)
    return


def run_open_fail(ctl, cfg):
    """A command that cannot be started makes entering the context raise."""
    from chuk_mcp.transports.stdio.stdio_client import stdio_client

    loop = new_loop(horizon=30)
    exc_cls = {"fnf": FileNotFoundError, "perm": PermissionError, "os": OSError}[cfg["error"]]
    info = {}

    async def main():
        with seams.patched_open_process(lambda cmd, kw: exc_cls("cannot start")):
            try:
                async with stdio_client(seams.stdio_params()) as (r, w):
                    info["entered"] = True
            except exc_cls:
                info["raised"] = "same"
            except BaseException as e:  # noqa: BLE001
                info["raised"] = type(e).__name__
        info["tasks_left"] = len([t for t in asyncio.all_tasks(loop) if not t.done()]) - 1

    status, val = loop.run_main(main())
    loop.abandon()
    viol = []
    if info.get("entered"):
        viol.append({"sig": {"class": "entered-without-child"}, "msg": f"open_process raised {cfg['error']} but the context was entered"})
    if info.get("tasks_left"):
        viol.append({"sig": {"class": "tasks-left-after-failed-start"}, "msg": str(info)})
    return {"outcome": f"open-fail:{info.get('raised')}", "violations": viol, "status": status}


RUN_OPEN = "vf.checks.c16:run_open_fail"
RUN_BACKLOG = "vf.checks.c16:run_backlog_exit"


def run_backlog_exit(ctl, cfg):
    """Class API with per-request streams: the main read stream is full of unread messages when the answer for a
    registered id arrives; then the context is left.  Leaving must still be bounded and must terminate the child."""
    import json

    from chuk_mcp.protocol.messages.json_rpc_message import JSONRPCRequest
    from chuk_mcp.transports.stdio.stdio_client import StdioClient

    loop = new_loop(horizon=40)
    q = seams.Quiescence(loop)
    proc = seams.FakeProcess(obey_term=0.0 if cfg.get("signals") != "ignore-term" else None, obey_kill=0.0)
    info: Dict[str, Any] = {}
    note = (json.dumps({"jsonrpc": "2.0", "method": "notifications/message", "params": {"data": "x"}}) + "\n").encode()
    resp = (json.dumps({"jsonrpc": "2.0", "id": "q1", "result": {"ok": True}}) + "\n").encode()

    async def use():
        with seams.patched_open_process(lambda cmd, kw: proc):
            async with StdioClient(seams.stdio_params()) as client:
                rs = client.new_request_stream("q1") if cfg["registered"] else None
                await client.send_json(JSONRPCRequest(id="q1", method="tools/list"))
                await q.settle()
                if cfg["answer_first"]:
                    proc.stdout.feed(resp)
                    await q.settle()
                proc.stdout.feed(note * cfg["backlog"])
                await q.settle()
                if not cfg["answer_first"]:
                    proc.stdout.feed(resp)
                    await q.settle()
                if cfg["then"] == "more":
                    proc.stdout.feed(note * 3)
                    await q.settle()
                info["t_exit_begin"] = loop.time()
                if cfg["exit"] == "exception":
                    raise _BodyError("body failed")
                if cfg["exit"] == "scope-cancel":
                    info["scope"].cancel()
                    await asyncio.sleep(3600)

    async def main():
        with anyio.CancelScope() as scope:
            info["scope"] = scope
            try:
                await use()
            except _BodyError:
                pass
        info["t_done"] = loop.time()
        await q.settle()
        info["tasks_left"] = len([t for t in asyncio.all_tasks(loop) if not t.done()]) - 1

    status, val = loop.run_main(main())
    errors = loop.collect_errors()
    loop.abandon()
    viol: List[dict] = []

    def bad(cls, msg, **extra):
        viol.append({"sig": {"class": cls, "part": "backlog-exit", **extra}, "msg": f"cfg={cfg}: {msg}"})

    if status != "ok":
        bad("did-not-finish", f"leaving the context never returned: {status} {core.clean_repr(val)}", status=status,
            registered=cfg["registered"])
        return {"outcome": status, "violations": viol}
    dur = info["t_done"] - info["t_exit_begin"]
    if dur > 2.0 + 1e-3:
        bad("exit-too-slow", f"leaving the context took {dur:.6f}s of virtual time")
    names = [c[0] for c in proc.calls]
    if proc.returncode is None and "kill" not in names:
        bad("child-left-running", f"calls={names}")
    if info.get("tasks_left"):
        bad("tasks-left", f"{info['tasks_left']} tasks still pending")
    if errors:
        bad("loop-error", f"{errors[:2]}")
    return {"outcome": f"left/{round(dur, 3)}", "violations": viol}


def backlog_configs():
    return [{"registered": r, "backlog": n, "answer_first": af, "then": th, "exit": e, "signals": sg}
            for r in (True, False) for n in (0, 50, 99, 100, 101, 150) for af in (False, True) for th in ("nothing", "more")
            for e in ("normal", "exception", "scope-cancel") for sg in (None, "ignore-term")]


def configs_for(tier: str):
    base = [{"behaviour": b, "exit": e, "moment": m, "order": o} for b in BEHAVIOURS for e in EXITS for m in MOMENTS
            for o in ("fifo", "lifo")]
    # the other public entry points onto the same client: the Transport wrapper and the initializing context
    for entry in ("transport", "with_initialize"):
        behs = BEHAVIOURS if tier == "thorough" else ["well", "ignore-term", "ignore-both", "stdout-flood", "exit-on-request"]
        if entry == "with_initialize":
            # behaviours under which the handshake itself can complete
            behs = [b for b in behs if b in ("well", "slow-exit-0.5", "ignore-term", "ignore-both", "stdout-flood",
                                             "exit-on-request", "exit-after-response", "slow-start")]
        base += [{"behaviour": b, "exit": e, "moment": m, "order": o, "entry": entry} for b in behs for e in EXITS
                 for m in MOMENTS for o in ("fifo", "lifo")]
    # grace-period boundaries: child obeys terminate / kill after a delay
    delays_t = [0.0, 0.5, 1.0 - EPS, 1.0, 1.0 + EPS, None]
    delays_k = [0.0, 0.5, 1.0 - EPS, 1.0, 1.0 + EPS, None]
    timing = []
    exits = EXITS if tier == "thorough" else ["normal", "scope-cancel", "task-cancel"]
    moments = MOMENTS if tier == "thorough" else ["in-flight"]
    for td, kd, e, m in itertools.product(delays_t, delays_k, exits, moments):
        for o in ("fifo", "lifo"):
            timing.append({"behaviour": "well", "exit": e, "moment": m, "term_delay": td, "kill_delay": kd, "order": o})
    # the same client object used for a second connection; the high-level connect_to_server() context
    for b in ("well", "ignore-term", "ignore-both", "stdout-flood", "stdin-blocks", "exit-on-request"):
        for e in EXITS:
            for m in MOMENTS:
                for o in ("fifo", "lifo"):
                    base.append({"behaviour": b, "exit": e, "moment": m, "order": o, "entry": "reuse-client"})
    for b in ("well", "ignore-term", "ignore-both", "stdout-flood", "slow-start"):
        for e in EXITS:
            for m in MOMENTS:
                for o in ("fifo", "lifo"):
                    base.append({"behaviour": b, "exit": e, "moment": m, "order": o, "entry": "connect_to_server"})
        # left while the handshake itself is still waiting for the server's answer
        for e in ("task-cancel", "scope-cancel", "fail-after"):
            for o in ("fifo", "lifo"):
                base.append({"behaviour": b, "exit": e, "moment": "before-first", "order": o, "entry": "connect_to_server",
                             "mute_init": True})
    # every behaviour combined with a child that ignores SIGTERM / both signals
    for sig in ("ignore-term", "ignore-both"):
        for b in BEHAVIOURS:
            if b in ("ignore-term", "ignore-both", "exit-at-spawn"):
                continue
            for e in EXITS:
                for m in (MOMENTS if tier == "thorough" else ["in-flight"]):
                    for o in ("fifo", "lifo"):
                        base.append({"behaviour": b, "exit": e, "moment": m, "order": o, "signals": sig})
    # cancellation that lands while the context is being ENTERED: the instant the spawn completes, or mid-spawn
    for b in BEHAVIOURS:
        for e in ("scope-cancel-at-spawn", "scope-cancel-during-spawn"):
            for sig in ("obey", "ignore-term"):
                for o in ("fifo", "lifo"):
                    base.append({"behaviour": b, "exit": e, "moment": "before-first", "order": o, "signals": sig})
    # cancellation that arrives while the context is already being left (shutdown in progress)
    for b in ("well", "slow-exit-0.5", "ignore-term", "ignore-both", "stdin-blocks", "stdout-flood"):
        for e in ("scope-cancel-during-exit", "exception-then-scope-cancel-during-exit"):
            for m in MOMENTS:
                for during in (0.0, 0.25, 0.5, 1.0 - EPS, 1.0, 1.0 + EPS, 1.5):
                    for o in ("fifo", "lifo"):
                        base.append({"behaviour": b, "exit": e, "moment": m, "order": o, "during": during})
    # the same object entered again after a start that failed; configured environments that change how stderr is wired
    for entry in ("transport-after-failed-start", "client-after-failed-start"):
        for b in ("well", "ignore-term", "ignore-both", "stdout-flood"):
            for e in EXITS:
                for m in MOMENTS:
                    for o in ("fifo", "lifo"):
                        base.append({"behaviour": b, "exit": e, "moment": m, "order": o, "entry": entry})
    for env in ({"LOG_LEVEL": "ERROR"}, {"LOG_LEVEL": "critical"}, {"LOGGING_LEVEL": "ERROR"}, {"LOG_LEVEL": "DEBUG"}, {"A": "1"}):
        for entry in (None, "transport", "with_initialize"):
            for b in ("well", "ignore-term", "stdout-flood"):
                for e in ("normal", "scope-cancel"):
                    c = {"behaviour": b, "exit": e, "moment": "in-flight", "order": "fifo", "env": env}
                    if entry:
                        c["entry"] = entry
                    base.append(c)
    # program paths and arguments with white space / shell syntax: started as given
    for command, args in (("my server", None), ("/opt/my tools/server", []), ("server --flag", []), ("sh -c 'exit 0'", None),
                          ("fake-server", ["a b", "$HOME", ";", ""]), ("tab\there", [])):
        for entry in (None, "transport", "with_initialize"):
            for e in ("normal", "scope-cancel"):
                c = {"behaviour": "well", "exit": e, "moment": "in-flight", "order": "fifo", "command": command, "args": args}
                if entry:
                    c["entry"] = entry
                base.append(c)
    # helper processes holding the child's stdout; a child that dies by itself with unread output in a blocked pipe
    for b in ("grandchild-holds-stdout", "grandchild-keeps-writing", "flood-then-exit"):
        for entry in (None, "transport", "with_initialize", "reuse-client"):
            if entry == "with_initialize" and b == "flood-then-exit":
                continue
            for e in EXITS:
                for m in MOMENTS:
                    for sig in (None, "ignore-term"):
                        c = {"behaviour": b, "exit": e, "moment": m, "order": "fifo"}
                        if entry:
                            c["entry"] = entry
                        if sig:
                            c["signals"] = sig
                        base.append(c)
    # the body fails with an exception group (its own task group) or with a 'cancel scope' / JSON text the wrappers treat specially
    for entry in (None, "transport", "with_initialize", "reuse-client", "connect_to_server"):
        for b in ("well", "ignore-term", "ignore-both", "stdout-flood", "stdin-blocks", "exit-on-request"):
            if entry in ("with_initialize", "connect_to_server") and b == "stdin-blocks":
                continue
            for e in GROUP_EXITS:
                for m in MOMENTS:
                    for o in ("fifo", "lifo"):
                        c = {"behaviour": b, "exit": e, "moment": m, "order": o}
                        if entry:
                            c["entry"] = entry
                        base.append(c)
    # the reader itself writes to the child (rejecting a batch at a version without batching) while the child no longer
    # drains its stdin: the context must still be left and the child terminated
    for entry, ver in (("with_initialize", None), ("transport", "2025-06-18"), ("reuse-client", "2025-06-18"),
                       ("transport", "2024-11-05"), ("reuse-client", None)):
        for b in ("well", "ignore-term", "ignore-both"):
            for nb in (1, 3):
                for full_after in ((2,) if entry == "with_initialize" else (0, 1)):
                    for e in EXITS:
                        for m in MOMENTS:
                            c = {"behaviour": b, "exit": e, "moment": m, "order": "fifo", "entry": entry, "unsolicited_batches": nb,
                                 "stdin_full_after": full_after}
                            if ver:
                                c["client_version"] = ver
                            base.append(c)
    return base, timing


def run(tier: str, only=None) -> core.Result:
    res = core.Result("C16", "fault_enumeration")
    base, timing = configs_for(tier)
    out = explorer.explore(RUN, base, fidelity=True)
    sched.absorb(res, "virtual-matrix", RUN, out, base)
    sched.debug_pass(res, "virtual-matrix", RUN, base, every=3)
    out = explorer.explore(RUN, timing, fidelity=True)
    sched.absorb(res, "virtual-grace-boundaries", RUN, out, timing)
    of = [{"error": e} for e in ("fnf", "perm", "os")]
    out = explorer.explore(RUN_OPEN, of, workers=1)
    sched.absorb(res, "open-process-fails", RUN_OPEN, out, of, min_outcomes=1)
    bl = backlog_configs()
    out = explorer.explore(RUN_BACKLOG, bl, fidelity=True)
    sched.absorb(res, "leaving-with-a-full-read-stream-and-per-request-streams", RUN_BACKLOG, out, bl, min_outcomes=1)
    try:
        from . import c16_real
    except ImportError:
        c16_real = None
    if c16_real is not None and (not only or "real" in only):
        c16_real.add_real_part(res, tier)
    res.coverage["exhaustive"] = True
    res.coverage["rule"] = (
        "full matrix child behaviour (13) x exit path (normal, exception in body, asyncio task.cancel, anyio cancel scope, "
        "fail_after around the context) x moment (before first message, request in flight, after response), plus all "
        "(terminate-obedience delay, kill-obedience delay) pairs around the 1 s grace periods; distinct = distinct observation digests"
    )
    res.assumptions = [
        "virtual part: the scripted process models exit/terminate/kill/wait and pipe EOF; OS-level facts (zombies, fds) are decided by the real-child part",
        "a child that ignores SIGKILL cannot exist on a real OS; for the scripted 'ignore-both' child the check only demands that both signals were sent in order and the exit stayed bounded",
    ]
    return res
