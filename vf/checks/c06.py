"""C06 - stdio outbound framing: one message, one line, in order, content preserved.

Engine: E-SCHED (virtual loop, scripted process).  Driver: public
``stdio_client()``; the harness sends a sequence of items on the write stream,
closes it, and inspects the bytes that reached the child's stdin.
"""
from __future__ import annotations

import itertools
import json
from typing import Any, Dict, List

from .. import core, explorer, gen, sched, seams
from ..jsonrpc_ref import strict_eq
from ..vloop import new_loop

RUN = "vf.checks.c06:run_one"
TRICKY = "a\nb\rc\u2028d\x00e\"f\\g\U0001F600\u0085 h"


class _Boom:
    """A 'model' whose serialiser raises."""

    method = "x"
    id = 1

    def model_dump_json(self, **kw):
        raise RuntimeError("cannot serialise")

    def model_dump(self, **kw):
        raise RuntimeError("cannot serialise")


class _BadRepr:
    """Unserialisable, and even its repr() fails."""

    def __repr__(self):
        raise RuntimeError("no repr")


def _items():
    """name -> (factory, expected wire value or None when unserialisable)"""
    from chuk_mcp.protocol.messages.json_rpc_message import (
        JSONRPCError, JSONRPCMessage, JSONRPCNotification, JSONRPCRequest, JSONRPCResponse)
    from chuk_mcp.protocol import fast_json

    p = {"s": TRICKY, "n": None, "l": [None, 1, {"z": None}], "e": {}}
    d_req = {"jsonrpc": "2.0", "id": "d1", "method": "tools/call", "params": p}
    d_uni = {"jsonrpc": "2.0", "id": 0, "result": {"é": TRICKY, "nul": None}}
    table = [
        ("typed-request", lambda: JSONRPCRequest(id="r1", method="tools/call", params=p),
         {"jsonrpc": "2.0", "id": "r1", "method": "tools/call", "params": p}),
        ("typed-request-noparams", lambda: JSONRPCRequest(id=0, method="ping"),
         {"jsonrpc": "2.0", "id": 0, "method": "ping"}),
        ("typed-notification", lambda: JSONRPCNotification(method="notifications/x", params={"t": TRICKY}),
         {"jsonrpc": "2.0", "method": "notifications/x", "params": {"t": TRICKY}}),
        ("typed-response", lambda: JSONRPCResponse(id=7, result={"x": None, "t": TRICKY}),
         {"jsonrpc": "2.0", "id": 7, "result": {"x": None, "t": TRICKY}}),
        ("typed-error", lambda: JSONRPCError(id="e", error={"code": -32000, "message": TRICKY, "data": None}),
         {"jsonrpc": "2.0", "id": "e", "error": {"code": -32000, "message": TRICKY, "data": None}}),
        ("unified-request", lambda: JSONRPCMessage.create_request("m", {"k": [TRICKY, None]}, id="u1"),
         {"jsonrpc": "2.0", "id": "u1", "method": "m", "params": {"k": [TRICKY, None]}}),
        ("dict-request", lambda: dict(d_req), d_req),
        ("dict-response", lambda: dict(d_uni), d_uni),
        ("str-json-dumps", lambda: json.dumps(d_req, separators=(",", ":")), d_req),
        ("str-json-dumps-default", lambda: json.dumps(d_uni), d_uni),
        ("str-fast-json", lambda: _as_str(fast_json.dumps(d_req)), d_req),
        ("dict-beyond-64bit", lambda: {"jsonrpc": "2.0", "id": 9, "result": {"big": 2**64, "neg": -(2**63) - 1, "huge": 10**30}},
         {"jsonrpc": "2.0", "id": 9, "result": {"big": 2**64, "neg": -(2**63) - 1, "huge": 10**30}}),
        ("dict-deep-nesting", lambda: {"jsonrpc": "2.0", "id": 10, "result": {"deep": _deep(300)}},
         {"jsonrpc": "2.0", "id": 10, "result": {"deep": _deep(300)}}),
        ("typed-beyond-64bit", lambda: JSONRPCResponse(id=11, result={"big": 2**64}),
         {"jsonrpc": "2.0", "id": 11, "result": {"big": 2**64}}),
        ("unserialisable-object", lambda: object(), None),
        ("unserialisable-dict-with-set", lambda: {"jsonrpc": "2.0", "id": 1, "method": "m", "params": {"s": {1, 2}}}, None),
        ("unserialisable-model", lambda: _Boom(), None),
        ("unserialisable-bad-repr", lambda: _BadRepr(), None),
        ("unserialisable-str-lone-surrogate", lambda: '{"jsonrpc":"2.0","id":1,"method":"m","params":{"s":"\ud800"}}', None),
        ("unserialisable-too-deep-dict", lambda: {"jsonrpc": "2.0", "id": 1, "method": "m", "params": {"d": _deep(5000)}}, None),
    ]
    return table


def _deep(n):
    v: Any = 0
    for _ in range(n):
        v = [v]
    return v


def _as_str(x):
    return x.decode("utf-8") if isinstance(x, (bytes, bytearray)) else x


def run_one(ctl: explorer.Ctl, cfg: Dict[str, Any]) -> Dict[str, Any]:
    from chuk_mcp.transports.stdio.stdio_client import stdio_client
    from chuk_mcp.protocol.messages.json_rpc_message import JSONRPCRequest

    table = _items()
    if "payload" in cfg:
        vals = _payloads(cfg["depth"])
        v = vals[cfg["payload"]]
        shape = cfg["shape"]
        if shape == "typed":
            seq = [("typed-payload", lambda: JSONRPCRequest(id="p", method="m", params={"v": v}),
                    {"jsonrpc": "2.0", "id": "p", "method": "m", "params": {"v": v}})]
        elif shape == "dict":
            d = {"jsonrpc": "2.0", "id": 5, "result": {"v": v}}
            seq = [("dict-payload", lambda: d, d)]
        else:
            d = {"jsonrpc": "2.0", "id": 5, "result": {"v": v}}
            seq = [("str-payload", lambda: json.dumps(d), d)]
        seq.append(table[1])
    else:
        seq = [table[i] for i in cfg["seq"]]
    loop = new_loop(horizon=30)
    q = seams.Quiescence(loop)
    proc = seams.FakeProcess()
    info: Dict[str, Any] = {}

    async def main():
        with seams.patched_open_process(lambda cmd, kw: proc) as pp:
            async with stdio_client(seams.stdio_params()) as (read, write):
                eof_at = cfg.get("stdout_eof_at")
                for i, (name, mk, exp) in enumerate(seq):
                    if eof_at == i:
                        proc.stdout.feed_eof()      # the child closes its stdout only; it keeps reading its stdin
                        await q.settle()
                    await write.send(mk())
                    if cfg.get("mode") == "step":
                        await q.settle()
                if eof_at == len(seq):
                    proc.stdout.feed_eof()
                await q.settle()
                info["bytes_before_close"] = bytes(proc.stdin.data)
                info["closed_before"] = proc.stdin.closed
                await write.aclose()
                await q.settle()
                info["closed_after"] = proc.stdin.closed
            info["spawned"] = len(pp.spawned)

    status, val = loop.run_main(main())
    errors = loop.collect_errors()
    loop.abandon()
    names = [s[0] for s in seq]
    obs: Dict[str, Any] = {"status": status, "items": names, "mode": cfg.get("mode")}
    if cfg.get("stdout_eof_at") is not None:
        obs["stdout_eof_at"] = cfg["stdout_eof_at"]
    viol: List[dict] = []
    if status != "ok":
        obs["outcome"] = status
        viol.append({"sig": {"class": "did-not-finish", "status": status},
                     "msg": f"items={names}: execution ended with {status}: {core.clean_repr(val)}"})
        obs["violations"] = viol
        return obs
    if info.get("spawned") != 1:
        raise core.HarnessError("seam missing: stdio_client did not call anyio.open_process")
    data = bytes(proc.stdin.data)
    expected = [(n, e) for (n, mk, e) in seq if e is not None]
    lines = data.split(b"\n")
    tail = lines[-1]
    lines = lines[:-1]

    run_tag: Dict[str, Any] = {}
    if cfg.get("stdout_eof_at") is not None:
        at = cfg["stdout_eof_at"]
        run_tag = {"child_stdout_ended": "before-any-message" if at == 0 else ("after-all-messages" if at >= len(seq) else "between-messages")}
    if cfg.get("part") == "unserialisable-runs":
        longest = cur = 0
        for (_, _, e) in seq:
            cur = cur + 1 if e is None else 0
            longest = max(longest, cur)
        lo = 1
        while lo * 2 <= longest:
            lo *= 2
        run_tag = {"part": "unserialisable-runs", "longest_run": f"{lo}-{2 * lo - 1}"}

    def bad(cls, msg, **extra):
        shown = names if len(names) <= 6 else names[:3] + [f"... {len(names) - 5} more ..."] + names[-2:]
        viol.append({"sig": {"class": cls, **extra, **run_tag}, "msg": f"items={shown} mode={cfg.get('mode')}: {msg}"})

    if tail != b"":
        bad("unterminated-line", f"stdin bytes do not end with a newline: ...{tail[-40:]!r}")
    if info["bytes_before_close"] != data:
        bad("bytes-after-close", "more bytes were written after the write stream was closed")
    if len(lines) != len(expected):
        kinds = sorted({n.split("-")[0] for n in names})
        bad("line-count", f"{len(lines)} lines on stdin for {len(expected)} serialisable items: {data[:300]!r}",
            has_unserialisable=any(e is None for (_, _, e) in seq))
    else:
        for raw, (n, exp) in zip(lines, expected):
            if b"\r" in raw:
                bad("raw-cr-in-line", f"{n}: carriage return inside line {raw[:120]!r}", item=_family(n))
                continue
            try:
                val2 = json.loads(raw.decode("utf-8"))
            except Exception as e:  # noqa: BLE001
                bad("line-not-json", f"{n}: {e!r}: {raw[:120]!r}", item=_family(n))
                continue
            if not strict_eq(val2, exp):
                bad("content-changed", f"{n}: decoded {val2!r} expected {exp!r}", item=_family(n))
    if not info["closed_after"]:
        bad("stdin-not-closed", "write stream closed but the child's stdin was not")
    if info["closed_before"]:
        bad("stdin-closed-early", "child's stdin closed before the write stream was closed")
    if errors:
        bad("loop-error", f"{errors[:2]}")
    obs["outcome"] = f"lines={len(lines)}/expected={len(expected)}"
    if "payload" in cfg:
        obs["outcome"] += "/" + type(_payloads(cfg["depth"])[cfg["payload"]]).__name__
    obs["nbytes"] = len(data)
    obs["violations"] = viol
    return obs


# ---------------------------------------------------------------------------
# two writers on the child's stdin: the outbound writer and the reader's batch-rejection error
# ---------------------------------------------------------------------------
RUN_X = "vf.checks.c06:run_interference"


def run_interference(ctl: explorer.Ctl, cfg: Dict[str, Any]) -> Dict[str, Any]:
    from chuk_mcp.transports.stdio.stdio_client import StdioClient

    loop = new_loop(horizon=30)
    q = seams.Quiescence(loop)
    proc = seams.FakeProcess()
    proc.stdin.yields = cfg["yields"]
    n = cfg["size"]
    msgs = [{"jsonrpc": "2.0", "id": f"m{i}", "method": "tools/call", "params": {"blob": "x" * n, "i": i}}
            for i in range(cfg["count"])]
    batch_line = b'[{"jsonrpc":"2.0","method":"notifications/message","params":{}}]\n'
    info: Dict[str, Any] = {}

    async def main():
        with seams.patched_open_process(lambda cmd, kw: proc):
            async with StdioClient(seams.stdio_params()) as client:
                client.set_protocol_version("2025-06-18")  # batches are rejected with one -32600 error line
                read, write = client.get_streams()
                if cfg["batch"] == "before":
                    proc.stdout.feed(batch_line)
                for i, m in enumerate(msgs):
                    await write.send(m)
                    if cfg["batch"] == "between" and i == 0:
                        proc.stdout.feed(batch_line)
                if cfg["batch"] == "after":
                    proc.stdout.feed(batch_line)
                await q.settle()
                await write.aclose()
                await q.settle()

    status, val = loop.run_main(main())
    errors = loop.collect_errors()
    loop.abandon()
    viol: List[dict] = []
    tag = {"size": "large" if n > 65536 else "small"}
    if status != "ok":
        return {"outcome": status, "violations": [{"sig": {"class": "did-not-finish", **tag}, "msg": f"cfg={cfg}: {status} {core.clean_repr(val)}"}]}
    data = bytes(proc.stdin.data)
    lines = data.split(b"\n")
    tail, lines = lines[-1], lines[:-1]
    decoded = []
    broken = 0
    for raw in lines:
        try:
            decoded.append(json.loads(raw.decode("utf-8")))
        except Exception:
            broken += 1
    if tail != b"":
        viol.append({"sig": {"class": "unterminated-line", **tag}, "msg": f"cfg={cfg}: stdin does not end with a newline"})
    if broken:
        viol.append({"sig": {"class": "line-not-json", "writers": "two", **tag},
                     "msg": f"cfg={cfg}: {broken} of {len(lines)} stdin lines are not single JSON values (interleaved writes?)"})
    own = [d for d in decoded if isinstance(d, dict) and d.get("method") == "tools/call"]
    errs = [d for d in decoded if isinstance(d, dict) and "error" in d]
    if not broken:
        if [d.get("id") for d in own] != [m["id"] for m in msgs] or not all(strict_eq(a, b) for a, b in zip(own, msgs)):
            viol.append({"sig": {"class": "content-changed", "writers": "two", **tag},
                         "msg": f"cfg={cfg}: messages on stdin {[d.get('id') for d in own]}"})
        want_err = 0 if cfg["batch"] == "none" else 1
        if len(errs) != want_err or any(e["error"].get("code") != -32600 for e in errs):
            viol.append({"sig": {"class": "batch-rejection-line", **tag}, "msg": f"cfg={cfg}: error lines {errs}"})
    if errors:
        viol.append({"sig": {"class": "loop-error"}, "msg": f"{errors[:2]}"})
    return {"outcome": f"lines={len(lines)}/broken={broken}", "cfg": cfg, "violations": viol}


RUN_SJ = "vf.checks.c06:run_send_json"


def run_send_json(ctl: explorer.Ctl, cfg: Dict[str, Any]) -> Dict[str, Any]:
    """The client's own send_json() entry point, alone and mixed with the write stream, then the write stream is closed."""
    from chuk_mcp.transports.stdio.stdio_client import StdioClient

    table = _items()
    loop = new_loop(horizon=30)
    q = seams.Quiescence(loop)
    proc = seams.FakeProcess()
    seq = [(table[i], via) for i, via in cfg["seq"]]
    info: Dict[str, Any] = {}

    async def main():
        with seams.patched_open_process(lambda cmd, kw: proc):
            async with StdioClient(seams.stdio_params()) as client:
                read, write = client.get_streams()
                for (name, mk, exp), via in seq:
                    if via == "send_json":
                        await client.send_json(mk())
                    else:
                        await write.send(mk())
                await q.settle()
                await write.aclose()
                await q.settle()
                info["closed_after"] = proc.stdin.closed

    status, val = loop.run_main(main())
    errors = loop.collect_errors()
    loop.abandon()
    names = [f"{t[0]}@{via}" for t, via in seq]
    viol: List[dict] = []
    if status != "ok":
        return {"outcome": status, "violations": [{"sig": {"class": "did-not-finish", "part": "send_json"}, "msg": f"{names}: {status} {core.clean_repr(val)}"}]}
    expected = [t[2] for t, via in seq if t[2] is not None]
    lines = bytes(proc.stdin.data).split(b"\n")[:-1]
    try:
        decoded = [json.loads(l.decode("utf-8")) for l in lines]
    except Exception:
        decoded = None
    if decoded is None or len(decoded) != len(expected) or not all(strict_eq(a, b) for a, b in zip(decoded, expected)):
        viol.append({"sig": {"class": "content-changed", "part": "send_json"}, "msg": f"{names}: stdin lines {lines[:3]!r}"})
    if not info.get("closed_after"):
        viol.append({"sig": {"class": "stdin-not-closed", "part": "send_json"},
                     "msg": f"{names}: the write stream was closed but the child's stdin was not"})
    if errors:
        viol.append({"sig": {"class": "loop-error"}, "msg": f"{errors[:2]}"})
    return {"outcome": f"lines={len(lines)}/closed={info.get('closed_after')}", "violations": viol}


# ---------------------------------------------------------------------------
# a pipe that is full: the bytes are taken, then the writer is kept waiting
# ---------------------------------------------------------------------------
RUN_SLOW = "vf.checks.c06:run_slow"
SLOW_T = [1.0, 4.9, 5.1, 11.0, float("inf")]
SLOW_T_NAMES = ["1s", "4.9s", "5.1s", "11s", "forever"]
SLOW_ITEMS = ["typed-request", "typed-notification", "dict-request", "str-json-dumps"]


def run_slow(ctl: explorer.Ctl, cfg: Dict[str, Any]) -> Dict[str, Any]:
    """The child's stdin takes the bytes of message number slow_at and then does not drain for T virtual seconds."""
    import asyncio

    from chuk_mcp.transports.stdio.stdio_client import stdio_client

    by_name = {t[0]: t for t in _items()}
    seq = [by_name[SLOW_ITEMS[i]] for i in cfg["seq"]]
    T = SLOW_T[cfg["T"]]
    k = cfg["slow_at"]
    loop = new_loop(horizon=200)
    q = seams.Quiescence(loop)
    proc = seams.FakeProcess()
    proc.stdin.slow = lambda idx, data: (T if idx == k else None)
    info: Dict[str, Any] = {}

    async def main():
        with seams.patched_open_process(lambda cmd, kw: proc):
            async with stdio_client(seams.stdio_params()) as (read, write):
                for (name, mk, exp) in seq:
                    await write.send(mk())
                    if cfg.get("mode") == "step":
                        await q.settle()
                await asyncio.sleep(60.0)      # virtual: every finite wait is over, every retry a library might make happened
                await q.settle()
                info["before_close"] = bytes(proc.stdin.data)
                await write.aclose()
                await q.settle()

    status, val = loop.run_main(main())
    errors = loop.collect_errors()
    loop.abandon()
    names = [t[0] for t in seq]
    where = f"items={names} slow={names[k]}#{k} T={SLOW_T_NAMES[cfg['T']]} mode={cfg.get('mode')}"
    tag = {"part": "slow-pipe", "wait": SLOW_T_NAMES[cfg["T"]]}
    if status != "ok":
        return {"outcome": status, "violations": [{"sig": {"class": "did-not-finish", **tag}, "msg": f"{where}: {status} {core.clean_repr(val)}"}]}
    viol: List[dict] = []
    data = bytes(proc.stdin.data)
    lines = data.split(b"\n")
    tail, lines = lines[-1], lines[:-1]
    if tail != b"":
        viol.append({"sig": {"class": "unterminated-line", **tag}, "msg": f"{where}: stdin does not end with a newline"})
    decoded: List[Any] = []
    for raw in lines:
        try:
            decoded.append(json.loads(raw.decode("utf-8")))
        except Exception:
            decoded.append({"__not_json__": raw[:60].decode("latin-1")})
    expected = [t[2] for t in seq]

    def show(vals):
        return [v.get("id", v.get("method")) if isinstance(v, dict) else v for v in vals]

    if T != float("inf"):
        ok = len(decoded) == len(expected) and all(strict_eq(a, b) for a, b in zip(decoded, expected))
        need = "exactly the messages sent, once each, in order"
    else:
        # the pipe never drains: everything up to and including the slow message was handed over; whatever else a
        # library manages to write may only be later messages, each at most once, in order
        i = 0
        ok = True
        for d in decoded:
            while i < len(expected) and not strict_eq(d, expected[i]):
                i += 1
            if i == len(expected):
                ok = False
                break
            i += 1
        ok = ok and len(decoded) >= k + 1 and all(strict_eq(a, b) for a, b in zip(decoded[: k + 1], expected[: k + 1]))
        need = "the messages up to the slow one, then at most later messages, each once, in order"
    if not ok:
        dup = any(strict_eq(a, b) for i2, a in enumerate(decoded) for b in decoded[i2 + 1:])
        viol.append({"sig": {"class": "duplicated-line" if dup else "lines-differ-from-messages", **tag},
                     "msg": f"{where}: the child got {show(decoded)} ({len(lines)} lines); expected {need}: {show(expected)}"})
    if info.get("before_close") != data:
        viol.append({"sig": {"class": "bytes-after-close", **tag}, "msg": f"{where}: bytes were written after the write stream was closed"})
    if errors:
        viol.append({"sig": {"class": "loop-error", **tag}, "msg": f"{errors[:2]}"})
    return {"outcome": f"lines={len(lines)}/sent={len(expected)}/{'never-drains' if T == float('inf') else 'drains'}",
            "cfg": cfg, "violations": viol}


def slow_configs(tier: str) -> List[Dict[str, Any]]:
    out = []
    maxlen = 3 if tier == "quick" else 4
    for L in range(1, maxlen + 1):
        for combo in itertools.product(range(len(SLOW_ITEMS)), repeat=L):
            for k in range(L):
                for t in range(len(SLOW_T)):
                    for mode in ("burst", "step"):
                        out.append({"seq": list(combo), "slow_at": k, "T": t, "mode": mode})
    return out


# ---------------------------------------------------------------------------
# long runs of messages that cannot be written: unserialisable items, and a pipe that fails for a while
# ---------------------------------------------------------------------------
RUN_PIPE = "vf.checks.c06:run_pipe_trouble"


def unserialisable_run_configs(tier: str) -> List[Dict[str, Any]]:
    """k unserialisable items in a row (one kind, or the kinds in rotation) before / between valid messages."""
    table = _items()
    bad = [i for i, t in enumerate(table) if t[2] is None]
    ix = {t[0]: i for i, t in enumerate(table)}
    v1, v2 = ix["typed-request"], ix["dict-response"]
    kmax = 12 if tier == "quick" else 40
    out = []
    for k in range(1, kmax + 1):
        runs = [[b] * k for b in bad] + [[bad[j % len(bad)] for j in range(k)]]
        for run_ in runs:
            for seq in ([v1] + run_ + [v2], run_ + [v2], [v1] + run_):
                for mode in ("burst", "step"):
                    out.append({"seq": seq, "mode": mode, "part": "unserialisable-runs"})
    return out


def run_pipe_trouble(ctl: explorer.Ctl, cfg: Dict[str, Any]) -> Dict[str, Any]:
    """The child's stdin raises for k consecutive writes (starting at write number 'at'), then works again."""
    import anyio

    from chuk_mcp.transports.stdio.stdio_client import stdio_client

    by_name = {t[0]: t for t in _items()}
    kinds = ["typed-request", "dict-request", "str-json-dumps", "typed-notification"]
    n = cfg["n"]
    seq = [by_name[kinds[i % len(kinds)]] for i in range(n)]
    at, k = cfg["at"], cfg["k"]
    exc_cls = {"broken": anyio.BrokenResourceError, "oserror": OSError, "runtime": RuntimeError}[cfg["error"]]
    loop = new_loop(horizon=30)
    q = seams.Quiescence(loop)
    proc = seams.FakeProcess()
    proc.stdin.fail = lambda idx, data: (exc_cls("pipe trouble") if at <= idx < at + k else None)
    info: Dict[str, Any] = {}

    async def main():
        with seams.patched_open_process(lambda cmd, kw: proc):
            async with stdio_client(seams.stdio_params()) as (read, write):
                for (name, mk, exp) in seq:
                    await write.send(mk())
                    if cfg.get("mode") == "step":
                        await q.settle()
                await q.settle()
                info["closed_before"] = proc.stdin.closed
                info["calls_before_close"] = proc.stdin.send_calls
                await write.aclose()
                await q.settle()
                info["closed_after"] = proc.stdin.closed

    status, val = loop.run_main(main())
    errors = loop.collect_errors()
    loop.abandon()
    where = f"{n} messages, writes {at}..{at + k - 1} raise {cfg['error']}, mode={cfg.get('mode')}"
    tag = {"part": "pipe-trouble", "error": cfg["error"]}
    if status != "ok":
        return {"outcome": status, "violations": [{"sig": {"class": "did-not-finish", **tag}, "msg": f"{where}: {status} {core.clean_repr(val)}"}]}
    viol: List[dict] = []
    lines = bytes(proc.stdin.data).split(b"\n")[:-1]
    decoded = []
    for raw in lines:
        try:
            decoded.append(json.loads(raw.decode("utf-8")))
        except Exception:
            decoded.append({"__not_json__": True})
    # judged: every message whose write did not fail is on stdin once, in order (the failed ones may be lost); every
    # message was attempted; the stream's close closes stdin - and not earlier
    expected_ok = [t[2] for i, t in enumerate(seq) if not (at <= i < at + k)]
    if not (len(decoded) == len(expected_ok) and all(strict_eq(a, b) for a, b in zip(decoded, expected_ok))):
        viol.append({"sig": {"class": "messages-after-pipe-trouble-not-written", **tag},
                     "msg": f"{where}: stdin has {len(decoded)} lines, {len(expected_ok)} writes were not disturbed "
                            f"({info.get('calls_before_close')} writes attempted)"})
    if info.get("calls_before_close", 0) < n:
        viol.append({"sig": {"class": "later-messages-not-attempted", **tag},
                     "msg": f"{where}: only {info.get('calls_before_close')} of {n} writes were attempted"})
    if info.get("closed_before"):
        viol.append({"sig": {"class": "stdin-closed-early", **tag}, "msg": f"{where}: child's stdin closed before the write stream was closed"})
    if not info.get("closed_after"):
        viol.append({"sig": {"class": "stdin-not-closed", **tag}, "msg": f"{where}: write stream closed but the child's stdin was not"})
    if errors:
        viol.append({"sig": {"class": "loop-error", **tag}, "msg": f"{errors[:2]}"})
    return {"outcome": f"lines={len(lines)}/attempted={info.get('calls_before_close')}/closed={info.get('closed_after')}",
            "cfg": cfg, "violations": viol}


def pipe_trouble_configs(tier: str) -> List[Dict[str, Any]]:
    kmax = 12 if tier == "quick" else 40
    out = []
    for k in range(1, kmax + 1):
        for at in (0, 1):
            for tail in (1, 2):
                for err in ("broken", "oserror", "runtime"):
                    for mode in ("burst", "step"):
                        out.append({"n": at + k + tail, "at": at, "k": k, "error": err, "mode": mode})
    return out


# ---------------------------------------------------------------------------
# two connections alive: one child does not read (its writer is parked in a pipe write), the other is healthy
# ---------------------------------------------------------------------------
RUN_TWO = "vf.checks.c06:run_two"
STALLS = ["block", "slow-1s", "slow-11s", "slow-forever"]


def run_two(ctl: explorer.Ctl, cfg: Dict[str, Any]) -> Dict[str, Any]:
    """A is entered first, B second.  One of them ('stalled') has a child that takes one write and then does not
    drain; the other sends its messages and closes its write stream in the meantime.  The healthy connection must
    look exactly like its solo run: its lines on its child's stdin, then EOF, at that very instant."""
    import asyncio

    from chuk_mcp.transports.stdio.stdio_client import StdioClient

    by_name = {t[0]: t for t in _items()}
    kinds = ["typed-request", "dict-request", "str-json-dumps"]
    healthy_seq = [by_name[kinds[i]] for i in cfg["seq"]]
    stalled_msgs = [by_name["typed-notification"], by_name["dict-response"]][: cfg["stalled_n"]]
    loop = new_loop(horizon=200)
    q = seams.Quiescence(loop)
    procs = {"A": seams.FakeProcess(), "B": seams.FakeProcess()}
    st = cfg["stalled"]                       # "A" or "B"
    he = "B" if st == "A" else "A"
    stall = STALLS[cfg["stall"]]
    if stall == "block":
        procs[st].stdin.mode = "block"
    else:
        T = {"slow-1s": 1.0, "slow-11s": 11.0, "slow-forever": float("inf")}[stall]
        procs[st].stdin.slow = lambda idx, data: (T if idx == 0 else None)
    info: Dict[str, Any] = {}

    async def main():
        it = iter([procs["A"], procs["B"]])
        with seams.patched_open_process(lambda cmd, kw: next(it)):
            async with StdioClient(seams.stdio_params("server-a")) as A:
                async with StdioClient(seams.stdio_params("server-b")) as B:
                    clients = {"A": A, "B": B}
                    _, w_st = clients[st].get_streams()
                    _, w_he = clients[he].get_streams()

                    async def stalled_sends():
                        for (name, mk, exp) in stalled_msgs:
                            await w_st.send(mk())
                        await q.settle()

                    async def healthy_sends():
                        for (name, mk, exp) in healthy_seq:
                            await w_he.send(mk())
                            if cfg.get("mode") == "step":
                                await q.settle()
                        await q.settle()
                        info["healthy_before_close"] = bytes(procs[he].stdin.data)
                        await w_he.aclose()
                        await q.settle()
                        info["healthy_data"] = bytes(procs[he].stdin.data)
                        info["healthy_closed"] = procs[he].stdin.closed

                    if cfg["first"] == "stalled":
                        await stalled_sends()
                        await healthy_sends()
                    else:
                        await healthy_sends()
                        await stalled_sends()
                    info["stalled_calls_during"] = procs[st].stdin.send_calls
                    await asyncio.sleep(60.0)     # virtual: every finite stall is over
                    await q.settle()
                    info["stalled_data"] = bytes(procs[st].stdin.data)

    status, val = loop.run_main(main())
    errors = loop.collect_errors()
    loop.abandon()
    where = (f"stalled={st} ({stall}, {len(stalled_msgs)} message(s)), healthy={he} sends {[t[0] for t in healthy_seq]} "
             f"mode={cfg.get('mode')} first={cfg['first']}")
    tag = {"part": "two-connections", "stall": stall, "healthy": "entered-first" if he == "A" else "entered-second"}
    if status != "ok":
        return {"outcome": status, "violations": [{"sig": {"class": "did-not-finish", **tag}, "msg": f"{where}: {status} {core.clean_repr(val)}"}]}
    viol: List[dict] = []

    def decode(data: bytes):
        out = []
        for raw in data.split(b"\n")[:-1]:
            try:
                out.append(json.loads(raw.decode("utf-8")))
            except Exception:
                out.append({"__not_json__": True})
        return out

    exp_h = [t[2] for t in healthy_seq]
    got_h = decode(info.get("healthy_data", b""))
    if not (len(got_h) == len(exp_h) and all(strict_eq(a, b) for a, b in zip(got_h, exp_h))) \
            or not info.get("healthy_data", b"").endswith(b"\n"):
        viol.append({"sig": {"class": "healthy-connection-held-up-by-another", **tag},
                     "msg": f"{where}: the healthy child's stdin has {len(got_h)} of {len(exp_h)} lines when its write stream "
                            f"was closed (alone it has all of them at that instant)"})
    if not info.get("healthy_closed"):
        viol.append({"sig": {"class": "healthy-connection-stdin-not-closed", **tag},
                     "msg": f"{where}: closing the healthy connection's write stream did not close its child's stdin"})
    exp_s = [t[2] for t in stalled_msgs]
    got_s = decode(info.get("stalled_data", b""))
    if stall in ("slow-1s", "slow-11s"):
        ok = len(got_s) == len(exp_s) and all(strict_eq(a, b) for a, b in zip(got_s, exp_s))
    elif stall == "slow-forever":
        ok = len(got_s) >= 1 and all(strict_eq(a, b) for a, b in zip(got_s, exp_s)) and len(got_s) <= len(exp_s)
    else:
        ok = got_s == []                        # a write that never takes the bytes
    if not ok:
        viol.append({"sig": {"class": "stalled-connection-lines-wrong", **tag},
                     "msg": f"{where}: the stalled child got {len(got_s)} lines for {len(exp_s)} messages"})
    if errors:
        viol.append({"sig": {"class": "loop-error", **tag}, "msg": f"{errors[:2]}"})
    return {"outcome": f"healthy={len(got_h)}/{len(exp_h)} closed={info.get('healthy_closed')} stalled={len(got_s)}/{len(exp_s)}",
            "cfg": cfg, "violations": viol}


def two_connection_configs(tier: str) -> List[Dict[str, Any]]:
    out = []
    maxlen = 2 if tier == "quick" else 3
    for stalled in ("A", "B"):
        for stall in range(len(STALLS)):
            for stalled_n in (1, 2):
                for L in range(1, maxlen + 1):
                    for combo in itertools.product(range(3), repeat=L):
                        for mode in ("burst", "step"):
                            for first in ("stalled", "healthy"):
                                out.append({"stalled": stalled, "stall": stall, "stalled_n": stalled_n, "seq": list(combo),
                                            "mode": mode, "first": first})
    return out


# ---------------------------------------------------------------------------
# pre-serialised strings: pre-framed, pretty-printed, and with runs of blanks / odd spaces / separators inside values
# ---------------------------------------------------------------------------
RUN_RAW = "vf.checks.c06:run_raw"
ODD_VALUE = {"two": "a  b", "three": "a   b", "tab": "a\tb", "tabs": "\t\t", "nbsp": "a b", "ideographic": "a　b",
             "ls": "a b", "ps": "a b", "nel": "a\u0085b", "mix": "      \u0085　 ", "lead": "  x  "}


def _raw_items():
    plain = {"jsonrpc": "2.0", "id": "raw-1", "method": "tools/call", "params": {"name": "echo", "arguments": {"t": "x y"}}}
    odd = {"jsonrpc": "2.0", "id": "raw-2", "result": dict(ODD_VALUE)}
    compact = lambda d: json.dumps(d, separators=(",", ":"), ensure_ascii=False)
    return [
        ("compact-odd-values", compact(odd)),
        ("framed-lf", compact(plain) + "\n"),
        ("framed-crlf", compact(plain) + "\r\n"),
        ("framed-lf-odd-values", compact(odd) + "\n"),
        ("framed-crlf-odd-values", compact(odd) + "\r\n"),
        ("pretty", json.dumps(plain, indent=2)),
        ("pretty-odd-values", json.dumps(odd, indent=2, ensure_ascii=False)),
        ("pretty-tabs-crlf", json.dumps(odd, indent="\t", ensure_ascii=False).replace("\n", "\r\n")),
        ("default-separators-odd-values", json.dumps(odd, ensure_ascii=False)),
    ]


def run_raw(ctl: explorer.Ctl, cfg: Dict[str, Any]) -> Dict[str, Any]:
    """One pre-serialised string between an optional typed message and a typed sentinel.  Whatever bytes the child gets
    for the string must be ONE JSON document with the value of the string that was handed over (a document that was
    already framed or spread over lines by the caller may arrive over several lines - that is the caller's doing)."""
    from chuk_mcp.transports.stdio.stdio_client import stdio_client

    by_name = {t[0]: t for t in _items()}
    name, text = _raw_items()[cfg["item"]]
    first = by_name["typed-notification"] if cfg["before"] else None
    last = by_name["typed-request-noparams"]
    loop = new_loop(horizon=30)
    q = seams.Quiescence(loop)
    proc = seams.FakeProcess()
    info: Dict[str, Any] = {}

    async def main():
        with seams.patched_open_process(lambda cmd, kw: proc):
            async with stdio_client(seams.stdio_params()) as (read, write):
                for m in ([first[1]()] if first else []) + [text, last[1]()]:
                    await write.send(m)
                    if cfg.get("mode") == "step":
                        await q.settle()
                await q.settle()
                await write.aclose()
                await q.settle()
                info["closed_after"] = proc.stdin.closed

    status, val = loop.run_main(main())
    errors = loop.collect_errors()
    loop.abandon()
    where = f"string={name} after-a-typed-message={bool(first)} mode={cfg.get('mode')}"
    tag = {"part": "pre-serialised-strings", "string": name}
    if status != "ok":
        return {"outcome": status, "violations": [{"sig": {"class": "did-not-finish", **tag}, "msg": f"{where}: {status} {core.clean_repr(val)}"}]}
    viol: List[dict] = []
    data = bytes(proc.stdin.data)
    lines = data.split(b"\n")
    ok_frame = lines[-1] == b"" and len(lines) >= 3
    body = b""
    if ok_frame:
        try:
            head_ok = (not first) or strict_eq(json.loads(lines[0].decode("utf-8")), first[2])
            tail_ok = strict_eq(json.loads(lines[-2].decode("utf-8")), last[2])
        except Exception:
            head_ok = tail_ok = False
        body = b"\n".join(lines[(1 if first else 0):-2])
        if not (head_ok and tail_ok):
            viol.append({"sig": {"class": "neighbour-message-disturbed", **tag}, "msg": f"{where}: the typed messages around the string did not arrive as their own lines: {data[:200]!r}"})
    else:
        viol.append({"sig": {"class": "unterminated-line", **tag}, "msg": f"{where}: stdin {data[-60:]!r}"})
    want = json.loads(text)
    try:
        got = json.loads(body.decode("utf-8"))
        same = strict_eq(got, want)
    except Exception as e:  # noqa: BLE001
        got, same = repr(e), False
    if ok_frame and not same:
        viol.append({"sig": {"class": "content-changed", **tag},
                     "msg": f"{where}: the child received {body[:300]!r}, which is not the document handed over ({text[:120]!r})"})
    if "\n" not in text and "\r" not in text and ok_frame and body.count(b"\n") != 0:
        viol.append({"sig": {"class": "line-count", **tag}, "msg": f"{where}: a one-line string arrived over {body.count(b'\n') + 1} lines"})
    if not info.get("closed_after"):
        viol.append({"sig": {"class": "stdin-not-closed", **tag}, "msg": f"{where}: write stream closed but the child's stdin was not"})
    if errors:
        viol.append({"sig": {"class": "loop-error", **tag}, "msg": f"{errors[:2]}"})
    return {"outcome": f"{name}: lines-for-the-string={body.count(b'\n') + 1 if body else 0} same-value={same}", "violations": viol}


# ---------------------------------------------------------------------------
# the inbound side is busy or has unfinished business while messages go out
# ---------------------------------------------------------------------------
RUN_IN = "vf.checks.c06:run_inbound_state"
PENDING = [None, "kept", "receiver-closed", "answered", "left-over-from-an-earlier-connection"]


def run_inbound_state(ctl: explorer.Ctl, cfg: Dict[str, Any]) -> Dict[str, Any]:
    """backlog: the child has written that many lines which nobody reads (the 100-slot read stream fills up);
    pending: a per-request stream (new_request_stream) is registered and not answered / answered / left over from an
    earlier connection of the same client object.  The outbound oracle is the usual one."""
    from chuk_mcp.transports.stdio.stdio_client import StdioClient

    table = _items()
    seq = [table[i] for i in cfg["seq"]]
    backlog = cfg.get("backlog", 0)
    pending = cfg.get("pending")
    loop = new_loop(horizon=60)
    q = seams.Quiescence(loop)
    procs = [seams.FakeProcess(), seams.FakeProcess()]
    info: Dict[str, Any] = {}
    lines_in = b"".join((('{"jsonrpc":"2.0","method":"notifications/message","params":{"i":%d}}\n' % i) if i % 3 else
                         ('{"jsonrpc":"2.0","id":"srv-%d","result":{"i":%d}}\n' % (i, i))).encode() for i in range(backlog))

    async def main():
        it = iter(procs)
        with seams.patched_open_process(lambda cmd, kw: next(it)):
            client = StdioClient(seams.stdio_params())
            proc = procs[0]
            if pending == "left-over-from-an-earlier-connection":
                async with client:
                    client.new_request_stream("p-7")         # never answered; the caller gave up
                    await q.settle()
                proc = procs[1]
            info["proc"] = proc
            async with client:
                read, write = client.get_streams()
                if pending in ("kept", "receiver-closed", "answered"):
                    rs = client.new_request_stream("p-7")
                    info["rs"] = rs
                    if pending == "receiver-closed":
                        rs.close()
                if backlog:
                    proc.stdout.feed(lines_in)
                    await q.settle()
                if pending == "answered":
                    proc.stdout.feed(b'{"jsonrpc":"2.0","id":"p-7","result":{}}\n')
                    await q.settle()
                for (name, mk, exp) in seq:
                    await write.send(mk())
                    if cfg.get("mode") == "step":
                        await q.settle()
                await q.settle()
                info["closed_before"] = proc.stdin.closed
                info["before_close"] = bytes(proc.stdin.data)
                await write.aclose()
                await q.settle()
                info["closed_after"] = proc.stdin.closed      # in a run without backlog / pending it is closed by now
                info["data"] = bytes(proc.stdin.data)

    status, val = loop.run_main(main())
    errors = loop.collect_errors()
    loop.abandon()
    names = [t[0] for t in seq]
    where = f"items={names} unread-inbound-lines={backlog} per-request-stream={pending} mode={cfg.get('mode')}"
    tag: Dict[str, Any] = {"part": "inbound-state"}
    if backlog:
        tag["unread_inbound"] = "<100" if backlog < 100 else ">=100"
    if pending:
        tag["per_request_stream"] = pending
    if status != "ok":
        return {"outcome": status, "violations": [{"sig": {"class": "did-not-finish", **tag}, "msg": f"{where}: {status} {core.clean_repr(val)}"}]}
    viol: List[dict] = []
    data = info.get("data", b"")
    lines = data.split(b"\n")
    tail, lines = lines[-1], lines[:-1]
    expected = [e for (_, _, e) in seq if e is not None]
    decoded = []
    for raw in lines:
        try:
            decoded.append(json.loads(raw.decode("utf-8")))
        except Exception:
            decoded.append({"__not_json__": True})
    if tail != b"":
        viol.append({"sig": {"class": "unterminated-line", **tag}, "msg": f"{where}: stdin does not end with a newline"})
    if not (len(decoded) == len(expected) and all(strict_eq(a, b) for a, b in zip(decoded, expected))):
        viol.append({"sig": {"class": "line-count" if len(decoded) != len(expected) else "content-changed", **tag,
                             "has_unserialisable": any(e is None for (_, _, e) in seq)},
                     "msg": f"{where}: {len(decoded)} lines on the child's stdin for {len(expected)} serialisable messages"})
    if info.get("closed_before"):
        viol.append({"sig": {"class": "stdin-closed-early", **tag}, "msg": f"{where}: stdin closed before the write stream was closed"})
    if not info.get("closed_after"):
        viol.append({"sig": {"class": "stdin-not-closed", **tag}, "msg": f"{where}: the write stream was closed but the child's stdin was not"})
    if info.get("before_close") != data:
        viol.append({"sig": {"class": "bytes-after-close", **tag}, "msg": f"{where}: bytes were written after the write stream was closed"})
    if errors:
        viol.append({"sig": {"class": "loop-error", **tag}, "msg": f"{errors[:2]}"})
    return {"outcome": f"lines={len(lines)}/expected={len(expected)}/closed={info.get('closed_after')}", "cfg": cfg, "violations": viol}


def inbound_state_configs(tier: str) -> List[Dict[str, Any]]:
    table = _items()
    ix = {t[0]: i for i, t in enumerate(table)}
    valid = [ix["typed-request"], ix["dict-response"], ix["str-json-dumps"]]
    bad = [i for i, t in enumerate(table) if t[2] is None]
    seqs = [[v] for v in valid] + [[b, valid[0]] for b in bad] + [[valid[1], b, valid[0]] for b in bad] + [[b] for b in bad[:3]]
    if tier != "quick":
        seqs += [[b1, b2, valid[2]] for b1 in bad for b2 in bad]
    out = []
    for seq in seqs:
        for mode in ("burst", "step"):
            for backlog in (0, 50, 99, 100, 101, 150):
                out.append({"seq": seq, "mode": mode, "backlog": backlog})
            for pending in PENDING[1:]:
                for backlog in (0, 101):
                    out.append({"seq": seq, "mode": mode, "backlog": backlog, "pending": pending})
    return out


def _family(n: str) -> str:
    return n.split("-")[0]


_PAY: Dict[int, list] = {}


def _payloads(depth: int):
    if depth not in _PAY:
        vals = []
        for v in gen.json_values(depth):
            if isinstance(v, float) and (v != v or v in (float("inf"), float("-inf"))):
                continue
            vals.append(v)
        _PAY[depth] = vals
    return _PAY[depth]


def run(tier: str, only=None) -> core.Result:
    res = core.Result("C06", "fault_enumeration")
    if only and not isinstance(only, (list, tuple, set)):
        only = [x for x in str(only).split(",") if x]
    n = len(_items())
    maxlen = 3 if tier == "quick" else 4
    cfgs = []
    for L in range(1, maxlen + 1):
        for combo in itertools.product(range(n), repeat=L):
            for mode in ("burst", "step"):
                cfgs.append({"seq": list(combo), "mode": mode})
    out = explorer.explore(RUN, cfgs, fidelity=True)
    sched.absorb(res, f"sequences-len<={maxlen}", RUN, out, cfgs)
    sched.debug_pass(res, "sequences", RUN, [c for c in cfgs if len(c["seq"]) <= 2], every=1)
    depth = 2 if tier == "quick" else 3
    pay = _payloads(depth)
    cfgs2 = [{"payload": i, "shape": s, "depth": depth, "mode": "burst"} for i in range(len(pay))
             for s in ("typed", "dict", "str")]
    out = explorer.explore(RUN, cfgs2, fidelity=True)
    sched.absorb(res, f"payload-json-depth{depth}", RUN, out, cfgs2)
    ser = [i for i, t in enumerate(_items()) if t[2] is not None and not t[0].startswith("str-")][:6]
    sj = [{"seq": [[a, va]]} for a in ser for va in ("send_json", "write")]
    sj += [{"seq": [[a, va], [b, vb]]} for a in ser[:4] for b in ser[:4] for va in ("send_json", "write") for vb in ("send_json", "write")]
    out = explorer.explore(RUN_SJ, sj, fidelity=True)
    sched.absorb(res, "send_json-entry-point", RUN_SJ, out, sj, min_outcomes=1)
    xcfgs = [{"size": sz, "count": c, "yields": y, "batch": b} for sz in (10, 70000) for c in (1, 2) for y in (0, 1, 2, 3)
             for b in ("none", "before", "between", "after")]
    out = explorer.explore(RUN_X, xcfgs, fidelity=True)
    sched.absorb(res, "two-writers-on-stdin", RUN_X, out, xcfgs)
    scfgs = slow_configs(tier)
    out = explorer.explore(RUN_SLOW, scfgs, fidelity=True)
    sched.absorb(res, "slow-pipe", RUN_SLOW, out, scfgs)
    # the child's stdout ends while it still reads its stdin
    ser6 = [i for i, t in enumerate(_items()) if t[2] is not None][:6]
    ecfgs = [{"seq": list(c), "mode": m, "stdout_eof_at": at} for L in (1, 2, 3 if tier != "quick" else 2)
             for c in itertools.product(ser6, repeat=L) for at in range(L + 1) for m in ("burst", "step")]
    ecfgs = [c for i, c in enumerate(ecfgs) if c not in ecfgs[:i]]
    out = explorer.explore(RUN, ecfgs, fidelity=True)
    sched.absorb(res, "child-stdout-ends-while-it-still-reads", RUN, out, ecfgs)
    rcfgs = [{"item": i, "before": b, "mode": m} for i in range(len(_raw_items())) for b in (False, True) for m in ("burst", "step")]
    out = explorer.explore(RUN_RAW, rcfgs, fidelity=True)
    sched.absorb(res, "pre-serialised-strings-framed-pretty-odd-blanks", RUN_RAW, out, rcfgs)
    icfgs = inbound_state_configs(tier)
    out = explorer.explore(RUN_IN, icfgs, fidelity=True)
    sched.absorb(res, "inbound-backlog-and-per-request-streams", RUN_IN, out, icfgs)
    ucfgs = unserialisable_run_configs(tier)
    out = explorer.explore(RUN, ucfgs, fidelity=True)
    sched.absorb(res, "runs-of-unserialisable-items", RUN, out, ucfgs)
    pcfgs = pipe_trouble_configs(tier)
    out = explorer.explore(RUN_PIPE, pcfgs, fidelity=True)
    sched.absorb(res, "pipe-fails-for-a-while", RUN_PIPE, out, pcfgs)
    tcfgs = two_connection_configs(tier)
    out = explorer.explore(RUN_TWO, tcfgs, fidelity=True)
    sched.absorb(res, "two-connections-alive", RUN_TWO, out, tcfgs)
    if not only or "backends" in only:
        from .. import c06_backend

        c06_backend.add_part(res, tier)
    res.coverage["exhaustive"] = True
    res.coverage["rule"] = (
        f"all sequences of <= {maxlen} outbound items over {n} item kinds (typed request/notification/response/error, "
        "unified message, dicts, pre-serialised compact strings from json.dumps and fast_json.dumps, three unserialisable "
        "kinds at every position) x {burst, settle-after-each}; plus every JSON value of the bounded grammar as a "
        "params/result payload in typed, dict and string form; plus the outbound writer racing the reader's batch-rejection "
        "error line on the child's stdin (message size small / > 64 KiB x 1-2 messages x 0-3 scheduling points per write x "
        "batch arriving before / between / after the writes); plus a full pipe: all sequences of <= "
        f"{3 if tier == 'quick' else 4} messages over typed request / typed notification / dict / pre-serialised string x the "
        "position of the message whose write takes the bytes and then keeps the writer waiting x wait in {1, 4.9, 5.1, 11 s, "
        "forever} (virtual) x {burst, settle-after-each}; plus the child's stdout reaching end-of-file (child still alive) before "
        "any / between / after the messages of sequences of <= 2 (thorough 3) serialisable items; plus pre-serialised strings "
        "that are pre-framed (LF, CRLF), pretty-printed (spaces, tabs + CRLF) or carry runs of blanks, tabs, NBSP, U+3000, "
        "U+2028/2029/0085 raw inside string values, alone and after a typed message; plus the inbound side's state while messages go out: 0 / 50 / 99 / 100 / 101 / 150 "
        "inbound lines that nobody reads, and a per-request stream (new_request_stream) that is kept / whose receiver is "
        "closed / that is answered / that is left over from an earlier connection of the same client object, x sequences of "
        "valid and unserialisable items (request-shaped ones among them) x {burst, settle-after-each}; plus runs of k = 1.."
        f"{12 if tier == 'quick' else 40} unserialisable items of one kind (each of the kinds) or of the kinds in rotation, before / "
        "between / after valid messages; plus a pipe whose write raises (BrokenResourceError, OSError, RuntimeError) for k "
        "consecutive writes starting at the first or second message and works again afterwards; plus two connections alive "
        "on one loop, one of which (either) has a child that blocks / takes one write and drains after 1 s, 11 s or never, "
        "while the other sends <= "
        f"{2 if tier == 'quick' else 3} messages and closes its write stream, before or after the stall began; plus, in fresh interpreters of the four backend configurations "
        "(pydantic or fallback models x orjson or stdlib json), a pretty-printing call made BEFORE the connection "
        "({none, model_dump_json(indent=2), fast_json.dumps(x, indent=2)}) followed by three write-stream sequences; "
        "distinct = distinct observation digests"
    )
    res.assumptions = [
        "pre-serialised strings are single compact JSON texts (pretty-printed input is outside the statement)",
        "raw U+2028/U+0085 inside a line are not line breaks for a byte-level NDJSON reader",
        "NaN/Infinity are not JSON values and are outside the payload grammar",
        "full pipe: the scripted stdin records the bytes when send() is called and then suspends the caller (write + drain); a "
        "pipe that takes only part of a line is not modelled; when the pipe never drains only 'no duplicates, order kept, "
        "everything up to the slow message present' is required",
        "pre-framed or pretty-printed strings: the library may pass them through as they are (several lines, the caller's "
        "doing); judged is that the bytes between the neighbouring messages are one JSON document with the same value, and "
        "that a string without line breaks stays one line",
        "the child's stdout ending is modelled as end-of-file on the scripted stdout while the process has not exited",
        "inbound state: the unread inbound lines are notifications and responses written before the first outbound message; "
        "the outbound side is judged at the instant after the write stream was closed and the loop went idle, as in a run "
        "with a quiet child",
        "pipe trouble: a message whose write raised may be lost; required are: every other message once and in order, every "
        "message attempted, stdin closed by (and not before) the close of the write stream",
        "two connections: the healthy connection is judged at the instant its write stream was closed (as in a solo run), "
        "the stalled one after 60 virtual seconds",
        "backend part: each (configuration, pre-step) runs in its own fresh interpreter, so nothing depends on what other "
        "cases did before",
    ]
    return res
