"""C15 - client-observable behaviour does not depend on the carrier.

Engine: E-SCHED, differential.  One scripted conversation is played by four
server adaptors (stdio lines, HTTP JSON body, HTTP SSE body, legacy SSE) through
the four real client transports on the virtual loop, driven by the library's
own request helpers.  Normalised transcripts and helper outcomes must be equal
across carriers and equal to what the script sent.
"""
from __future__ import annotations

import itertools
import json
from typing import Any, Dict, List, Optional

import httpx

from .. import core, explorer, sched, seams
from ..jsonrpc_ref import classify, dump_msg, strict_eq
from ..seams_http import ScriptedStream, patched_httpx
from ..vloop import new_loop

RUN = "vf.checks.c15:run_one"
TEXTS = ["plain", "\u00e9\u20ac\U0001F600", "line\nbreak\u2028\u0085\ttab", "nul\x00q\"b\\s",
         # payload text that looks like an endpoint announcement to a careless reader of an untyped event
         "see /messages/ and /mcp at http://x/mcp?a=1"]
PATHY = 4
HELPERS = ["initialize", "tools/list", "tools/call", "resources/read", "prompts/get", "ping"]
# requests written to the write stream directly with a caller-chosen id (the helpers only ever use uuid strings)
RAW_IDS = {"raw-id-0": 0, "raw-id-7": 7, "raw-id-neg": -1, "raw-id-digits": "7", "raw-id-empty": "", "raw-id-big": 2**53 + 1}
ERRORS = [-32601, -32000, -32602]
CARRIERS = ["stdio", "http-json", "http-sse", "legacy-sse", "legacy-sse-event-first"]
# the same legacy carrier with UNTYPED events (no "event:" field: the default type "message" applies); run for the
# conversations flagged "untyped" (all single steps, everything that carries an endpoint-looking text)
UNTYPED_CARRIERS = ["legacy-sse-untyped", "legacy-sse-untyped-event-first",
                    # Streamable HTTP whose SSE bodies hold untyped, properly terminated message events followed by the
                    # unterminated beginning of a further event (which the grammar discards): nothing of one body may
                    # reach the reading of the next
                    "http-sse-trailing-partial-event"]


def result_for(helper: str, text: str) -> Dict[str, Any]:
    if helper == "initialize":
        return {"protocolVersion": "2025-06-18", "capabilities": {"tools": {}},
                "serverInfo": {"name": "srv " + text, "version": "1"}, "instructions": text}
    if helper == "tools/list":
        return {"tools": [{"name": "t", "description": text, "inputSchema": {"type": "object", "properties": {}}}],
                "_meta": {"k": None, "t": text}}
    if helper == "tools/call":
        return {"content": [{"type": "text", "text": text}], "isError": False, "_meta": {"k": None}}
    if helper == "resources/read":
        return {"contents": [{"uri": "file:///x", "text": text, "mimeType": "text/plain"}]}
    if helper in RAW_IDS:
        return {"tools": [], "echo": text}
    if helper == "prompts/get":
        return {"description": text, "messages": [{"role": "user", "content": {"type": "text", "text": text}}]}
    return {}


def script_messages(step: Dict[str, Any], rid: Any) -> List[dict]:
    out = []
    for k in range(step["notes"]):
        note_text = TEXTS[PATHY] if step["text"] == PATHY else TEXTS[(k + 1) % 4]
        out.append({"jsonrpc": "2.0", "method": "notifications/message",
                    "params": {"level": "info", "data": f"n{k} " + note_text, "x": None}})
    if step["answer"] == "result":
        out.append({"jsonrpc": "2.0", "id": rid, "result": result_for(step["helper"], TEXTS[step["text"]])})
    else:
        out.append({"jsonrpc": "2.0", "id": rid,
                    "error": {"code": step["code"], "message": "failed: " + TEXTS[step["text"]]}})
    return out


class Script:
    def __init__(self, steps, init_by_method: bool = False):
        self.steps = steps
        self.i = 1 if init_by_method else 0
        self.init_by_method = init_by_method
        self.seen: List[dict] = []
        self.assigned: List[Any] = []  # step index answered for each id-bearing request, in order

    def answer(self, req: Any) -> List[dict]:
        self.seen.append(req)
        if not isinstance(req, dict) or "id" not in req or "method" not in req:
            return []
        if self.init_by_method and req["method"] == "initialize":
            # every initialize request (a client that failed to initialize tries again) gets the init step's answer
            self.assigned.append(0)
            return script_messages(self.steps[0], req["id"])
        if self.i >= len(self.steps):
            self.assigned.append(None)
            return [{"jsonrpc": "2.0", "id": req["id"], "error": {"code": -32603, "message": "script exhausted"}}]
        step = self.steps[self.i]
        self.assigned.append(self.i)
        self.i += 1
        return script_messages(step, req["id"])


class Rec:
    def __init__(self, inner, log):
        self._inner, self._log = inner, log

    async def receive(self):
        m = await self._inner.receive()
        self._log.append(m)
        return m

    def __getattr__(self, n):
        return getattr(self._inner, n)


async def drive(read, write, steps, log, q):
    """Run the conversation with the library's helpers; returns outcomes."""
    from chuk_mcp.protocol.messages.initialize.send_messages import send_initialize
    from chuk_mcp.protocol.messages.ping.send_messages import send_ping
    from chuk_mcp.protocol.messages.prompts.send_messages import send_prompts_get
    from chuk_mcp.protocol.messages.resources.send_messages import send_resources_read
    from chuk_mcp.protocol.messages.tools.send_messages import send_tools_call, send_tools_list

    r = Rec(read, log)
    outcomes = []
    for step in steps:
        h = step["helper"]
        try:
            if h in RAW_IDS:
                from chuk_mcp.protocol.messages.json_rpc_message import create_request
                import anyio as _anyio

                rid = RAW_IDS[h]
                await write.send(create_request("tools/list", {"raw": True}, id=rid))
                got_own = None
                with _anyio.move_on_after(2.0):
                    while True:
                        m = await r.receive()
                        if getattr(m, "method", None) is None and type(getattr(m, "id", None)) is type(rid) \
                                and getattr(m, "id", None) == rid:
                            got_own = m
                            break
                v = None if got_own is None else got_own.model_dump(exclude_none=True)
                if v is None:
                    raise TimeoutError("no answer with the request's id (value and type) within 2 s")
                v = {k: v[k] for k in ("result", "error") if k in v}
            elif h == "initialize":
                v = await send_initialize(r, write, timeout=2.0)
            elif h == "tools/list":
                v = await send_tools_list(r, write, timeout=2.0)
            elif h == "tools/call":
                v = await send_tools_call(r, write, "t", {"a": TEXTS[1], "n": None}, timeout=2.0)
            elif h == "resources/read":
                v = await send_resources_read(r, write, "file:///x", timeout=2.0)
            elif h == "prompts/get":
                v = await send_prompts_get(r, write, "p", {"q": TEXTS[2]}, timeout=2.0)
            else:
                v = await send_ping(r, write, timeout=2.0)
            if hasattr(v, "model_dump"):
                v = v.model_dump(by_alias=True, exclude_none=True)
            outcomes.append(["ok", sched.jsonable(v)])
        except BaseException as e:  # noqa: BLE001
            outcomes.append(["exc", type(e).__name__, getattr(e, "code", None), str(e)[:120]])
        await q.settle()
    return outcomes


async def drive_client(transport, steps, log, q):
    """The same conversation through the high-level MCPClient over a Transport object
    (the first call initializes implicitly; the script's first step answers that)."""
    from chuk_mcp.client.client import MCPClient

    outcomes = []
    async with transport:
        client = MCPClient(transport)
        # record what the client's helpers receive
        orig_get = transport.get_streams

        async def get_streams():
            r, w = await orig_get()
            return Rec(r, log), w

        transport.get_streams = get_streams
        for step in steps[1:]:
            h = step["helper"]
            try:
                if h == "tools/list":
                    v = await client.list_tools()
                elif h == "tools/call":
                    v = await client.call_tool("t", {"a": TEXTS[1], "n": None})
                elif h == "resources/read":
                    v = await client.read_resource("file:///x")
                elif h == "prompts/get":
                    v = await client.get_prompt("p", {"q": TEXTS[2]})
                else:
                    raise KeyError(h)
                if isinstance(v, list):
                    v = [x.model_dump(by_alias=True, exclude_none=True) if hasattr(x, "model_dump") else x for x in v]
                elif hasattr(v, "model_dump"):
                    v = v.model_dump(by_alias=True, exclude_none=True)
                outcomes.append(["ok", sched.jsonable(v)])
            except BaseException as e:  # noqa: BLE001
                outcomes.append(["exc", type(e).__name__, getattr(e, "code", None), str(e)[:120]])
            await q.settle()
        outcomes.append(["state", bool(client.initialized), getattr(client.server_info, "name", None)])
    return outcomes


# other ways of obtaining each carrier ("carrier@entry"): the factories and migration helpers of the transports package.
# They must give the very same conversation as the direct context manager.
ENTRIES = {
    "stdio": ["create_client", "create_transport"],
    "http-json": ["create_client", "create_transport", "try_http_with_sse_fallback:server-speaks-http",
                  "try_http_with_sse_fallback:server-speaks-both"],
    "http-sse": ["create_client", "create_transport", "try_http_with_sse_fallback:server-speaks-http"],
    "legacy-sse": ["create_client", "create_transport", "try_sse_with_fallback", "try_http_with_sse_fallback:server-speaks-sse-only",
                   "try_http_with_sse_fallback:server-speaks-neither-way-of-detection"],
}
# the http-json carrier with Content-Type parameters / a leading BOM ("http-json@ct:<n>"): JSON is UTF-8 whatever the header's
# charset parameter says (RFC 8259)
JSON_CONTENT_TYPES = ["application/json; charset=utf-8", "application/json; charset=UTF-8", "application/json; charset=ISO-8859-1",
                      "application/json; charset=us-ascii", "application/json; charset=bogus", "application/json;charset=\"utf-8\"",
                      "application/json+BOM", "application/json; charset=utf-8+BOM"]
DETECT_ID = "transport-detect"      # the id detect_transport_type uses for its probe request


class _via_transport:
    """async with transport -> its (read, write) streams."""

    def __init__(self, transport):
        self.t = transport

    async def __aenter__(self):
        await self.t.__aenter__()
        return await self.t.get_streams()

    async def __aexit__(self, *a):
        return await self.t.__aexit__(*a)


def run_carrier(carrier: str, steps: List[dict], driver: str = "helpers") -> Dict[str, Any]:
    carrier, _, entry = carrier.partition("@")
    loop = new_loop(horizon=400)
    q = seams.Quiescence(loop)
    script = Script(steps, init_by_method=(driver == "mcpclient"))
    log: List[Any] = []
    info: Dict[str, Any] = {}

    async def main():
        with sched.patched_uuid():
            if carrier == "stdio":
                from chuk_mcp.transports.stdio.stdio_client import stdio_client

                proc = seams.FakeProcess()
                buf = {"b": b""}

                def on_stdin(data: bytes):
                    buf["b"] += data
                    while b"\n" in buf["b"]:
                        line, buf["b"] = buf["b"].split(b"\n", 1)
                        if not line.strip():
                            continue
                        for w in script.answer(json.loads(line.decode("utf-8"))):
                            proc.stdout.feed((json.dumps(w, ensure_ascii=False) + "\n").encode("utf-8"))

                proc.on_stdin = on_stdin
                with seams.patched_open_process(lambda cmd, kw: proc):
                    if driver == "mcpclient":
                        from chuk_mcp.transports.stdio.transport import StdioTransport

                        info["outcomes"] = await drive_client(StdioTransport(seams.stdio_params()), steps, log, q)
                    else:
                        if entry == "create_client":
                            from chuk_mcp.transports import create_client

                            cm = create_client("stdio", seams.stdio_params())
                        elif entry == "create_transport":
                            from chuk_mcp.transports import create_transport

                            cm = _via_transport(create_transport("stdio", seams.stdio_params()))
                        else:
                            cm = stdio_client(seams.stdio_params())
                        async with cm as (read, write):
                            info["outcomes"] = await drive(read, write, steps, log, q)
            elif carrier in ("http-json", "http-sse", "http-sse-trailing-partial-event"):
                from chuk_mcp.transports.http.http_client import http_client
                from chuk_mcp.transports.http.parameters import StreamableHTTPParameters

                def handler(rec):
                    sent = rec.json()
                    if rec.method == "GET":
                        # only detect_transport_type sends GETs here: does an event stream live next to the endpoint?
                        info["detect_gets"] = info.get("detect_gets", 0) + 1
                        if entry.endswith("server-speaks-both"):
                            return httpx.Response(200, headers={"content-type": "text/event-stream"}, content=b": hello\n\n")
                        return httpx.Response(404, content=b"no event stream here")
                    if isinstance(sent, dict) and sent.get("id") == DETECT_ID:
                        info["detect_posts"] = info.get("detect_posts", 0) + 1
                        return httpx.Response(200, headers={"content-type": "application/json"},
                                              content=json.dumps({"jsonrpc": "2.0", "id": DETECT_ID, "result": {}}).encode())
                    msgs = script.answer(sent)
                    if not msgs:
                        return httpx.Response(202)
                    if carrier == "http-json":
                        body = json.dumps(msgs[0] if len(msgs) == 1 else msgs, ensure_ascii=False).encode("utf-8")
                        ctype = "application/json"
                        if entry.startswith("ct:"):
                            ctype = JSON_CONTENT_TYPES[int(entry[3:])]
                            if ctype.endswith("+BOM"):
                                ctype, body = ctype[:-4], b"\xef\xbb\xbf" + body
                        return httpx.Response(200, headers={"content-type": ctype}, content=body)
                    if carrier == "http-sse-trailing-partial-event":
                        body = "".join("data: " + json.dumps(m, ensure_ascii=False) + "\n\n" for m in msgs) + \
                            'event: ping\ndata: {"jsonrpc"'
                    else:
                        body = "".join("event: message\ndata: " + json.dumps(m, ensure_ascii=False) + "\n\n" for m in msgs)
                    return httpx.Response(200, headers={"content-type": "text/event-stream"}, content=body.encode("utf-8"))

                with patched_httpx(handler):
                    if driver == "mcpclient":
                        from chuk_mcp.transports.http.transport import StreamableHTTPTransport

                        info["outcomes"] = await drive_client(
                            StreamableHTTPTransport(StreamableHTTPParameters(url="http://mcp.test/mcp", timeout=5.0)), steps, log, q)
                    else:
                        url = "http://mcp.test/mcp"
                        if entry and not entry.startswith("ct:"):
                            from chuk_mcp.transports import create_client, create_transport
                            from chuk_mcp.transports.http.http_client import create_http_parameters_from_url, try_http_with_sse_fallback

                            p = create_http_parameters_from_url(url, timeout=5.0)
                            if entry == "create_client":
                                cm = create_client("http", p)
                            elif entry == "create_transport":
                                cm = _via_transport(create_transport("http", p))
                            else:
                                cm = await try_http_with_sse_fallback(url, timeout=5.0)
                                info["selected"] = "http"
                        else:
                            cm = http_client(StreamableHTTPParameters(url=url, timeout=5.0))
                        async with cm as (read, write):
                            info["outcomes"] = await drive(read, write, steps, log, q)
            else:
                from chuk_mcp.transports.sse.parameters import SSEParameters
                from chuk_mcp.transports.sse.sse_client import sse_client

                stream = ScriptedStream()
                stream.feed(b"event: endpoint\ndata: /messages/?session_id=abc\n\n")

                async def handler(rec):
                    if rec.method == "GET":
                        if "cache-control" not in rec.headers:
                            # a probe of detect_transport_type (the transport's own GET asks for no-cache): it reads the whole
                            # body, so it gets a finite one
                            info["detect_gets"] = info.get("detect_gets", 0) + 1
                            if entry.endswith("server-speaks-sse-only"):
                                return httpx.Response(200, headers={"content-type": "text/event-stream"}, content=b": hello\n\n")
                            return httpx.Response(404, content=b"nothing")
                        return httpx.Response(200, headers={"content-type": "text/event-stream"}, stream=stream)
                    sent = rec.json()
                    if isinstance(sent, dict) and sent.get("id") == DETECT_ID:
                        # this server does not speak Streamable HTTP
                        info["detect_posts"] = info.get("detect_posts", 0) + 1
                        return httpx.Response(405, content=b"method not allowed")
                    head = "" if "untyped" in carrier else "event: message\n"
                    for m in script.answer(rec.json()):
                        stream.feed((head + "data: " + json.dumps(m, ensure_ascii=False) + "\n\n").encode("utf-8"))
                    if carrier.endswith("event-first"):
                        # let the event stream reader see the events before the POST's 202 comes back
                        import asyncio as _a
                        for _ in range(8):
                            await _a.sleep(0)
                    return httpx.Response(202)

                with patched_httpx(handler):
                    if driver == "mcpclient":
                        from chuk_mcp.transports.sse.transport import SSETransport

                        info["outcomes"] = await drive_client(SSETransport(SSEParameters(url="http://sse.test", timeout=5.0)),
                                                              steps, log, q)
                    else:
                        url = "http://sse.test"
                        if entry:
                            from chuk_mcp.transports import create_client, create_transport
                            from chuk_mcp.transports.http.http_client import try_http_with_sse_fallback
                            from chuk_mcp.transports.sse.sse_client import create_sse_parameters_from_url, try_sse_with_fallback

                            p = create_sse_parameters_from_url(url, timeout=5.0)
                            if entry == "create_client":
                                cm = create_client("sse", p)
                            elif entry == "create_transport":
                                cm = _via_transport(create_transport("sse", p))
                            elif entry == "try_sse_with_fallback":
                                cm = await try_sse_with_fallback(url, timeout=5.0)
                            else:
                                cm = await try_http_with_sse_fallback(url + "/mcp", timeout=5.0)
                                info["selected"] = "sse"
                        else:
                            cm = sse_client(SSEParameters(url=url, timeout=5.0))
                        async with cm as (read, write):
                            info["outcomes"] = await drive(read, write, steps, log, q)

    status, val = loop.run_main(main())
    errors = loop.collect_errors()
    loop.abandon()
    # normalise: ids of the conversation's requests -> their index
    req_ids = [r.get("id") for r in script.seen if isinstance(r, dict) and "id" in r and "method" in r]

    answered: Dict[str, int] = {}

    def norm(m):
        d = dump_msg(m)
        if not isinstance(d, dict):
            return {"kind": "batch"}
        d = {k: v for k, v in d.items() if v is not None or k == "result"}
        kind = classify(d)[0]
        out = {"kind": kind}
        if "id" in d:
            # the k-th response bearing id X belongs to the k-th request that used id X (value and JSON type)
            idx = [i for i, r in enumerate(req_ids) if type(r) is type(d["id"]) and r == d["id"]]
            key = repr(d["id"])
            k = answered.get(key, 0)
            if idx and "method" not in d:
                answered[key] = k + 1
                out["id"] = ["req", idx[min(k, len(idx) - 1)]]
            elif idx:
                out["id"] = ["req", idx[0]]
            else:
                out["id"] = ["other", repr(d["id"])]
        for k2 in ("method", "params", "result", "error"):
            if k2 in d:
                out[k2] = d[k2]
        return out

    return {"status": status, "error": core.clean_repr(val, 200) if status != "ok" else None,
            "transcript": [norm(m) for m in log], "outcomes": info.get("outcomes"),
            "requests": [{"method": r.get("method"), "params": r.get("params"), "has_id": "id" in r}
                         for r in script.seen if isinstance(r, dict)],
            "assigned": list(script.assigned),
            "detect": [info.get("detect_posts", 0), info.get("detect_gets", 0)] if entry.startswith("try_http") else None,
            "loop_errors": errors[:2]}


def expected_transcript(steps, assigned=None) -> List[dict]:
    """What the script sent, request by request (assigned[i] = index of the step that answered request i)."""
    out = []
    order = list(enumerate(range(len(steps)))) if assigned is None else list(enumerate(assigned))
    for i, si in order:
        msgs = [{"jsonrpc": "2.0", "id": "RID", "error": {"code": -32603, "message": "script exhausted"}}] if si is None \
            else script_messages(steps[si], "RID")
        for m in msgs:
            d = {"kind": classify(m)[0]}
            if "id" in m:
                d["id"] = ["req", i]
            for k in ("method", "params", "result", "error"):
                if k in m:
                    d[k] = m[k]
            out.append(d)
    return out


def run_one(ctl: explorer.Ctl, cfg: Dict[str, Any]) -> Dict[str, Any]:
    steps = cfg["steps"]
    carriers = [c for c in CARRIERS if not (c == "http-json" and any(s["notes"] for s in steps))]
    if cfg.get("untyped"):
        carriers += UNTYPED_CARRIERS
    if cfg.get("untyped") and "http-json" in carriers:
        carriers += [f"http-json@ct:{i}" for i in range(len(JSON_CONTENT_TYPES))]
    if cfg.get("entries"):
        carriers += [f"{c}@{e}" for c in list(carriers) for e in ENTRIES.get(c, [])]
    results = {c: run_carrier(c, steps, cfg.get("driver", "helpers")) for c in carriers}
    viol: List[dict] = []

    def where(a, b):
        for i, (x, y) in enumerate(zip(a, b)):
            if not strict_eq(x, y):
                keys = [k for k in set(x) | set(y) if not strict_eq(x.get(k), y.get(k))]
                return f"item {i} differs in {sorted(keys)}: {x} vs {y}"
        return f"lengths {len(a)} vs {len(b)}"

    refused = []
    for c, r in results.items():
        if r["status"] != "ok" and "@create_" in c and "transport not available" in str(r["error"]):
            # a factory that refuses a transport whose dependency is installed
            refused.append(c)
            viol.append({"sig": {"class": "factory-refuses-an-installed-transport", "entry": c.split("@")[1],
                                 "transport": {"http-json": "http", "http-sse": "http", "legacy-sse": "sse"}.get(c.split("@")[0], "stdio")},
                         "msg": f"steps={steps} carrier={c}: {r['error']}"})
            continue
        if r["status"] != "ok":
            viol.append({"sig": {"class": "carrier-did-not-finish", "carrier": c},
                         "msg": f"steps={steps} carrier={c}: {r['status']} {r['error']}"})
            continue
        exp = expected_transcript(steps, r.get("assigned"))
        if not (len(r["transcript"]) == len(exp) and all(strict_eq(a, b) for a, b in zip(r["transcript"], exp))):
            aspect = "order-or-count" if sorted(json.dumps(x, sort_keys=True) for x in r["transcript"]) == \
                sorted(json.dumps(x, sort_keys=True) for x in exp) or len(r["transcript"]) != len(exp) else "content"
            viol.append({"sig": {"class": "transcript-differs-from-script", "carrier": c, "aspect": aspect},
                         "msg": f"steps={steps} carrier={c}: {where(r['transcript'], exp)}"})
        if r["loop_errors"]:
            viol.append({"sig": {"class": "loop-error", "carrier": c}, "msg": f"{r['loop_errors']}"})
    for c, r in results.items():
        if r.get("detect") is not None and r["status"] == "ok" and r["detect"][0] == 0:
            raise core.HarnessError(f"seam missing: {c} never sent its transport-detection probe")
    ok = [c for c in results if results[c]["status"] == "ok"]
    for a, b in itertools.combinations(ok, 2):
        ra, rb = results[a], results[b]
        if not strict_eq(ra["outcomes"], rb["outcomes"]):
            viol.append({"sig": {"class": "helper-outcomes-differ", "carriers": [a, b]},
                         "msg": f"steps={steps}: {a} -> {ra['outcomes']} ; {b} -> {rb['outcomes']}"})
        if not strict_eq(ra["requests"], rb["requests"]):
            viol.append({"sig": {"class": "requests-differ", "carriers": [a, b]},
                         "msg": f"steps={steps}: server saw {ra['requests']} over {a}, {rb['requests']} over {b}"})
    first = results[ok[0]] if ok else {}
    outs = first.get("outcomes") or []
    return {"outcome": "/".join(o[0] + (":" + str(o[2]) if o[0] == "exc" else "") for o in outs) + f"|{len(carriers)}c",
            "outcomes": outs, "steps": steps, "violations": viol,
            "counters": {"carrier-runs": len(carriers), "factory-refusals": len(refused)}}


def steps_full() -> List[Dict[str, Any]]:
    out = []
    for h in list(RAW_IDS):
        for notes in (0, 1):
            out.append({"helper": h, "notes": notes, "answer": "result", "text": 1})
            out.append({"helper": h, "notes": notes, "answer": "error", "code": -32000, "text": 1})
    for h in HELPERS:
        for notes in (0, 1, 3):
            for t in range(4):
                out.append({"helper": h, "notes": notes, "answer": "result", "text": t})
            for code in ERRORS:
                out.append({"helper": h, "notes": notes, "answer": "error", "code": code, "text": 1})
    return out


def steps_pathy() -> List[Dict[str, Any]]:
    """Steps whose result / error message / notification params carry the endpoint-looking text."""
    out = [{"helper": "raw-id-0", "notes": 1, "answer": "result", "text": PATHY}]
    for h in HELPERS:
        for notes in (0, 1, 3):
            out.append({"helper": h, "notes": notes, "answer": "result", "text": PATHY})
            out.append({"helper": h, "notes": notes, "answer": "error", "code": -32000, "text": PATHY})
    return out


def steps_reduced() -> List[Dict[str, Any]]:
    out = [{"helper": "raw-id-0", "notes": 0, "answer": "result", "text": 1},
           {"helper": "raw-id-digits", "notes": 2, "answer": "error", "code": -32000, "text": 1}]
    for h in HELPERS:
        for notes in (0, 2):
            out.append({"helper": h, "notes": notes, "answer": "result", "text": 2})
            out.append({"helper": h, "notes": notes, "answer": "error", "code": -32000, "text": 1})
    return out


def run(tier: str, only=None) -> core.Result:
    res = core.Result("C15", "exploration")
    full, red = steps_full(), steps_reduced()
    pathy = steps_pathy()
    cfgs = [{"steps": [s], "untyped": True} for s in full + pathy]
    cfgs += [{"steps": [a, b]} for a in full for b in full]
    cfgs += [{"steps": [a, b], "untyped": True} for a in pathy for b in pathy]
    cfgs += [{"steps": [a, b], "untyped": True} for a in pathy for b in red]
    cfgs += [{"steps": [a, b], "untyped": True} for a in red for b in pathy]
    # the factories / migration helpers as additional ways of obtaining every carrier
    inits = [s for s in red if s["helper"] == "initialize"]
    ecfgs = [{"steps": [s], "entries": True} for s in red] + [{"steps": [a, b], "entries": True} for a in inits for b in red]
    if tier == "thorough":
        cfgs += [{"steps": [a, b, c]} for a in red for b in red for c in red]
    out = explorer.explore(RUN, cfgs, fidelity=True)
    sched.absorb(res, "conversations", RUN, out, cfgs)
    # the same through the high-level MCPClient over the Transport classes (implicit initialize first)
    init = {"helper": "initialize", "notes": 0, "answer": "result", "text": 1}
    cl = [s for s in full if s["helper"] in ("tools/list", "tools/call", "resources/read", "prompts/get")]
    clr = [s for s in red if s["helper"] in ("tools/list", "tools/call", "resources/read", "prompts/get")]
    ccfgs = [{"driver": "mcpclient", "steps": [dict(init, notes=n, text=t), a]} for a in cl for n in (0, 1) for t in (1, 2)]
    ccfgs += [{"driver": "mcpclient", "steps": [init, a, b]} for a in clr for b in clr]
    ccfgs += [{"driver": "mcpclient", "steps": [dict(init, answer="error", code=c), a]} for a in clr for c in ERRORS]
    out = explorer.explore(RUN, ccfgs, fidelity=True)
    sched.absorb(res, "mcpclient-over-transports", RUN, out, ccfgs)
    sched.debug_pass(res, "conversations", RUN, [c for c in cfgs if len(c["steps"]) == 1], every=1)
    out = explorer.explore(RUN, ecfgs, fidelity=True)
    sched.absorb(res, "carriers-obtained-through-factories-and-fallback-helpers", RUN, out, ecfgs)
    res.coverage["entry_point_conversations"] = len(ecfgs)
    res.coverage["entry_points"] = ENTRIES
    res.coverage["carrier_runs"] = res.coverage["evaluations"] * len(CARRIERS) + \
        len([c for c in cfgs if c.get("untyped")]) * len(UNTYPED_CARRIERS)
    res.coverage["exhaustive"] = True
    res.coverage["rule"] = (
        f"conversation grammar: step = helper in {HELPERS} x 0/1/3 server notifications before the answer x (result with one of "
        f"4 Unicode texts and nested nulls | error code in {ERRORS}); all single-step conversations over the full step set "
        "(126) and all 2-step conversations over it (thorough: plus all 3-step conversations over a reduced set of 24 steps); each conversation run through stdio, Streamable HTTP with SSE body, legacy SSE and (when it has no notifications) "
        "Streamable HTTP with JSON body; legacy SSE in both orders of (202 acknowledgement, answer event); plus 37 steps whose result, "
        "error message and notification params carry an endpoint-looking text (/messages/, /mcp, http://x/mcp?a=1): alone, paired with "
        "each other and paired (both orders) with the reduced step set; those and all single-step conversations additionally over "
        "legacy SSE with UNTYPED events (both orders) and over Streamable HTTP whose SSE bodies end in the unterminated beginning of a "
        "further event, and (when they hold no notifications) over Streamable HTTP JSON bodies labelled with Content-Type "
        "parameters (charset utf-8 / UTF-8 / ISO-8859-1 / us-ascii / bogus / quoted) and with a leading BOM; a reduced conversation set (26 single steps, 4 x 26 pairs starting with "
        "initialize) additionally with every carrier obtained through transports.create_client, transports.create_transport, "
        "create_http_parameters_from_url / create_sse_parameters_from_url, try_sse_with_fallback and try_http_with_sse_fallback "
        "(the scripted server answers detect_transport_type's probes as an HTTP-only, HTTP+SSE, SSE-only or undetectable server, "
        "which decides the carrier selected): same transcript and outcomes as through the direct context managers; "
        "distinct = distinct observation digests"
    )
    res.assumptions = [
        "each carrier is fed its canonical encoding in whole-line / whole-event chunks (framing and encoding variants are decided by C05, C11, C12)",
        "HTTP with a JSON body cannot carry notifications before a response and is compared on conversations without them",
        "ids are compared as 'the id of request i' (value and JSON type), since each run draws its own ids",
        "a JSON body is UTF-8 whatever charset parameter its Content-Type names; a leading BOM is ignored (RFC 8259 allows a parser "
        "to do so; the current transport does)",
    ]
    return res
