"""C05 - stdio inbound framing is independent of chunking.

Engine: E-SCHED (virtual loop) with the chunk cut as the enumerated fault.
Driver: the public StdioClient context over a scripted process
(anyio.open_process seam); its stdout yields the byte stream in the chunks
chosen by the enumeration.  Oracle: split the whole byte string at LF, keep the
lines that are JSON and pass the independent envelope validator.
"""
from __future__ import annotations

import itertools
import json
from typing import Any, Dict, List

from .. import core, explorer, sched, seams
from ..jsonrpc_ref import classify, dump_msg, strict_eq
from ..vloop import new_loop

RUN = "vf.checks.c05:run_one"

J = '{"jsonrpc":"2.0",'
# (name, text) - raw characters U+0085 U+2028 U+2029 are legal inside JSON strings
LINES_LONG = [
    ("resp-ascii", J + '"id":1,"result":{"t":"abc"}}'),
    ("resp-utf8", J + '"id":"r\u00e9","result":{"t":"\u00e9\u20ac\U0001F600 \u0085 \u2028 \u2029 \\n \\u2028"}}'),
    ("resp-id0", J + '"id":0,"result":{"z":0}}'),
    ("resp-id-empty", J + '"id":"","result":{"e":""}}'),
    ("err", J + '"id":2,"error":{"code":-32000,"message":"ü "}}'),
    ("notif", J + '"method":"notifications/message","params":{"data":"\u00fc\u2028\U0001F600"}}'),
    ("req", J + '"id":"s-1","method":"ping"}'),
    ("junk", "not json {"),
    ("junk-utf8", "ü junk \U0001F600  "),
    ("nonmsg-empty", '{"jsonrpc":"2.0"}'),
    ("nonmsg-42", "42"),
    ("nonmsg-idonly", '{"jsonrpc":"2.0","id":1}'),
    ("nonmsg-null", "null"),
    ("nonmsg-str", '"é"'),
    ("blank", ""),
    ("spaces", "  "),
    ("resp-padded", "  " + J + '"id":3,"result":{}} \t'),
]
LINES_SHORT = [
    ("s-resp", J + '"id":1,"result":{"t":"é\U0001F600 "}}'),
    ("s-notif", J + '"method":"n/€"}'),
    ("s-junk", "ü{"),
    ("s-nonmsg", '{"jsonrpc":"2.0"}'),
    ("s-blank", ""),
]
SENTINEL = J + '"id":"END","result":{}}'
TERMS = {"LF": "\n", "CRLF": "\r\n"}


def streams(kind: str, maxlen: int) -> List[Dict[str, Any]]:
    table = LINES_LONG if kind == "long" else LINES_SHORT
    units = [(n, t, term) for (n, t) in table for term in ("LF", "CRLF")]
    out = []
    for L in range(1, maxlen + 1):
        for combo in itertools.product(range(len(units)), repeat=L):
            out.append({"table": kind, "lines": list(combo)})
    return out


def stream_bytes(s: Dict[str, Any]):
    if s["table"] == "burst":
        # n lines, more than the transport's stream buffers hold: notifications, responses, junk interleaved
        text = ""
        names = [f"burst{s['n']}"]
        for i in range(s["n"]):
            k = i % 5
            if k == 3:
                text += "junk line %d {\n" % i
            elif k == 1:
                text += J + '"id":%d,"result":{"i":%d}}\n' % (i, i)
            else:
                text += J + '"method":"notifications/message","params":{"i":%d}}\n' % i
        text += SENTINEL + "\n"
        return text.encode("utf-8"), names
    table = LINES_LONG if s["table"] == "long" else LINES_SHORT
    units = [(n, t, term) for (n, t) in table for term in ("LF", "CRLF")]
    text = ""
    names = []
    for i in s["lines"]:
        n, t, term = units[i]
        text += t + TERMS[term]
        names.append(f"{n}/{term}")
    text += SENTINEL + "\n"
    return text.encode("utf-8"), names


def reference(data: bytes):
    exp = []
    for raw in data.split(b"\n")[:-1]:
        if raw.endswith(b"\r"):
            raw = raw[:-1]
        try:
            obj = json.loads(raw.decode("utf-8"))
        except Exception:
            continue
        kind, _ = classify(obj)
        if kind is None:
            continue
        exp.append(obj)
    return exp


def interesting_positions(data: bytes) -> List[int]:
    """Cut positions that fall inside a multi-byte character or between CR and LF."""
    pos = []
    for i in range(1, len(data)):
        if (data[i] & 0xC0) == 0x80:
            pos.append(i)
        elif data[i] == 0x0A and data[i - 1] == 0x0D:
            pos.append(i)
    return pos


def run_one(ctl: explorer.Ctl, cfg: Dict[str, Any]) -> Dict[str, Any]:
    from chuk_mcp.transports.stdio.stdio_client import StdioClient
    import anyio

    data, names = stream_bytes(cfg["stream"])
    cuts = cfg["cuts"]
    bounds = [0] + list(cuts) + [len(data)]
    chunks = [data[a:b] for a, b in zip(bounds, bounds[1:])]
    loop = new_loop(horizon=30)
    q = seams.Quiescence(loop)
    proc = seams.FakeProcess()
    got: List[Any] = []
    notes: List[Any] = []
    info: Dict[str, Any] = {}

    async def main():
        with seams.patched_open_process(lambda cmd, kw: proc) as pp:
            async with StdioClient(seams.stdio_params()) as client:
                read, write = client.get_streams()
                for ch in chunks:
                    proc.stdout.feed(ch)
                    await q.settle()
                # drain until nothing more arrives (a reader blocked on a full stream continues once there is room)
                for _ in range(20):
                    n0 = len(got) + len(notes)
                    for stream, sink in ((read, got), (client.notifications, notes)):
                        try:
                            while True:
                                sink.append(stream.receive_nowait())
                        except (anyio.WouldBlock, anyio.EndOfStream, anyio.ClosedResourceError):
                            pass
                    await q.settle()
                    if len(got) + len(notes) == n0:
                        break
                info["reader_tasks"] = len([t for t in __import__("asyncio").all_tasks(loop) if not t.done()])
            info["spawned"] = len(pp.spawned)

    status, val = loop.run_main(main())
    errors = loop.collect_errors()
    loop.abandon()
    obs: Dict[str, Any] = {"status": status, "lines": names, "cuts": cuts}
    viol = []
    if status != "ok":
        obs["outcome"] = status
        viol.append({"sig": {"class": "harness-run-" + status}, "msg": f"execution ended with {status}: {core.clean_repr(val)}"})
        obs["violations"] = viol
        return obs
    if info.get("spawned") != 1:
        raise core.HarnessError("seam missing: StdioClient did not call anyio.open_process")
    exp = reference(data)
    delivered = [dump_msg(m) for m in got]
    dnotes = [dump_msg(m) for m in notes]
    exp_notes = [m for m in exp if classify(m)[0] == "notification"]

    def where_cut():
        kinds = set()
        ip = set(interesting_positions(data))
        for c in cuts:
            if c in ip:
                kinds.add("inside-utf8" if (data[c] & 0xC0) == 0x80 else "inside-crlf")
            else:
                kinds.add("plain")
        return "+".join(sorted(kinds)) or "uncut"

    def norm(m):
        return {k: v for k, v in m.items() if v is not None}

    if not (len(delivered) == len(exp) and all(strict_eq(norm(a), norm(b)) for a, b in zip(delivered, exp))):
        # classify the failure
        exp_ids = [json.dumps(norm(m), sort_keys=True) for m in exp]
        got_ids = [json.dumps(norm(m), sort_keys=True) for m in delivered]
        extra = [g for g in got_ids if g not in exp_ids]
        missing = [e for e in exp_ids if e not in got_ids]
        if extra and not missing:
            cls = "delivered-non-message"
            det = {"line": _which_line(extra[0])}
        elif missing and not extra:
            cls = "lost-message"
            det = {"cut": where_cut()}
        elif not missing and not extra:
            cls = "reordered-or-duplicated"
            det = {}
        else:
            cls = "altered-message"
            det = {"cut": where_cut()}
        viol.append({"sig": {"class": cls, **det},
                     "msg": f"lines={names} cuts={cuts}: delivered {got_ids} expected {exp_ids}"})
    # the notification side channel is "offered" (best effort, 100 slots, never back-pressures): when more than 100
    # notifications are pending there, it must hold a prefix of them; otherwise all of them
    if len(exp_notes) > 100:
        exp_notes_cmp = exp_notes[: len(dnotes)] if 100 <= len(dnotes) <= len(exp_notes) else exp_notes
    else:
        exp_notes_cmp = exp_notes
    if not (len(dnotes) == len(exp_notes_cmp) and all(strict_eq(norm(a), norm(b)) for a, b in zip(dnotes, exp_notes_cmp))):
        viol.append({"sig": {"class": "notification-stream-mismatch", "cut": where_cut()},
                     "msg": f"lines={names} cuts={cuts}: notification stream {dnotes} expected {exp_notes}"})
    if errors:
        viol.append({"sig": {"class": "loop-error"}, "msg": f"{errors[:2]}"})
    obs["outcome"] = f"delivered={len(delivered)}/notes={len(dnotes)}"
    obs["delivered"] = delivered
    obs["violations"] = viol
    obs["counters"] = {"cut:" + where_cut(): 1}
    return obs


def _which_line(dumped: str) -> str:
    try:
        o = json.loads(dumped)
    except Exception:
        return "?"
    if set(o) <= {"jsonrpc"}:
        return "json-object-without-method-id-result-error"
    return "other"


# ---------------------------------------------------------------------------
# state that must not survive: the same client object entered again; a closed per-request stream
# ---------------------------------------------------------------------------
RUN_RE = "vf.checks.c05:run_reentry"
TAILS = {"none": b"", "plain-fragment": b'{"jsonrpc":"2.0","id":9,"res', "mid-utf8": '{"jsonrpc":"2.0","method":"x\u00e9'.encode("utf-8")[:-1],
         "cr-only": b'{"jsonrpc":"2.0","id":9,"result":{}}\r', "whitespace": b"   "}


def run_reentry(ctl: explorer.Ctl, cfg: Dict[str, Any]) -> Dict[str, Any]:
    from chuk_mcp.transports.stdio.stdio_client import StdioClient
    import anyio

    loop = new_loop(horizon=60)
    q = seams.Quiescence(loop)
    procs = [seams.FakeProcess(), seams.FakeProcess()]
    first_ok = (J + '"id":"c1","result":{"n":1}}\n').encode()
    second = ((J + '"id":"c2-a","result":{"t":"\u00e9"}}\n') + (J + '"method":"notifications/y"}\n') + (J + '"id":"c2-b","result":{}}\n')).encode("utf-8")
    got: List[List[Any]] = [[], []]
    info: Dict[str, Any] = {}

    async def main():
        it = iter(procs)
        with seams.patched_open_process(lambda cmd, kw: next(it)):
            client = StdioClient(seams.stdio_params())
            for n in range(2):
                async with client:
                    read, write = client.get_streams()
                    if cfg.get("legacy") and n == 1:
                        # a per-request stream whose owner gave up (closed its receiving end) before the answer came
                        rs = client.new_request_stream("c2-a")
                        if cfg["legacy"] == "closed":
                            rs.close()
                    data = (first_ok + TAILS[cfg["tail"]]) if n == 0 else second
                    cut = cfg.get("cut")
                    chunks = [data] if not cut else [data[:cut], data[cut:]]
                    for ch in chunks:
                        if ch:
                            procs[n].stdout.feed(ch)
                            await q.settle()
                    if n == 0 and cfg.get("end") == "child-dies":
                        procs[n].exit(1)
                        await q.settle()
                    try:
                        while True:
                            got[n].append(read.receive_nowait())
                    except (anyio.WouldBlock, anyio.EndOfStream, anyio.ClosedResourceError):
                        pass

    status, val = loop.run_main(main())
    errors = loop.collect_errors()
    loop.abandon()
    viol = []
    if status != "ok":
        return {"outcome": status, "violations": [{"sig": {"class": "did-not-finish", "part": "reentry"}, "msg": f"cfg={cfg}: {status} {core.clean_repr(val)}"}]}
    d2 = [dump_msg(m) for m in got[1]]
    exp2 = reference(second)
    norm = lambda m: {k: v for k, v in m.items() if v is not None}
    if not (len(d2) == len(exp2) and all(strict_eq(norm(a), norm(b)) for a, b in zip(d2, exp2))):
        viol.append({"sig": {"class": "second-connection-disturbed", "tail": cfg["tail"], "legacy": cfg.get("legacy")},
                     "msg": f"cfg={cfg}: second connection delivered {d2}, the child wrote {exp2}"})
    d1 = [dump_msg(m) for m in got[0]]
    if [m.get("id") for m in d1 if isinstance(m, dict)][:1] != ["c1"]:
        viol.append({"sig": {"class": "first-connection-lost-line"}, "msg": f"cfg={cfg}: first connection delivered {d1}"})
    if errors:
        viol.append({"sig": {"class": "loop-error"}, "msg": f"{errors[:2]}"})
    return {"outcome": f"{len(d1)}/{len(d2)}", "violations": viol}


def configs_for(tier: str):
    groups = {}
    # (1) every single cut position of every stream of <= 2 long lines
    long1 = streams("long", 1)
    long2 = streams("long", 2)
    g = []
    for s in long1 + long2:
        n = len(stream_bytes(s)[0])
        g.append({"stream": s, "cuts": []})
        for c in range(1, n):
            g.append({"stream": s, "cuts": [c]})
    groups["single-cut-every-position"] = g
    # (1b) bursts longer than the transport's 100-slot buffers, in one read, a few reads, and line-sized reads
    g = []
    for n in (99, 100, 101, 150, 260):
        st = {"table": "burst", "n": n}
        L = len(stream_bytes(st)[0])
        g.append({"stream": st, "cuts": []})
        g.append({"stream": st, "cuts": [L // 3, 2 * L // 3]})
        g.append({"stream": st, "cuts": list(range(64, L, 64))})
    groups["bursts-beyond-buffer-size"] = g
    # (2) every pair of cuts on short streams
    g = []
    short = streams("short", 1) + (streams("short", 2) if tier == "thorough" else [])
    for s in short:
        n = len(stream_bytes(s)[0])
        for a, b in itertools.combinations(range(1, n), 2):
            g.append({"stream": s, "cuts": [a, b]})
    groups["pair-cuts-short-streams"] = g
    # (3) long single lines: every pair with at least one interesting cut
    g = []
    for s in long1:
        data = stream_bytes(s)[0]
        ip = interesting_positions(data)
        if not ip:
            continue
        seen = set()
        for a in ip:
            for b in range(1, len(data)):
                if a == b:
                    continue
                key = (min(a, b), max(a, b))
                if key in seen:
                    continue
                seen.add(key)
                g.append({"stream": s, "cuts": list(key)})
    groups["pair-cuts-one-interesting"] = g
    if tier == "thorough":
        g = []
        for s in streams("short", 1):
            n = len(stream_bytes(s)[0])
            for cs in itertools.combinations(range(1, n), 3):
                g.append({"stream": s, "cuts": list(cs)})
        groups["triple-cuts-short-streams"] = g
        # byte-at-a-time
        g = []
        for s in long1 + streams("short", 2):
            n = len(stream_bytes(s)[0])
            g.append({"stream": s, "cuts": list(range(1, n))})
        groups["byte-at-a-time"] = g
    return groups


def run(tier: str, only=None) -> core.Result:
    res = core.Result("C05", "fault_enumeration")
    for name, cfgs in configs_for(tier).items():
        if only and name not in only:
            continue
        out = explorer.explore(RUN, cfgs, fidelity=True)
        sched.absorb(res, name, RUN, out, cfgs)
        sched.debug_pass(res, name, RUN, cfgs, every=(97 if len(cfgs) > 5000 else 11))
    rcfgs = [{"tail": t, "end": e, "cut": c, "legacy": lg} for t in TAILS for e in ("clean", "child-dies") for c in (None, 7)
             for lg in (None, "open", "closed")]
    out = explorer.explore(RUN_RE, rcfgs, fidelity=True)
    sched.absorb(res, "same-client-entered-again+closed-request-stream", RUN_RE, out, rcfgs, min_outcomes=1)
    if not only or "conformance" in only:
        from . import c05_conf

        c05_conf.add_conformance_part(res, tier)
    res.coverage["exhaustive"] = True
    res.coverage["rule"] = (
        "streams = all sequences of <=L lines over the line alphabet (responses, errors, notifications, requests with "
        "ASCII/2-/3-/4-byte UTF-8, raw U+0085/U+2028/U+2029, escaped newlines; junk; JSON that is not a message; blank) "
        "x {LF, CRLF}, each followed by a sentinel line; cuts = every single position, every pair on short streams, every "
        "pair with a cut inside a multi-byte character or CRLF on long ones (thorough: triples, byte-at-a-time); "
        "distinct = distinct observation digests"
    )
    res.assumptions = [
        "the scripted process implements the subset of anyio.abc.Process the transport uses (stdout async iteration, stdin send/aclose, terminate/kill/wait)",
        "lines with a wrong or missing 'jsonrpc' member are outside the alphabet (the repository's suite pins them as accepted)",
        "an unterminated final fragment is not a line the child wrote",
    ]
    return res
