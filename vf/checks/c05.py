"""C05 - stdio inbound framing is independent of chunking.

Engine: E-SCHED (virtual loop) with the chunk cut as the enumerated fault.
Driver: the public StdioClient context over a scripted process
(anyio.open_process seam); its stdout yields the byte stream in the chunks
chosen by the enumeration.  Oracle: split the whole byte string at LF, keep the
lines that are JSON and pass the independent envelope validator.
"""
from __future__ import annotations

import itertools
import json
from typing import Any, Dict, List

from .. import core, explorer, sched, seams
from ..jsonrpc_ref import classify, dump_msg, strict_eq
from ..vloop import new_loop

RUN = "vf.checks.c05:run_one"

J = '{"jsonrpc":"2.0",'
# (name, text) - raw characters U+0085 U+2028 U+2029 are legal inside JSON strings
LINES_LONG = [
    ("resp-ascii", J + '"id":1,"result":{"t":"abc"}}'),
    ("resp-utf8", J + '"id":"r\u00e9","result":{"t":"\u00e9\u20ac\U0001F600 \u0085 \u2028 \u2029 \\n \\u2028"}}'),
    ("resp-id0", J + '"id":0,"result":{"z":0}}'),
    ("resp-id-empty", J + '"id":"","result":{"e":""}}'),
    ("err", J + '"id":2,"error":{"code":-32000,"message":"ü "}}'),
    ("notif", J + '"method":"notifications/message","params":{"data":"\u00fc\u2028\U0001F600"}}'),
    ("req", J + '"id":"s-1","method":"ping"}'),
    ("junk", "not json {"),
    ("junk-utf8", "ü junk \U0001F600  "),
    ("nonmsg-empty", '{"jsonrpc":"2.0"}'),
    ("nonmsg-42", "42"),
    ("nonmsg-idonly", '{"jsonrpc":"2.0","id":1}'),
    ("nonmsg-null", "null"),
    ("nonmsg-str", '"é"'),
    ("blank", ""),
    ("spaces", "  "),
    ("resp-padded", "  " + J + '"id":3,"result":{}} \t'),
]
LINES_SHORT = [
    ("s-resp", J + '"id":1,"result":{"t":"é\U0001F600 "}}'),
    ("s-notif", J + '"method":"n/€"}'),
    ("s-junk", "ü{"),
    ("s-nonmsg", '{"jsonrpc":"2.0"}'),
    ("s-blank", ""),
]
# junk lines whose PREFIX is a complete message (the line as a whole is not JSON), and array lines (batches)
_A = J + '"id":11,"result":{"a":"\u00e9"}}'
_B = J + '"method":"notifications/b","params":{"b":1}}'
LINES_EXTRA = [
    ("two-msgs", _A + _B),
    ("two-msgs-space", _B + " " + _A),
    ("msg+text", _A + " trailing garbage \u00fc"),
    ("msg+array", _A + "[]"),
    ("notif+brace", _B + "}"),
    ("arr-numbers", "[1,2]"),
    ("arr-empty", "[]"),
    ("arr-string", '["x"]'),
    ("arr-one-response", "[" + J + '"id":"in-array","result":{"t":"\u20ac"}}]'),
    ("arr-nested-empty", "[[ ]]"),
    # well-formed messages with null-valued members: null is "absent" for optional members (the independent envelope
    # validator says so), and unknown members do not matter
    ("resp-error-null", J + '"id":21,"result":{"ok":true},"error":null}'),
    ("req-params-null", J + '"id":"q-null","method":"ping","params":null}'),
    ("notif-params-null", J + '"method":"notifications/nullparams","params":null}'),
    ("resp-unknown-null", J + '"id":22,"result":{},"x-extra":null}'),
    ("notif-unknown-null", J + '"method":"notifications/unk","x-extra":null,"params":{"k":null}}'),
]
EXTRA_JUNK = ("two-msgs", "two-msgs-space", "msg+text", "msg+array", "notif+brace")
LINES_SHORT_EXTRA = [
    ("s-two-msgs", J + '"id":1,"result":1}' + J + '"method":"n"}'),
    ("s-msg+text", J + '"id":2,"result":{}} x\u00e9'),
    ("s-control", J + '"id":3,"result":"\u00e9"}'),   # a valid line, so that the group has more than one outcome
]
# junk lines that START with a 2-, 3- and 4-byte character (a read may end inside the very first character of a line)
LINES_MB_START = [
    ("junk-2byte-start", "\u00fc junk {"),
    ("junk-3byte-start", "\u20ac not json"),
    ("junk-4byte-start", "\U0001F600 [junk"),
]
# junk lines that are not even text: their BYTES are not valid UTF-8 (they are not JSON under any reading)
LINES_NOT_UTF8 = [
    ("latin1-log-line", b"INFO  caf\xe9 ouvert"),
    ("binary-noise", b"\xff\xfe\x00\x01binary\x80\x81\xfe"),
    ("lone-continuation-bytes", b"\x80\x80 lone continuation \xbf"),
    ("overlong-forms", b"\xc0\xaf overlong \xe0\x80\xaf \xf0\x80\x80\xaf"),
    ("truncated-3-byte-then-text", b"start \xe2\x82 then ascii"),
    ("truncated-4-byte-at-line-end", b"tail \xf0\x9f\x98"),
    ("surrogate+beyond-range", b"\xed\xa0\x80 and \xf4\x90\x80\x80"),
    ("bad-byte-first", b"\xe9 leading"),
]
LISTENERS = [None, "parked", "busy", "one-item"]   # who is reading client.notifications while the reader routes
TABLES = {"mb-start": LINES_MB_START, "long+mb": LINES_LONG + LINES_MB_START, "long": LINES_LONG, "short": LINES_SHORT, "extra": LINES_EXTRA, "short-extra": LINES_SHORT_EXTRA,
          "long+extra": LINES_LONG + LINES_EXTRA, "short+mb": LINES_SHORT + LINES_MB_START}
VERSIONS = [None, "2025-03-26", "2025-06-18"]   # None = set_protocol_version is never called
SENTINEL = J + '"id":"END","result":{}}'
TERMS = {"LF": "\n", "CRLF": "\r\n"}


def streams(kind: str, maxlen: int) -> List[Dict[str, Any]]:
    table = TABLES[kind]
    units = [(n, t, term) for (n, t) in table for term in ("LF", "CRLF")]
    out = []
    for L in range(1, maxlen + 1):
        for combo in itertools.product(range(len(units)), repeat=L):
            out.append({"table": kind, "lines": list(combo)})
    return out


def stream_bytes(s: Dict[str, Any]):
    if s["table"] == "burst":
        # n lines, more than the transport's stream buffers hold: notifications, responses, junk interleaved
        text = ""
        names = [f"burst{s['n']}"]
        for i in range(s["n"]):
            k = i % 5
            if k == 3:
                text += "junk line %d {\n" % i
            elif k == 1:
                text += J + '"id":%d,"result":{"i":%d}}\n' % (i, i)
            else:
                text += J + '"method":"notifications/message","params":{"i":%d}}\n' % i
        text += SENTINEL + "\n"
        return text.encode("utf-8"), names
    if s["table"] == "big":
        return big_stream(s["total"]), [f"big{s['total']}"]
    if s["table"] == "not-utf8":
        # lines: ["v", index into LINES_LONG unit list] or ["x", index into LINES_NOT_UTF8, term]
        units = [(n, t, term) for (n, t) in LINES_LONG for term in ("LF", "CRLF")]
        out = b""
        names = []
        for item in s["lines"]:
            if item[0] == "v":
                n, t, term = units[item[1]]
                out += (t + TERMS[term]).encode("utf-8")
                names.append(f"{n}/{term}")
            else:
                n, raw = LINES_NOT_UTF8[item[1]]
                out += raw + TERMS[item[2]].encode()
                names.append(f"{n}/{item[2]}")
        return out + (SENTINEL + "\n").encode("utf-8"), names
    table = TABLES[s["table"]]
    units = [(n, t, term) for (n, t) in table for term in ("LF", "CRLF")]
    text = ""
    names = []
    for i in s["lines"]:
        n, t, term = units[i]
        text += t + TERMS[term]
        names.append(f"{n}/{term}")
    text += SENTINEL + "\n"
    return text.encode("utf-8"), names


FULL_READ = 65536   # what one read of the child's pipe returns at most
_BIG: Dict[int, bytes] = {}
EXTRA_LINE = (J + '"id":"EXTRA","result":{"after":"the burst"}}\n').encode("utf-8")


def big_stream(total: int) -> bytes:
    """A stream of exactly 'total' bytes: long responses with multi-byte text, CRLF-terminated notifications and junk
    lines in rotation (about 3 KB per line, fewer than 100 messages), one filler response that makes the size come out
    exactly, and the sentinel line last."""
    if total in _BIG:
        return _BIG[total]
    tail = (SENTINEL + "\n").encode("utf-8")
    parts: List[bytes] = []
    size = len(tail)
    i = 0
    blob = "\u00e9\u20ac\U0001F600 x" * 300
    while True:
        k = i % 3
        if k == 0:
            line = (J + '"id":%d,"result":{"t":"%s"}}\n' % (i, blob)).encode("utf-8")
        elif k == 1:
            line = (J + '"method":"notifications/big","params":{"i":%d,"t":"%s"}}\r\n' % (i, blob[:900])).encode("utf-8")
        else:
            line = ("\u00fc junk %d %s {\n" % (i, blob[:600])).encode("utf-8")
        if size + len(line) + 200 > total:
            break
        parts.append(line)
        size += len(line)
        i += 1
    head = (J + '"id":"filler","result":{"pad":"').encode("utf-8")
    end = b'"}}\n'
    pad = total - size - len(head) - len(end)
    if pad < 0:
        raise core.HarnessError(f"big stream of {total} bytes cannot be built")
    parts.append(head + b"p" * pad + end)
    data = b"".join(parts) + tail
    if len(data) != total:
        raise core.HarnessError("big stream size mismatch")
    _BIG[total] = data
    return data


def batches_accepted(version) -> bool:
    """Independent of the library: no version negotiated, or a date before 2025-06-18."""
    if not version:
        return True
    y, m, d = version.split("-")
    return (int(y), int(m), int(d)) < (2025, 6, 18)


def reference(data: bytes, version=None):
    """What must be delivered: every line that is one JSON-RPC message.  An array line is a batch: while batches are
    accepted its valid members are delivered in order, otherwise nothing of it (the same rule C13 states); in both
    cases the lines around it are unaffected."""
    exp = []
    for raw in data.split(b"\n")[:-1]:
        if raw.endswith(b"\r"):
            raw = raw[:-1]
        try:
            obj = json.loads(raw.decode("utf-8"))
        except Exception:
            continue
        if isinstance(obj, list):
            if batches_accepted(version):
                exp.extend(m for m in obj if classify(m)[0] is not None)
            continue
        kind, _ = classify(obj)
        if kind is None:
            continue
        exp.append(obj)
    return exp


def interesting_positions(data: bytes) -> List[int]:
    """Cut positions that fall inside a multi-byte character or between CR and LF."""
    pos = []
    for i in range(1, len(data)):
        if (data[i] & 0xC0) == 0x80:
            pos.append(i)
        elif data[i] == 0x0A and data[i - 1] == 0x0D:
            pos.append(i)
    return pos


def run_one(ctl: explorer.Ctl, cfg: Dict[str, Any]) -> Dict[str, Any]:
    from chuk_mcp.transports.stdio.stdio_client import StdioClient
    import anyio

    data, names = stream_bytes(cfg["stream"])
    cuts = cfg["cuts"]
    bounds = [0] + list(cuts) + [len(data)]
    chunks = [data[a:b] for a, b in zip(bounds, bounds[1:])]
    if cfg.get("ending") == "one-more-line":
        data = data + EXTRA_LINE
        chunks = chunks + [EXTRA_LINE]
    close_at = cfg.get("close_write_at")          # the user closes the write stream before chunk number close_at
    exit_at = cfg.get("exit_at")                  # chunks[exit_at:] are queued at once and the child exits right away
    drain_mode = cfg.get("drain")                 # None | "side-channel-never" | "main-after-each-chunk"
    loop = new_loop(horizon=30 if not cfg.get("listener") else 400)
    q = seams.Quiescence(loop)
    proc = seams.FakeProcess()
    got: List[Any] = []
    notes: List[Any] = []
    info: Dict[str, Any] = {}

    async def main():
        with seams.patched_open_process(lambda cmd, kw: proc) as pp:
            async with StdioClient(seams.stdio_params()) as client:
                read, write = client.get_streams()
                if cfg.get("version"):
                    client.set_protocol_version(cfg["version"])
                listener = None
                if cfg.get("listener"):
                    import asyncio as _aio

                    async def listen(kind=cfg["listener"]):
                        # somebody consumes the notification side channel while the reader is routing
                        try:
                            while True:
                                notes.append(await client.notifications.receive())
                                if kind == "one-item":
                                    return
                                if kind == "busy":
                                    await _aio.sleep(0.5)      # virtual: not back in receive() for a while
                        except (anyio.EndOfStream, anyio.ClosedResourceError):
                            return

                    listener = loop.create_task(listen())
                    await q.settle()                           # the listener is parked in receive() before any byte arrives
                def drain_main():
                    try:
                        while True:
                            got.append(read.receive_nowait())
                    except anyio.WouldBlock:
                        pass
                    except (anyio.EndOfStream, anyio.ClosedResourceError):
                        # the read stream has ended: legitimate only once the child's stdout has
                        if proc.returncode is None and not proc.stdout._eof:
                            info["read_stream_ended_while_stdout_open"] = True

                for i, ch in enumerate(chunks):
                    if close_at == i:
                        await write.aclose()
                        await q.settle()
                    if exit_at is not None and i == exit_at:
                        for rest in chunks[i:]:
                            proc.stdout.feed(rest)
                        proc.exit(0)                           # everything it wrote is in the pipe; then it is gone
                        await q.settle()
                        break
                    proc.stdout.feed(ch)
                    await q.settle()
                    if drain_mode == "main-after-each-chunk":
                        for _ in range(6):
                            n0 = len(got)
                            drain_main()
                            await q.settle()
                            if len(got) == n0:
                                break
                if close_at == len(chunks):
                    await write.aclose()
                    await q.settle()
                if cfg.get("ending") == "eof" and proc.returncode is None:
                    proc.exit(0)
                    await q.settle()
                if listener is not None:
                    import asyncio as _aio

                    await _aio.sleep(200.0)                    # virtual: a busy listener has come back as often as it can
                    await q.settle()
                    listener.cancel()
                    await q.settle()
                # drain until nothing more arrives (a reader blocked on a full stream continues once there is room)
                def drain_notes():
                    try:
                        while True:
                            notes.append(client.notifications.receive_nowait())
                    except (anyio.WouldBlock, anyio.EndOfStream, anyio.ClosedResourceError):
                        pass

                for _ in range(20):
                    n0 = len(got) + len(notes)
                    drain_main()
                    if drain_mode is None:
                        drain_notes()
                    await q.settle()
                    if len(got) + len(notes) == n0:
                        break
                drain_notes()                                   # nobody looked at the side channel until now
                info["reader_tasks"] = len([t for t in __import__("asyncio").all_tasks(loop) if not t.done()])
            info["spawned"] = len(pp.spawned)

    status, val = loop.run_main(main())
    errors = loop.collect_errors()
    loop.abandon()
    obs: Dict[str, Any] = {"status": status, "lines": names, "cuts": cuts}
    vtag: Dict[str, Any] = {}
    if close_at is not None:
        where = "before-any-line" if close_at == 0 else ("after-all-lines" if close_at >= len(chunks) else "between-reads")
        obs["close_write_at"] = close_at
        vtag = {"user_closed_write_stream": where}
    if exit_at is not None:
        obs["exit_at"] = exit_at
        vtag = {**vtag, "child_exited": "with-its-last-writes-still-in-the-pipe"}
    if cfg.get("ending"):
        obs["ending"] = cfg["ending"]
        vtag = {**vtag, "after_the_last_read": cfg["ending"]}
    if drain_mode:
        obs["drain"] = drain_mode
        vtag = {**vtag, "consumer": drain_mode}
    if cfg.get("listener"):
        obs["listener"] = cfg["listener"]
        vtag = {**vtag, "notification_listener": cfg["listener"]}
    if "version" in cfg:
        obs["version"] = cfg["version"]
        vtag = {**vtag, "batches": "accepted" if batches_accepted(cfg["version"]) else "rejected"}
    viol = []
    if status != "ok":
        obs["outcome"] = status
        viol.append({"sig": {"class": "harness-run-" + status}, "msg": f"execution ended with {status}: {core.clean_repr(val)}"})
        obs["violations"] = viol
        return obs
    if info.get("spawned") != 1:
        raise core.HarnessError("seam missing: StdioClient did not call anyio.open_process")
    exp = reference(data, cfg.get("version"))
    delivered = [dump_msg(m) for m in got]
    dnotes = [dump_msg(m) for m in notes]
    exp_notes = [m for m in exp if classify(m)[0] == "notification"]

    def where_cut():
        kinds = set()
        ip = set(interesting_positions(data))
        for c in cuts:
            if c in ip:
                kinds.add("inside-utf8" if (data[c] & 0xC0) == 0x80 else "inside-crlf")
            else:
                kinds.add("plain")
        return "+".join(sorted(kinds)) or "uncut"

    def norm(m):
        return {k: v for k, v in m.items() if v is not None}

    if not (len(delivered) == len(exp) and all(strict_eq(norm(a), norm(b)) for a, b in zip(delivered, exp))):
        # classify the failure
        exp_ids = [json.dumps(norm(m), sort_keys=True) for m in exp]
        got_ids = [json.dumps(norm(m), sort_keys=True) for m in delivered]
        extra = [g for g in got_ids if g not in exp_ids]
        missing = [e for e in exp_ids if e not in got_ids]
        if extra and not missing:
            cls = "delivered-non-message"
            det = {"line": _which_line(extra[0], names)}
        elif missing and not extra:
            cls = "lost-message"
            det = {"cut": where_cut()}
            if any(n.split("/")[0].endswith("-null") for n in names) and all('null' in m or '"END"' in m for m in missing):
                det["line"] = "message-with-a-null-valued-member"
            if any(n.split("/")[0] in {x for x, _ in LINES_NOT_UTF8} for n in names):
                det["line"] = "near-a-line-that-is-not-utf8"
        elif not missing and not extra:
            cls = "reordered-or-duplicated"
            det = {}
        else:
            cls = "altered-message"
            det = {"cut": where_cut()}
        def brief(xs):
            return xs if sum(len(x) for x in xs) < 1500 else f"{len(xs)} messages ({[x[:60] for x in xs[:2]]} ...)"
        viol.append({"sig": {"class": cls, **det, **vtag},
                     "msg": f"lines={names} cuts={cuts if len(cuts) < 12 else str(cuts[:6]) + '...'} version={cfg.get('version')}: "
                            f"delivered {brief(got_ids)} expected {brief(exp_ids)}"})
    # the notification side channel is "offered" (best effort, 100 slots, never back-pressures): when more than 100
    # notifications are pending there, it must hold a prefix of them; otherwise all of them
    if len(exp_notes) > 100 and cfg.get("listener"):
        # a consumer frees slots while the reader keeps offering: what was dropped need not be a suffix any more;
        # still at least 100 of them, each at most once, in order
        it = iter(exp_notes)
        is_subseq = all(any(strict_eq(norm(d), norm(e)) for e in it) for d in dnotes)
        exp_notes_cmp = dnotes if (is_subseq and len(dnotes) >= 100) else exp_notes
    elif len(exp_notes) > 100:
        exp_notes_cmp = exp_notes[: len(dnotes)] if 100 <= len(dnotes) <= len(exp_notes) else exp_notes
    else:
        exp_notes_cmp = exp_notes
    if not (len(dnotes) == len(exp_notes_cmp) and all(strict_eq(norm(a), norm(b)) for a, b in zip(dnotes, exp_notes_cmp))):
        viol.append({"sig": {"class": "notification-stream-mismatch", "cut": where_cut(), **vtag},
                     "msg": f"lines={names} cuts={cuts} version={cfg.get('version')}: notification stream {dnotes} expected {exp_notes}"})
    if info.get("read_stream_ended_while_stdout_open"):
        viol.append({"sig": {"class": "read-stream-ended-while-the-child-can-still-write", **vtag},
                     "msg": f"lines={names} cuts={cuts}: the read stream reported its end although the child's stdout is open"})
    if errors:
        viol.append({"sig": {"class": "loop-error"}, "msg": f"{errors[:2]}"})
    obs["outcome"] = f"delivered={len(delivered)}/notes={len(dnotes)}"
    obs["delivered"] = delivered if len(data) < 20000 else explorer.digest_of(delivered)
    obs["violations"] = viol
    obs["counters"] = {"cut:" + where_cut(): 1}
    return obs


def _which_line(dumped: str, names=()) -> str:
    try:
        o = json.loads(dumped)
    except Exception:
        return "?"
    if set(o) <= {"jsonrpc"}:
        return "json-object-without-method-id-result-error"
    fam = {n.split("/")[0] for n in names}
    if fam & (set(EXTRA_JUNK) | {n for n, _ in LINES_SHORT_EXTRA}):
        return "complete-message-inside-a-junk-line"
    if any(f.startswith("arr-") for f in fam):
        return "array-line"
    return "other"


# ---------------------------------------------------------------------------
# state that must not survive: the same client object entered again; a closed per-request stream
# ---------------------------------------------------------------------------
RUN_RE = "vf.checks.c05:run_reentry"
TAILS = {"none": b"", "plain-fragment": b'{"jsonrpc":"2.0","id":9,"res', "mid-utf8": '{"jsonrpc":"2.0","method":"x\u00e9'.encode("utf-8")[:-1],
         "cr-only": b'{"jsonrpc":"2.0","id":9,"result":{}}\r', "whitespace": b"   "}


STALE_IDS = [["c2-a"], ["c2-b"], ["c2-a", "c2-b"], ["c1"], ["never-used"]]   # ids registered (and not answered) in connection 1
STALE_KINDS = ["kept", "receiver-closed", "receiver-parked"]


def run_reentry(ctl: explorer.Ctl, cfg: Dict[str, Any]) -> Dict[str, Any]:
    from chuk_mcp.transports.stdio.stdio_client import StdioClient
    import anyio

    loop = new_loop(horizon=60)
    q = seams.Quiescence(loop)
    procs = [seams.FakeProcess(), seams.FakeProcess()]
    first_ok = (J + '"id":"c1","result":{"n":1}}\n').encode()
    second = ((J + '"id":"c2-a","result":{"t":"\u00e9"}}\n') + (J + '"method":"notifications/y"}\n') + (J + '"id":"c2-b","result":{}}\n')).encode("utf-8")
    got: List[List[Any]] = [[], []]
    info: Dict[str, Any] = {}

    async def main():
        it = iter(procs)
        with seams.patched_open_process(lambda cmd, kw: next(it)):
            client = StdioClient(seams.stdio_params())
            for n in range(2):
                async with client:
                    read, write = client.get_streams()
                    if cfg.get("stale") and n == 0:
                        # connection 1 registers per-request streams that are never answered; the ids come again in
                        # connection 2 (ids restart with a restarted server)
                        for rid in STALE_IDS[cfg["stale_ids"]]:
                            rs0 = client.new_request_stream(rid)
                            if cfg["stale"] == "receiver-closed":
                                rs0.close()
                            elif cfg["stale"] == "receiver-parked":
                                async def wait_for(stream=rs0):
                                    try:
                                        await stream.receive()
                                    except Exception:  # noqa: BLE001
                                        pass
                                info.setdefault("parked", []).append(loop.create_task(wait_for()))
                            else:
                                info.setdefault("kept", []).append(rs0)      # the caller still holds it
                        await q.settle()
                    if cfg.get("legacy") and n == 1:
                        # a per-request stream whose owner gave up (closed its receiving end) before the answer came
                        rs = client.new_request_stream("c2-a")
                        if cfg["legacy"] == "closed":
                            rs.close()
                    data = (first_ok + TAILS[cfg["tail"]]) if n == 0 else second
                    cut = cfg.get("cut")
                    chunks = [data] if not cut else [data[:cut], data[cut:]]
                    for ch in chunks:
                        if ch:
                            procs[n].stdout.feed(ch)
                            await q.settle()
                    if n == 0 and cfg.get("end") == "child-dies":
                        procs[n].exit(1)
                        await q.settle()
                    try:
                        while True:
                            got[n].append(read.receive_nowait())
                    except (anyio.WouldBlock, anyio.EndOfStream, anyio.ClosedResourceError):
                        pass

    status, val = loop.run_main(main())
    errors = loop.collect_errors()
    loop.abandon()
    viol = []
    if status != "ok":
        return {"outcome": status, "violations": [{"sig": {"class": "did-not-finish", "part": "reentry"}, "msg": f"cfg={cfg}: {status} {core.clean_repr(val)}"}]}
    d2 = [dump_msg(m) for m in got[1]]
    exp2 = reference(second)
    norm = lambda m: {k: v for k, v in m.items() if v is not None}
    if not (len(d2) == len(exp2) and all(strict_eq(norm(a), norm(b)) for a, b in zip(d2, exp2))):
        viol.append({"sig": {"class": "second-connection-disturbed", "tail": cfg["tail"], "legacy": cfg.get("legacy"),
                             **({"stale_request_stream": cfg["stale"], "ids": "+".join(STALE_IDS[cfg["stale_ids"]])} if cfg.get("stale") else {})},
                     "msg": f"cfg={cfg}: second connection delivered {d2}, the child wrote {exp2}"})
    d1 = [dump_msg(m) for m in got[0]]
    if [m.get("id") for m in d1 if isinstance(m, dict)][:1] != ["c1"]:
        viol.append({"sig": {"class": "first-connection-lost-line"}, "msg": f"cfg={cfg}: first connection delivered {d1}"})
    if errors:
        viol.append({"sig": {"class": "loop-error"}, "msg": f"{errors[:2]}"})
    return {"outcome": f"{len(d1)}/{len(d2)}", "violations": viol}


# ---------------------------------------------------------------------------
# two connections alive on one loop: nothing of one stream may influence what the other delivers
# ---------------------------------------------------------------------------
RUN_TWO = "vf.checks.c05:run_two"


def interleavings(na: int, nb: int) -> List[List[str]]:
    """Every merge of A's feed events a0..a(na-1) with B's events (enter, b0..b(nb-1)), each side in its own order."""
    a = [f"a{i}" for i in range(na)]
    b = ["B-enter"] + [f"b{i}" for i in range(nb)]
    out = []
    n = len(a) + len(b)
    for pos in itertools.combinations(range(n), len(a)):
        seq, ia, ib = [], 0, 0
        for k in range(n):
            if k in pos:
                seq.append(a[ia]); ia += 1
            else:
                seq.append(b[ib]); ib += 1
        out.append(seq)
    return out


def _chunks(data: bytes, cuts: List[int]) -> List[bytes]:
    bounds = [0] + list(cuts) + [len(data)]
    return [data[x:y] for x, y in zip(bounds, bounds[1:])]


def _cut_kind(data: bytes, cuts: List[int]) -> str:
    kinds = set()
    ip = set(interesting_positions(data))
    for c in cuts:
        if c in ip:
            kinds.add("inside-utf8" if (data[c] & 0xC0) == 0x80 else "inside-crlf")
        else:
            kinds.add("plain")
    return "+".join(sorted(kinds)) or "uncut"


def run_two(ctl: explorer.Ctl, cfg: Dict[str, Any]) -> Dict[str, Any]:
    """Connection A is entered first; B is entered, and both are fed, in the enumerated order."""
    from chuk_mcp.transports.stdio.stdio_client import StdioClient
    import anyio

    da, na = stream_bytes(cfg["a"])
    db, nb = stream_bytes(cfg["b"])
    ca, cb = _chunks(da, cfg["cuts_a"]), _chunks(db, cfg["cuts_b"])
    order = interleavings(len(ca), len(cb))[cfg["order"]]
    loop = new_loop(horizon=30)
    q = seams.Quiescence(loop)
    procs = [seams.FakeProcess(), seams.FakeProcess()]
    got: Dict[str, List[Any]] = {"A": [], "B": []}
    notes: Dict[str, List[Any]] = {"A": [], "B": []}

    def drain(client, key):
        read, _ = client.get_streams()
        for stream, sink in ((read, got[key]), (client.notifications, notes[key])):
            try:
                while True:
                    sink.append(stream.receive_nowait())
            except (anyio.WouldBlock, anyio.EndOfStream, anyio.ClosedResourceError):
                pass

    async def main():
        it = iter(procs)
        with seams.patched_open_process(lambda cmd, kw: next(it)):
            async with StdioClient(seams.stdio_params("server-a")) as A:
                await q.settle()
                B = None
                try:
                    for ev in order:
                        if ev == "B-enter":
                            B = StdioClient(seams.stdio_params("server-b"))
                            await B.__aenter__()
                        elif ev[0] == "a":
                            procs[0].stdout.feed(ca[int(ev[1:])])
                        else:
                            procs[1].stdout.feed(cb[int(ev[1:])])
                        await q.settle()
                    for _ in range(3):
                        drain(A, "A")
                        drain(B, "B")
                        await q.settle()
                finally:
                    if B is not None:
                        await B.__aexit__(None, None, None)

    status, val = loop.run_main(main())
    errors = loop.collect_errors()
    loop.abandon()
    viol: List[dict] = []
    where = f"A={na} cuts={cfg['cuts_a']} B={nb} cuts={cfg['cuts_b']} order={order}"
    if status != "ok":
        return {"outcome": status, "violations": [{"sig": {"class": "did-not-finish", "part": "two-connections"},
                                                   "msg": f"{where}: {status} {core.clean_repr(val)}"}]}
    norm = lambda m: {k: v for k, v in m.items() if v is not None}
    out = {}
    for key, data, cuts, other_cuts, other_data in (("A", da, cfg["cuts_a"], cfg["cuts_b"], db), ("B", db, cfg["cuts_b"], cfg["cuts_a"], da)):
        exp = reference(data)
        d = [dump_msg(m) for m in got[key]]
        dn = [dump_msg(m) for m in notes[key]]
        expn = [m for m in exp if classify(m)[0] == "notification"]
        ok = len(d) == len(exp) and all(strict_eq(norm(x), norm(y)) for x, y in zip(d, exp))
        okn = len(dn) == len(expn) and all(strict_eq(norm(x), norm(y)) for x, y in zip(dn, expn))
        out[key] = len(d)
        if not (ok and okn):
            viol.append({"sig": {"class": "connection-disturbed-by-another-live-connection",
                                 "victim": "entered-first" if key == "A" else "entered-second",
                                 "own_cut": _cut_kind(data, cuts), "other_cut": _cut_kind(other_data, other_cuts)},
                         "msg": f"{where}: connection {key} delivered {d} (notifications {dn}); alone it delivers {exp}"})
    if errors:
        viol.append({"sig": {"class": "loop-error"}, "msg": f"{errors[:2]}"})
    return {"outcome": f"A={out.get('A')}/B={out.get('B')}", "delivered": {k: [dump_msg(m) for m in v] for k, v in got.items()},
            "order": order, "violations": viol}


def two_connection_configs(tier: str) -> List[Dict[str, Any]]:
    """Pairs of one-line streams (each followed by the sentinel) x a cut inside every multi-byte character / CRLF of A
    (thorough: every position of the short lines) x uncut or one such cut of B x every interleaving of the feeds and of B's start."""
    cfgs = []
    pick = streams("short", 1) + [u for u in streams("long", 1) if stream_bytes(u)[1][0] in
                                  ("resp-utf8/LF", "notif/CRLF", "junk-utf8/LF")]
    for a in pick:
        da = stream_bytes(a)[0]
        every = tier == "thorough" and stream_bytes(a)[1][0].startswith("s-")
        cuts_a = [[c] for c in (range(1, len(da)) if every else interesting_positions(da))]
        for b in pick:
            if tier == "thorough" and stream_bytes(b)[1][0].startswith("s-") and stream_bytes(b)[1][0].endswith("/CRLF"):
                continue      # thorough spends its budget on every cut position of A instead
            db = stream_bytes(b)[0]
            ipb = interesting_positions(db)
            cuts_b = [[]] + [[c] for c in ipb[:3]]
            for xa in cuts_a:
                for xb in cuts_b:
                    for o in range(len(interleavings(len(xa) + 1, len(xb) + 1))):
                        cfgs.append({"a": a, "b": b, "cuts_a": xa, "cuts_b": xb, "order": o})
    return cfgs


def configs_for(tier: str):
    groups = {}
    # (1) every single cut position of every stream of <= 2 long lines
    long1 = streams("long", 1)
    long2 = streams("long", 2)
    g = []
    for s in long1 + long2:
        n = len(stream_bytes(s)[0])
        g.append({"stream": s, "cuts": []})
        for c in range(1, n):
            g.append({"stream": s, "cuts": [c]})
    groups["single-cut-every-position"] = g
    # (1b) bursts longer than the transport's 100-slot buffers, in one read, a few reads, and line-sized reads
    g = []
    for n in (99, 100, 101, 150, 260):
        st = {"table": "burst", "n": n}
        L = len(stream_bytes(st)[0])
        g.append({"stream": st, "cuts": []})
        g.append({"stream": st, "cuts": [L // 3, 2 * L // 3]})
        g.append({"stream": st, "cuts": list(range(64, L, 64))})
    groups["bursts-beyond-buffer-size"] = g
    # (2) every pair of cuts on short streams
    g = []
    short = streams("short", 1) + (streams("short", 2) if tier == "thorough" else [])
    for s in short:
        n = len(stream_bytes(s)[0])
        for a, b in itertools.combinations(range(1, n), 2):
            g.append({"stream": s, "cuts": [a, b]})
    groups["pair-cuts-short-streams"] = g
    # (3) long single lines: every pair with at least one interesting cut
    g = []
    for s in long1:
        data = stream_bytes(s)[0]
        ip = interesting_positions(data)
        if not ip:
            continue
        seen = set()
        for a in ip:
            for b in range(1, len(data)):
                if a == b:
                    continue
                key = (min(a, b), max(a, b))
                if key in seen:
                    continue
                seen.add(key)
                g.append({"stream": s, "cuts": list(key)})
    groups["pair-cuts-one-interesting"] = g
    # (4) one line of every kind - the alphabet above plus junk lines that START with a complete message and array
    #     lines - at every cut position, for no negotiated version, one that accepts batches and one that rejects them
    g = []
    for s in streams("long+extra", 1):
        n = len(stream_bytes(s)[0])
        for v in VERSIONS:
            g.append({"stream": s, "cuts": [], "version": v})
            for c in range(1, n):
                g.append({"stream": s, "cuts": [c], "version": v})
    groups["one-line-every-cut-x-protocol-version"] = g
    # (5) two lines, at least one of the new kinds: every cut with no version (thorough: every version), uncut and the
    #     cuts inside characters / CRLF for the two versions
    g = []
    n_long = 2 * len(LINES_LONG)
    two = [s for s in streams("long+extra", 2) if max(s["lines"]) >= n_long]
    if tier != "thorough":
        # quick: both lines new, or a new line next to one of three ordinary ones
        keep = {2 * i + t for i, (nm, _) in enumerate(LINES_LONG) if nm in ("resp-utf8", "notif", "junk") for t in (0,)}
        two = [s for s in two if all(x >= n_long or x in keep for x in s["lines"])]
    for s in two:
        data = stream_bytes(s)[0]
        every = range(1, len(data))
        ip = interesting_positions(data)
        for v in VERSIONS:
            g.append({"stream": s, "cuts": [], "version": v})
            # quick: every cut only without version, both lines new and LF-terminated (even unit index = LF)
            full = (tier == "thorough" and v != "2025-03-26") or (v is None and min(s["lines"]) >= n_long and all(x % 2 == 0 for x in s["lines"]))
            for c in (every if full else ip):
                g.append({"stream": s, "cuts": [c], "version": v})
    groups["two-lines-with-junk-prefix-or-array-x-protocol-version"] = g
    # (6) every pair of cuts on the short junk lines that start with a complete message
    g = []
    for s in streams("short-extra", 1):
        n = len(stream_bytes(s)[0])
        for a, b in itertools.combinations(range(1, n), 2):
            g.append({"stream": s, "cuts": [a, b]})
    groups["pair-cuts-junk-with-message-prefix"] = g
    # (7) four reads: the first ends inside a multi-byte character or a CRLF, the second exactly after a line terminator,
    #     the third anywhere behind it - on streams whose first line STARTS with a multi-byte character (or is the
    #     multi-byte response / CRLF-terminated), followed by one more line
    g = []
    first = streams("mb-start", 1) + [u for u in streams("long", 1) if stream_bytes(u)[1][0] in
                                      ("junk-utf8/LF", "junk-utf8/CRLF", "resp-utf8/LF", "resp-ascii/CRLF")]
    second_names = ("resp-ascii/LF", "resp-utf8/CRLF", "notif/LF", "junk/LF", "blank/LF", "junk-utf8/LF") if tier != "thorough" else None
    second = [u for u in streams("long+mb", 1) if second_names is None or stream_bytes(u)[1][0] in second_names]
    for a in first:
        for b in second:
            ta, tb = TABLES[a["table"]], TABLES[b["table"]]
            # express both lines in the common table
            common = "long+mb"
            ia = [n for n, _ in TABLES[common]].index(ta[a["lines"][0] // 2][0]) * 2 + a["lines"][0] % 2
            ib = [n for n, _ in TABLES[common]].index(tb[b["lines"][0] // 2][0]) * 2 + b["lines"][0] % 2
            st = {"table": common, "lines": [ia, ib]}
            data = stream_bytes(st)[0]
            ends = [i + 1 for i, x in enumerate(data) if x == 0x0A][:-1]        # right after a line terminator
            for c1 in interesting_positions(data):
                for c2 in ends:
                    if c2 <= c1:
                        continue
                    for c3 in range(c2 + 1, len(data)):
                        g.append({"stream": st, "cuts": [c1, c2, c3]})
    groups["four-reads-split-character-then-line-boundary"] = g
    # (8) somebody listens on the notification side channel: parked in receive(), busy between receives, or gone after
    #     the first item - the main read stream must not care
    g = []
    for s in streams("long", 1):
        n = len(stream_bytes(s)[0])
        for lst in LISTENERS[1:]:
            g.append({"stream": s, "cuts": [], "listener": lst})
            for c in (range(1, n) if tier == "thorough" else interesting_positions(stream_bytes(s)[0])):
                g.append({"stream": s, "cuts": [c], "listener": lst})
    for s in streams("long", 2):
        for lst in LISTENERS[1:]:
            g.append({"stream": s, "cuts": [], "listener": lst})
    for nb in (99, 101, 260):
        st = {"table": "burst", "n": nb}
        L = len(stream_bytes(st)[0])
        for lst in LISTENERS[1:]:
            g.append({"stream": st, "cuts": [], "listener": lst})
            g.append({"stream": st, "cuts": list(range(64, L, 64)), "listener": lst})
    groups["somebody-listens-on-the-notification-stream"] = g
    # (9) the user closes the write stream (half-close) before any line, between reads, after all: what the child
    #     writes afterwards is still delivered and the read stream does not end
    g = []
    for s in long1:
        data = stream_bytes(s)[0]
        ends = [i + 1 for i, x in enumerate(data) if x == 0x0A][:-1]
        cutsets = [[]] + [[c] for c in sorted(set(interesting_positions(data) + ends))] + ([[c] for c in range(1, len(data))] if tier == "thorough" else [])
        for cs in cutsets:
            for at in range(len(cs) + 2):
                g.append({"stream": s, "cuts": cs, "close_write_at": at})
    for s in long2:
        data = stream_bytes(s)[0]
        ends = [i + 1 for i, x in enumerate(data) if x == 0x0A][:-1]
        for at in (0, 1):
            g.append({"stream": s, "cuts": [], "close_write_at": at})
        for at in (0, 1, 2, 3):
            g.append({"stream": s, "cuts": ends, "close_write_at": at})
    for nb in (101, 260):
        st = {"table": "burst", "n": nb}
        L = len(stream_bytes(st)[0])
        for cs in ([], [L // 3, 2 * L // 3]):
            for at in range(len(cs) + 2):
                g.append({"stream": st, "cuts": cs, "close_write_at": at})
    groups["user-closes-the-write-stream"] = g
    # (10) reads of exactly the maximum size: a burst that ends on one, then silence / end of file / one more line
    g = []
    F = FULL_READ
    for total, cutsets in ((F, [[], [F - 1], [1], [F // 2]]),
                           (2 * F, [[F], [F, 2 * F - 1], [1, F + 1], [F // 2, F // 2 + F]]),
                           (F + 100, [[100], [F], [50, 100]]),
                           (2 * F + 7, [[7, F + 7], [F, 2 * F]])):
        st = {"table": "big", "total": total}
        for cs in cutsets:
            for ending in ("silence", "eof", "one-more-line"):
                g.append({"stream": st, "cuts": cs, "ending": ending})
    groups["reads-of-the-maximum-size"] = g
    # (11) the child exits right after its last write while the reader is behind: chunks[k:] are in the pipe when it goes
    g = []
    for s in long1:
        data = stream_bytes(s)[0]
        for c in (range(1, len(data)) if tier == "thorough" else sorted(set(interesting_positions(data) + [len(data) // 2, len(data) - 38]))):
            for k in (0, 1):
                g.append({"stream": s, "cuts": [c], "exit_at": k})
        g.append({"stream": s, "cuts": [], "exit_at": 0})
    for s in long2:
        data = stream_bytes(s)[0]
        ends = [i + 1 for i, x in enumerate(data) if x == 0x0A][:-1]
        for k in range(len(ends) + 1):
            g.append({"stream": s, "cuts": ends, "exit_at": k})
    for nb in (99, 101, 150, 260):
        st = {"table": "burst", "n": nb}
        L = len(stream_bytes(st)[0])
        for cs in ([L // 3, 2 * L // 3], list(range(64, L, 64)), list(range(997, L, 997))):
            for k in sorted({0, 1, len(cs) // 2, len(cs)}):
                g.append({"stream": st, "cuts": cs, "exit_at": k})
    groups["child-exits-with-output-still-in-the-pipe"] = g
    # (12) nobody ever reads client.notifications: more than 100 notifications, in one go or accumulated over
    #      separate reads with the main stream drained in between
    g = []
    for nb in (150, 170, 260, 400):
        st = {"table": "burst", "n": nb}
        L = len(stream_bytes(st)[0])
        for cs in ([], [L // 3, 2 * L // 3], list(range(64, L, 64)), list(range(997, L, 997))):
            for dm in ("side-channel-never", "main-after-each-chunk"):
                g.append({"stream": st, "cuts": cs, "drain": dm})
    groups["notification-side-channel-never-read"] = g
    # (13) junk lines that are not valid UTF-8, alone and among valid messages, every single cut (thorough: every pair on
    #      the one-line streams): they are dropped alone like any other junk line
    g = []
    unit_names = [f"{n}/{term}" for (n, _) in LINES_LONG for term in ("LF", "CRLF")]
    v1, v2 = unit_names.index("resp-utf8/LF"), unit_names.index("notif/CRLF")
    for bi in range(len(LINES_NOT_UTF8)):
        for term in ("LF", "CRLF"):
            bad = ["x", bi, term]
            for lines in ([bad], [["v", v1], bad], [bad, ["v", v1]], [["v", v2], bad, ["v", v1]], [bad, bad]):
                st = {"table": "not-utf8", "lines": lines}
                n = len(stream_bytes(st)[0])
                g.append({"stream": st, "cuts": []})
                for c in range(1, n):
                    g.append({"stream": st, "cuts": [c]})
                if tier == "thorough" and len(lines) == 1:
                    for a, b in itertools.combinations(range(1, n), 2):
                        g.append({"stream": st, "cuts": [a, b]})
    groups["junk-lines-that-are-not-utf8"] = g
    if tier == "thorough":
        # every triple of cuts on the short streams that begin with a multi-byte junk line
        g = []
        for k, a in enumerate([u for u in streams("mb-start", 1) if u["lines"][0] % 2 == 0]):   # LF-terminated
            # a different kind of second line for each (notification, response, junk)
            want = ("s-notif/LF", "s-resp/LF", "s-junk/LF")[k % 3]
            for b in [u for u in streams("short", 1) if stream_bytes(u)[1][0] == want]:
                names_c = [n for n, _ in TABLES["short+mb"]]
                ia = names_c.index(TABLES["mb-start"][a["lines"][0] // 2][0]) * 2 + a["lines"][0] % 2
                ib = names_c.index(TABLES["short"][b["lines"][0] // 2][0]) * 2 + b["lines"][0] % 2
                st = {"table": "short+mb", "lines": [ia, ib]}
                n = len(stream_bytes(st)[0])
                for cs in itertools.combinations(range(1, n), 3):
                    g.append({"stream": st, "cuts": list(cs)})
        groups["triple-cuts-after-multibyte-junk-start"] = g
    if tier == "thorough":
        g = []
        for s in streams("short", 1):
            n = len(stream_bytes(s)[0])
            for cs in itertools.combinations(range(1, n), 3):
                g.append({"stream": s, "cuts": list(cs)})
        groups["triple-cuts-short-streams"] = g
        # byte-at-a-time
        g = []
        for s in long1 + streams("short", 2):
            n = len(stream_bytes(s)[0])
            g.append({"stream": s, "cuts": list(range(1, n))})
        groups["byte-at-a-time"] = g
    return groups


def run(tier: str, only=None) -> core.Result:
    res = core.Result("C05", "fault_enumeration")
    for name, cfgs in configs_for(tier).items():
        if only and name not in only:
            continue
        out = explorer.explore(RUN, cfgs, fidelity=True)
        sched.absorb(res, name, RUN, out, cfgs)
        sched.debug_pass(res, name, RUN, cfgs, every=(97 if len(cfgs) > 5000 else 11))
    if not only or "two-connections-alive" in only:
        tcfgs = two_connection_configs(tier)
        out = explorer.explore(RUN_TWO, tcfgs, fidelity=True)
        sched.absorb(res, "two-connections-alive", RUN_TWO, out, tcfgs)
    rcfgs = [{"tail": t, "end": e, "cut": c, "legacy": lg} for t in TAILS for e in ("clean", "child-dies") for c in (None, 7)
             for lg in (None, "open", "closed")]
    # per-request streams of connection 1 that were never answered, the same ids arriving in connection 2
    rcfgs += [{"tail": t, "end": e, "cut": c, "legacy": lg, "stale": st, "stale_ids": si}
              for st in STALE_KINDS for si in range(len(STALE_IDS)) for t in ("none", "plain-fragment")
              for e in ("clean", "child-dies") for c in (None, 7) for lg in (None, "open")]
    out = explorer.explore(RUN_RE, rcfgs, fidelity=True)
    sched.absorb(res, "same-client-entered-again+closed-request-stream", RUN_RE, out, rcfgs, min_outcomes=1)
    if not only or "conformance" in only:
        from . import c05_conf

        c05_conf.add_conformance_part(res, tier)
    res.coverage["exhaustive"] = True
    res.coverage["rule"] = (
        "streams = all sequences of <=L lines over the line alphabet (responses, errors, notifications, requests with "
        "ASCII/2-/3-/4-byte UTF-8, raw U+0085/U+2028/U+2029, escaped newlines; junk; JSON that is not a message; blank) "
        "x {LF, CRLF}, each followed by a sentinel line; cuts = every single position, every pair on short streams, every "
        "pair with a cut inside a multi-byte character or CRLF on long ones (thorough: triples, byte-at-a-time); "
        "plus junk lines that start with a complete message (two messages on one line, message + text / array / brace) and "
        "array lines ([1,2], [], [\"x\"], [response], [[ ]]) and well-formed messages with null members (response with "
        "error:null, request / notification with params:null, null-valued unknown members) x {no version, 2025-03-26, 2025-06-18} at every cut of one-line "
        "streams and of two-line streams (quick: reduced neighbour set, every cut only without version on LF-terminated pairs of "
        "the new lines, otherwise uncut + cuts inside characters / CRLF); every pair of cuts "
        "on short junk-with-message-prefix lines; four reads on two-line streams whose first line starts with a 2-/3-/4-byte "
        "character (or is a multi-byte / CRLF line): first cut inside a character or CRLF, second cut exactly after a line "
        "terminator, third cut at every later position (thorough: every second line of the alphabet, and every triple of cuts "
        "on short such streams); a consumer of client.notifications in {parked in receive(), busy 0.5 virtual s between "
        "receives, gone after the first item} x one-line streams (uncut + cuts inside characters / CRLF; thorough every cut), "
        "two-line streams uncut, bursts of 99/101/260 lines; the user closing the write stream before any line / between "
        "reads / after all (one-line streams uncut and cut inside characters, CRLF and at line ends - thorough every cut -, "
        "two-line streams uncut and cut at line ends, bursts); streams of exactly 65536, 131072, 65636 and 131079 bytes "
        "(about 3 KB per line, multi-byte text, CRLF and LF, junk) cut into reads of exactly 65536 / 65535+1 / 1+65535 / "
        "100+65536 / 65536+100 / 2 x 65536 ... followed by silence, end of file, or one more line; the child exiting with "
        "chunks k.. of its output still in the pipe (every k) on one- and two-line streams and bursts of 99..260 lines; "
        "junk lines whose bytes are not valid UTF-8 (Latin-1 text, binary noise, lone continuation bytes, overlong forms, "
        "truncated 3- and 4-byte sequences, surrogates, a bad first byte) x {LF, CRLF}, alone, before / after / between valid "
        "messages and twice in a row, at every cut (thorough: every pair of cuts on the one-line streams); the same client "
        "object entered again after connection 1 left per-request streams unanswered (kept / receiver closed / receiver "
        "parked; ids that come again in connection 2, an id of connection 1, an id never used); "
        "bursts of 150..400 lines with client.notifications never read, the main stream drained at the end or after every "
        "read; two connections alive on one loop: pairs of one-line streams x a cut of A "
        "inside every multi-byte character / CRLF (thorough: every position) x B uncut or cut likewise x every interleaving "
        "of A's feeds with B's start and feeds; "
        "distinct = distinct observation digests"
    )
    res.assumptions = [
        "the scripted process implements the subset of anyio.abc.Process the transport uses (stdout async iteration, stdin send/aclose, terminate/kill/wait)",
        "lines with a wrong or missing 'jsonrpc' member are outside the alphabet (the repository's suite pins them as accepted)",
        "an unterminated final fragment is not a line the child wrote",
        "a line whose bytes are not valid UTF-8 is junk (not JSON text); lines that would become JSON after replacing the bad "
        "bytes are not generated",
        "array lines: while batches are accepted (no version negotiated or one before 2025-06-18) the valid members are "
        "delivered in order, otherwise nothing of the array; what is written back to the child is C13's subject and not judged here",
        "two live connections are entered and left properly nested in one task (A, then B; B left first)",
        "the scripted stdout returns a fed chunk whole, so a chunk models one read; chunks are at most 65536 bytes in the "
        "maximum-size group; 'silence' means the harness looks at the streams after the loop has gone idle and nothing "
        "else happens",
        "a child that exits has written everything before (its output is queued in the scripted pipe, end-of-file after it)",
        "with a consumer on the notification side channel and more than 100 notifications pending, the side channel may drop "
        "in the middle: then at least 100 of them, each once, in order, are required there; the main read stream is judged "
        "exactly as without a consumer",
    ]
    return res
