"""C17 - JSON encoding is backend-independent and always a single NDJSON frame.

Engine: E-INPUT with configuration workers.  Two configurations of
``chuk_mcp.protocol.fast_json`` exist and are fixed at import time: orjson
importable, and orjson masked by a ``sys.meta_path`` blocker installed before
chuk_mcp is imported (the module then uses the standard library).  Every value
of a bounded-exhaustive JSON grammar is encoded by both configurations and every
encoding is decoded by both; the parent compares with the original value
type-strictly (``vf.jsonrpc_ref.strict_eq``: int/float/bool distinct, sign of
zero kept, key order ignored) and looks for raw line breaks in the encodings.
"""
from __future__ import annotations

import hashlib
import io
import os
import json
from typing import Any, Dict, List, Tuple

from .. import core, gen, workers
from ..jsonrpc_ref import strict_eq
from ..workers import dec, enc

HANDLER = "vf.checks.c17:child_handle"
CONFIGS = [
    {"name": "orjson", "mask": []},
    {"name": "stdlib", "mask": ["orjson"]},
]
AUDIT_MOD = 53
BLOCK = 3000

# ---------------------------------------------------------------------------
# the value space
# ---------------------------------------------------------------------------
I53, I63, I64 = 2 ** 53, 2 ** 63, 2 ** 64


def scalars_ext() -> List[Any]:
    s: List[Any] = list(gen.SCALARS_CORE)
    s += [chr(c) for c in range(0x20)]                      # every C0 control
    s += [chr(c) for c in range(0x7F, 0xA0)]                # DEL and every C1 control
    s += ["\ud7ff", "\ue000", "\ufffe", "\uffff", "\U00010000", "\U0010ffff"]
    # strings whose TEXT looks like JSON syntax: a token of the grammar (or of its JavaScript supersets) right after a
    # structural character - what a text-level post-processing of the encoder output would mistake for a value
    for tok in ("NaN", "Infinity", "-Infinity", "null", "true", "false", "1e999", "undefined"):
        for pre in (":", ": ", ",", ", ", "[", "[ "):
            s.append(pre + tok)
        s += [pre + tok + post for pre, post in ((":", ","), ("[", "]"), (",", "}"))]
    s += ["{\"a\":NaN}", "[Infinity,-Infinity]", "\"k\":null", "\\\":NaN", "a\":NaN,\"b", "/*c*/", "//c", "\\u0041"]
    s += ["".join(chr(c) for c in range(0x20)), "\r\n", "a\nb\rc", "x\u2028y\u2029z\u0085w",
          "\u00e9\u20ac\U0001F600\U0010ffff", "\\n", "\\u000a", "</script>", "\x7f\x80\x9f"]
    ints = [I53 - 1, I53, I53 + 1, -(I53 - 1), -I53, -(I53 + 1), I63 - 1, I63, I63 + 1, I64 - 1,
            -I63, -(I63 - 1), 2 ** 31, 2 ** 31 - 1, -(2 ** 31), 2 ** 32, 10 ** 15, 10 ** 16 + 1, 10 ** 19,
            -(10 ** 18), 12345678901234567890]
    for k in range(0, 65):                                   # every power of two and both neighbours
        for d in (-1, 0, 1):
            for sign in (1, -1):
                n = sign * (2 ** k + d)
                if -I63 <= n <= I64 - 1:
                    ints.append(n)
    s += ints
    s += [-0.0, 1e308, 5e-324, 2.2250738585072014e-308, 0.1 + 0.2, 1.7976931348623157e308, -1.7976931348623157e308,
          2.225073858507201e-308, -5e-324, 1e-7, 1e16, 1e22, 1e23, 1.5, -1.5, 1.0, -1.0, 100.0, 1e15, 1e17,
          123456789.12345679, 1 / 3, 2.0 ** 53, 2.0 ** 63, 2.0 ** 64, float(I53 + 2), 9007199254740993.0,
          4.35, 0.3, 1e-5, 1e21, 123e-20]
    return dedupe(s)


KEYS_EXT = [":NaN", "[Infinity", "k", "", "\u00e9", "a b", "\n", "\r", "\x00", "\x1f", "\x7f", "\u0085", "\u2028", "\u2029",
            "\ud7ff", "\uffff", "\U0001F600", "\U0010ffff", "\"", "\\", "\t", "\u20ac"]
INNER = list(gen.SCALARS_SMALL) + [False, -1, I64 - 1, -I63, I53 + 1, 1e308, 5e-324, "\r", "\x00\x1f\x7f\u0085",
                                    "\U0010ffff"]


def dedupe(vals) -> List[Any]:
    seen = set()
    out = []
    for v in vals:
        k = workers.canon(v)
        if k in seen:
            continue
        seen.add(k)
        out.append(v)
    return out


def value_space(tier: str):
    """Generator of (group, value); duplicates across groups are removed by the caller."""
    ext = scalars_ext()
    yield from (("scalars+depth1:ext", v) for v in gen.json_values(1, ext, ext, KEYS_EXT))
    yield from (("depth2:inner-ext", v) for v in gen.json_values(2, ext, INNER, KEYS_EXT))
    if tier == "thorough":
        yield from (("depth3:small", v) for v in gen.json_values(3, ext, gen.SCALARS_SMALL, gen.KEYS + ["\n", "\u2028"]))


def nontrivial(v: Any) -> bool:
    """Does the value exercise codec-specific behaviour: a float, an integer
    outside +-2^53, or a string/key that needs escaping or is not ASCII."""
    if isinstance(v, bool) or v is None:
        return False
    if isinstance(v, float):
        return True
    if isinstance(v, int):
        return abs(v) > I53
    if isinstance(v, str):
        return any(ord(ch) < 0x20 or ord(ch) > 0x7E or ch in "\"\\" for ch in v)
    if isinstance(v, list):
        return any(nontrivial(x) for x in v)
    if isinstance(v, dict):
        return any(nontrivial(k) or nontrivial(x) for k, x in v.items())
    return False


# ---------------------------------------------------------------------------
# child side
# ---------------------------------------------------------------------------
def child_hello() -> Dict[str, Any]:
    import sys

    from chuk_mcp.protocol import fast_json

    if os.environ.get("VF_C17_CODEC_ONLY"):
        # workers that only ever fork children calling fast_json: keep the process small, forks are cheaper
        return {"HAS_ORJSON": bool(fast_json.HAS_ORJSON), "orjson_loaded": "orjson" in sys.modules}
    from chuk_mcp.protocol import mcp_pydantic_base as b

    return {"HAS_ORJSON": bool(fast_json.HAS_ORJSON), "orjson_loaded": "orjson" in sys.modules,
            "PYDANTIC_AVAILABLE": bool(b.PYDANTIC_AVAILABLE)}


def _try(f):
    try:
        return {"v": f()}
    except BaseException as e:  # noqa: BLE001 - reported as an observation
        return {"exc": type(e).__name__, "detail": str(e)[:120]}


def _same(ans: Dict[str, Any]) -> Dict[str, Any]:
    """Pipe economy: an entry identical to the first one is sent as "="."""
    first = None
    for k in list(ans):
        if first is None:
            first = ans[k]
        elif ans[k] == first:
            ans[k] = "="
    return ans


def _expand(ans: Dict[str, Any]) -> Dict[str, Any]:
    first = None
    for k in ans:
        if first is None:
            first = ans[k]
        elif ans[k] == "=":
            ans[k] = first
    return ans


# ---------------------------------------------------------------------------
# statefulness of the decoder: what one consumer does to a decoded value must not reach the next decode
# ---------------------------------------------------------------------------
def _containers(v: Any, depth: int, out: List[Any]) -> None:
    if isinstance(v, (list, dict)):
        out.append(v)
        if depth < 2:
            for x in (v.values() if isinstance(v, dict) else v):
                _containers(x, depth + 1, out)


def _mutate_in_place(v: Any) -> int:
    """At the top level and at depth 1 and 2: append to every list, replace its first item; set a new key in
    every dict and delete its first key.  Returns the number of containers touched."""
    found: List[Any] = []
    _containers(v, 0, found)
    for c in found:
        if isinstance(c, list):
            if c:
                c[0] = "vf-mut-item"
            c.append("vf-mut")
        else:
            for k in list(c)[:1]:
                del c[k]
            c["vf-mut"] = 1
    return len(found)


def child_state(v: Any) -> Dict[str, Any]:
    from chuk_mcp.protocol import fast_json

    t = fast_json.dumps(v)
    b = t.encode("utf-8")
    apis = {"loads-str": lambda: fast_json.loads(t), "loads-bytes": lambda: fast_json.loads(b),
            "load-text": lambda: fast_json.load(io.StringIO(t)), "load-bytes": lambda: fast_json.load(io.BytesIO(b))}
    out: Dict[str, Any] = {"shared": [], "changed": [], "containers": 0}
    try:
        for name, f in apis.items():
            first, second = f(), f()
            c1: List[Any] = []
            c2: List[Any] = []
            _containers(first, 0, c1)
            _containers(second, 0, c2)
            ids = {id(c) for c in c1}
            if any(id(c) in ids for c in c2):
                out["shared"].append(name)
            out["containers"] = max(out["containers"], _mutate_in_place(first))
            for name2, g in apis.items():
                again = g()
                if not strict_eq(v, again):
                    out["changed"].append([name, name2, diff_kind(v, again)])
    except BaseException as e:  # noqa: BLE001
        out["exc"] = f"{type(e).__name__}: {e}"[:160]
    return out


# ---------------------------------------------------------------------------
# deeply nested values: the codecs have different nesting limits for encoding and for decoding
# ---------------------------------------------------------------------------
DEEP_KINDS = ["arrays", "objects", "alternating"]
DEEP_LEAVES = ["caf\u00e9 \U0001F600", I64 - 1, -0.0, {}, []]
# around orjson's encoder limit (254), its decoder limit (1024), and below what the standard library follows (~1490)
DEEP_DEPTHS = [200, 253, 254, 255, 256, 300, 1000, 1023, 1024, 1025, 1026, 1100, 1400]


def deep_cases() -> List[List[Any]]:
    return [[k, d, li] for k in range(len(DEEP_KINDS)) for li in range(len(DEEP_LEAVES)) for d in DEEP_DEPTHS]


def build_deep(desc: List[Any]) -> Any:
    kind, depth, li = DEEP_KINDS[desc[0]], desc[1], desc[2]
    v = DEEP_LEAVES[li]
    for level in range(depth):
        as_object = kind == "objects" or (kind == "alternating" and level % 2 == 1)
        v = {"k\u00e9" if kind == "alternating" else "k": v} if as_object else [v]
    return v


def deep_equal(a: Any, b: Any) -> bool:
    """strict_eq for very deep single-child chains, without recursion along the chain."""
    while True:
        if type(a) is not type(b):
            return False
        if isinstance(a, list) and len(a) == 1 and len(b) == 1:
            a, b = a[0], b[0]
        elif isinstance(a, dict) and len(a) == 1 and len(b) == 1 and list(a) == list(b):
            k = next(iter(a))
            a, b = a[k], b[k]
        else:
            return strict_eq(a, b)


def child_deep_enc(desc: List[Any]) -> Dict[str, Any]:
    from chuk_mcp.protocol import fast_json

    v = build_deep(desc)
    out = {}
    for api, f in (("dumps", lambda: fast_json.dumps(v)), ("dumps-compact", lambda: fast_json.dumps(v, separators=(",", ":")))):
        try:
            t = f()
            out[api] = {"text": t} if isinstance(t, str) else {"exc": "not-a-str"}
        except BaseException as e:  # noqa: BLE001
            out[api] = {"exc": type(e).__name__}
    return out


def child_deep_dec(desc: List[Any], text: str) -> Dict[str, Any]:
    from chuk_mcp.protocol import fast_json

    v = build_deep(desc)
    b = text.encode("utf-8")
    out = {}
    for api, f in (("loads-str", lambda: fast_json.loads(text)), ("loads-bytes", lambda: fast_json.loads(b)),
                   ("load-text", lambda: fast_json.load(io.StringIO(text))), ("load-bytes", lambda: fast_json.load(io.BytesIO(b)))):
        try:
            out[api] = "equal" if deep_equal(v, f()) else "differs"
        except BaseException as e:  # noqa: BLE001
            out[api] = "raises:" + type(e).__name__
    return out


def describe_deep(desc: List[Any]) -> str:
    return f"{desc[1]} nested {DEEP_KINDS[desc[0]]} around {DEEP_LEAVES[desc[2]]!r}"


def judge_deep(pools: Dict[str, workers.Pool], tally: Tally, audit_store: Dict[str, list]):
    from .. import orderdep

    names = list(pools)
    descs = deep_cases()
    enc_cases = [["deep-enc", d] for d in descs]
    ea = orderdep.per_config([{"name": n} for n in names], lambda c: pools[c["name"]].map(enc_cases))
    viol: List[Tuple[int, dict, str]] = []
    dec_cases: List[Any] = []
    origin: List[Tuple[int, str, str]] = []
    for n in names:
        for i in workers.audit_indices(enc_cases, 5):
            audit_store.setdefault(n, []).append((enc_cases[i], ea[n][i]))
        for i, a in enumerate(ea[n]):
            if "harness_exc" in a:
                raise core.HarnessError(f"worker {n}: {a['harness_exc']}")
            for api, r in a.items():
                tally.add("deep_encodings")
                if "exc" in r:
                    viol.append((i, {"class": "dumps-raised", "enc": n, "api": api, "exception": r["exc"], "value": "deep-nesting"},
                                 f"{api} under {n} raised {r['exc']} for {describe_deep(descs[i])}"))
                    continue
                if "\n" in r["text"] or "\r" in r["text"]:
                    viol.append((i, {"class": "raw-line-break", "enc": n, "api": api}, f"{api} under {n} of {describe_deep(descs[i])}"))
                dec_cases.append(["deep-dec", descs[i], r["text"]])
                origin.append((i, n, api))
    da = orderdep.per_config([{"name": n} for n in names], lambda c: pools[c["name"]].map(dec_cases))
    for n in names:
        for j in workers.audit_indices(dec_cases, 11):
            audit_store.setdefault(n, []).append((dec_cases[j], da[n][j]))
        for j, a in enumerate(da[n]):
            if "harness_exc" in a:
                raise core.HarnessError(f"worker {n}: {a['harness_exc']}")
            i, prod, api = origin[j]
            for dapi, verdict in a.items():
                tally.add("deep_roundtrips_judged")
                if verdict != "equal":
                    band = "beyond-1024" if descs[i][1] > 1024 else "255..1024" if descs[i][1] > 254 else "up-to-254"
                    viol.append((i, {"class": "loads-raised" if verdict.startswith("raises") else "roundtrip-mismatch", "enc": prod,
                                     "dec": n, "api": f"{api}/{dapi}", "value": "deep-nesting", "depth": band,
                                     "exception": verdict.partition(":")[2] or None},
                                 f"{dapi}[{n}]({api}[{prod}](v)) for v = {describe_deep(descs[i])}: {verdict}"))
    return descs, viol


# ---------------------------------------------------------------------------
# the file API: dump(obj, fp) / load(fp) over binary files, text files of several encodings, StringIO, BytesIO
# ---------------------------------------------------------------------------
FILE_KINDS = ["binary-file", "BytesIO", "StringIO", "text:utf-8", "text:ascii", "text:latin-1", "text:cp1252", "text:utf-16"]
# write-only sinks that are not io classes: what write() returns is up to them (asyncio.StreamWriter.write and many wrappers
# return None, raw files return the count, a careless wrapper something else)
NDJSON_KINDS = ["text:utf-8", "text:ascii", "text:latin-1", "text:utf-16", "binary-file", "BytesIO", "StringIO"]
SINK_KINDS = [f"{mode}-sink:write-returns-{ret}" for mode in ("binary", "text") for ret in ("None", "count", "wrong-count", "True")]


class _Sink:
    def __init__(self, mode: str, ret: str):
        self.mode, self.ret, self.chunks = mode, ret, []

    def write(self, data):
        if self.mode == "binary" and not isinstance(data, (bytes, bytearray, memoryview)):
            raise TypeError("a bytes-like object is required, not 'str'")
        if self.mode == "text" and not isinstance(data, str):
            raise TypeError("write() argument must be str, not bytes")
        self.chunks.append(bytes(data) if self.mode == "binary" else data)
        return {"None": None, "count": len(data), "wrong-count": max(0, len(data) - 1), "True": True}[self.ret]

    def text(self) -> str:
        return b"".join(self.chunks).decode("utf-8") if self.mode == "binary" else "".join(self.chunks)


def _open_for_write(kind: str):
    """(file object, function returning the text that was written - decoded with the file's codec)"""
    if kind == "StringIO":
        fp = io.StringIO()
        return fp, fp.getvalue
    if "-sink:" in kind:
        sink = _Sink(kind.split("-sink:")[0], kind.rsplit("-returns-", 1)[1])
        return sink, sink.text
    raw = io.BytesIO()
    if kind == "BytesIO":
        return raw, lambda: raw.getvalue().decode("utf-8")
    if kind == "binary-file":
        fp = io.BufferedWriter(raw)                       # what open(path, "wb") returns, without touching the disk

        def text():
            fp.flush()
            return raw.getvalue().decode("utf-8")

        return fp, text
    codec = kind.split(":", 1)[1]
    fp = io.TextIOWrapper(raw, encoding=codec, newline="")   # what open(path, "w", encoding=codec) returns

    def text():
        fp.flush()
        return raw.getvalue().decode(codec)

    return fp, text


def _open_for_read(kind: str, text: str):
    if kind == "StringIO":
        return io.StringIO(text)
    if kind in ("BytesIO", "binary-file"):
        raw = io.BytesIO(text.encode("utf-8"))
        return raw if kind == "BytesIO" else io.BufferedReader(raw)
    codec = kind.split(":", 1)[1]
    return io.TextIOWrapper(io.BytesIO(text.encode(codec)), encoding=codec, newline="")


def child_file(v: Any) -> Dict[str, Any]:
    from chuk_mcp.protocol import fast_json

    out: Dict[str, Any] = {"dump": {}, "load": {}}
    for kind in FILE_KINDS + SINK_KINDS:
        try:
            fp, text = _open_for_write(kind)
            fast_json.dump(v, fp)
            try:
                out["dump"][kind] = {"text": text()}
            except (UnicodeDecodeError, UnicodeError) as e:
                out["dump"][kind] = {"undecodable": type(e).__name__}
        except BaseException as e:  # noqa: BLE001 - an observation
            out["dump"][kind] = {"exc": type(e).__name__}
    # the NDJSON loop: dump(doc, fp); fp.write(newline); ... on one open file
    out["ndjson"] = {}
    docs = [v, [v], {"k": v}]
    for kind in NDJSON_KINDS:
        try:
            fp, text = _open_for_write(kind)
            nl = b"\n" if kind in ("binary-file", "BytesIO") else "\n"
            for d_ in docs:
                fast_json.dump(d_, fp)
                fp.write(nl)
            out["ndjson"][kind] = {"text": text()}
        except BaseException as e:  # noqa: BLE001
            out["ndjson"][kind] = {"exc": type(e).__name__}
    sources = {"ascii-text": json.dumps(v), "raw-text": json.dumps(v, ensure_ascii=False)}
    for kind in FILE_KINDS:
        for sname, t in sources.items():
            try:
                fp = _open_for_read(kind, t)
            except UnicodeEncodeError:
                continue                                       # this codec cannot hold the raw text: not an input
            try:
                out["load"][f"{kind}/{sname}"] = {"v": enc(fast_json.load(fp))}
            except BaseException as e:  # noqa: BLE001
                out["load"][f"{kind}/{sname}"] = {"exc": type(e).__name__}
    return out


def file_values() -> List[Any]:
    """The string cases of the value grammar: every boundary string as a scalar, as an item, as a member value, as a key."""
    strings = [x for x in scalars_ext() if isinstance(x, str)]
    vals: List[Any] = []
    for x in strings:
        vals += [x, [x], {"k": x}, {x: 1}]
    vals += [{"a": [1, 2.5, True, None, I64 - 1, -0.0], "\u00e9": {"k": "\u20ac\U0001F600"}}, [], {}, 0, None]
    return dedupe(vals)


def judge_files(values: List[Any], pools: Dict[str, workers.Pool], tally: Tally, audit_store: Dict[str, list]):
    from .. import orderdep

    names = list(pools)
    cases = [["file", enc(v)] for v in values]
    ans = orderdep.per_config([{"name": n} for n in names], lambda c: pools[c["name"]].map(cases))
    viol: List[Tuple[int, dict, str]] = []
    texts: Dict[str, int] = {}
    text_list: List[str] = []
    produced = []
    for n in names:
        for i in workers.audit_indices(cases, 7):
            audit_store.setdefault(n, []).append((cases[i], ans[n][i]))
    for i, v in enumerate(values):
        want = cases[i][1]
        for n in names:
            if "harness_exc" in ans[n][i]:
                raise core.HarnessError(f"worker {n}: {ans[n][i]['harness_exc']}")
        for kind in FILE_KINDS + SINK_KINDS:
            res_ = {n: ans[n][i]["dump"][kind] for n in names}
            tally.add("file_dumps", len(names))
            ok = {n: "text" in r for n, r in res_.items()}
            if len(set(ok.values())) > 1:
                good = [n for n in names if ok[n]][0]
                bad = [n for n in names if not ok[n]][0]
                viol.append((i, {"class": "dump-to-file-succeeds-under-one-backend-only", "file": kind, "succeeds_under": good,
                                 "fails_with": res_[bad].get("exc") or res_[bad].get("undecodable")},
                             f"dump(v, {kind}) for v={short(v)}: fine under {good}, under {bad} -> {res_[bad]}"))
            for n in names:
                r = res_[n]
                if "undecodable" in r:
                    viol.append((i, {"class": "file-content-not-in-the-files-encoding", "file": kind, "enc": n},
                                 f"dump(v, {kind}) under {n} for v={short(v)} wrote bytes that do not decode with the file's codec"))
                if "text" in r:
                    t = r["text"]
                    if "\n" in t or "\r" in t:
                        viol.append((i, {"class": "raw-line-break", "enc": n, "api": f"dump({kind})"},
                                     f"dump(v, {kind}) under {n} of {short(v)} contains a raw line break"))
                    ti = texts.setdefault(t, len(text_list))
                    if ti == len(text_list):
                        text_list.append(t)
                    produced.append((i, n, kind, ti))
        for kind in NDJSON_KINDS:
            for n in names:
                r = ans[n][i].get("ndjson", {}).get(kind, {"exc": "missing"})
                tally.add("ndjson_files")
                other = ans[[m for m in names if m != n][0]][i]["ndjson"][kind]
                if "exc" in r:
                    if "exc" not in other:
                        viol.append((i, {"class": "ndjson-loop-fails-under-one-backend-only", "file": kind, "enc": n, "exception": r["exc"]},
                                     f"dump(doc, fp); fp.write(newline) x3 on {kind} under {n} for v={short(v)} raised {r['exc']}"))
                    continue
                lines = r["text"].split("\n")
                good = len(lines) == 4 and lines[3] == ""
                if good:
                    try:
                        good = all(strict_eq(json.loads(ln), d_) for ln, d_ in zip(lines[:3], [v, [v], {"k": v}]))
                    except ValueError:
                        good = False
                if not good:
                    viol.append((i, {"class": "ndjson-file-content-wrong", "file": kind, "enc": n},
                                 f"dump(doc, fp); fp.write(newline) for three documents on {kind} under {n}, v={short(v)}: the file "
                                 f"holds {r['text'][:160]!r} instead of one document per line"))
        for key_, by in ((k_, {n: ans[n][i]["load"].get(k_) for n in names}) for k_ in ans[names[0]][i]["load"]):
            for n, r in by.items():
                if r is None:
                    continue
                tally.add("file_loads")
                if "exc" in r:
                    viol.append((i, {"class": "load-from-file-raised", "dec": n, "file": key_, "exception": r["exc"]},
                                 f"load({key_}) under {n} raised {r['exc']} for the JSON text of {short(v)}"))
                elif r["v"] != want and not strict_eq(v, dec(r["v"])):
                    viol.append((i, {"class": "load-from-file-mismatch", "dec": n, "file": key_},
                                 f"load({key_}) under {n} gave {short(dec(r['v']))} for the JSON text of {short(v)}"))
    dec_cases = [["dec", t] for t in text_list]
    dec_ans = orderdep.per_config([{"name": n} for n in names], lambda c: pools[c["name"]].map(dec_cases))
    for (i, prod, kind, ti) in produced:
        for n in names:
            r = _expand(dict(dec_ans[n][ti]))["loads-str"]
            tally.add("file_roundtrips_judged")
            if "exc" in r:
                viol.append((i, {"class": "file-content-does-not-load", "enc": prod, "dec": n, "file": kind},
                             f"what dump(v, {kind}) wrote under {prod} for v={short(values[i])} does not load under {n} "
                             f"({r['exc']}): {text_list[ti][:100]!r}"))
            elif r["v"] != cases[i][1] and not strict_eq(values[i], dec(r["v"])):
                viol.append((i, {"class": "file-roundtrip-mismatch", "enc": prod, "dec": n, "file": kind},
                             f"what dump(v, {kind}) wrote under {prod} loads under {n} to {short(dec(r['v']))}, v={short(values[i])}"))
    return viol


# keyword arguments json.dumps accepts that still ask for a compact (single line) encoding
COMPACT_KW: List[Tuple[str, Dict[str, Any]]] = [
    ("indent=None", {"indent": None}),
    ("indent=None,separators", {"indent": None, "separators": (",", ":")}),
    # the call the fallback model base makes in model_dump_json
    ("indent=None,separators,default=str", {"indent": None, "separators": (",", ":"), "default": str}),
    ("sort_keys=False", {"sort_keys": False}),
    ("sort_keys=True", {"sort_keys": True}),
    ("ensure_ascii=True", {"ensure_ascii": True}),
    ("ensure_ascii=False", {"ensure_ascii": False}),
    ("default=None", {"default": None}),
    ("default=str", {"default": str}),
    ("check_circular=False", {"check_circular": False}),
    ("allow_nan=True", {"allow_nan": True}),
    ("skipkeys=False", {"skipkeys": False}),
    ("cls=None", {"cls": None}),
    ("indent=None,sort_keys=False,ensure_ascii=True,default=None",
     {"indent": None, "sort_keys": False, "ensure_ascii": True, "default": None}),
]
BASE_KW = ("indent=None,separators,default=str",)      # also applied to the values of the deepest group


def child_handle(case: Any) -> Any:
    from chuk_mcp.protocol import fast_json

    op = case[0]
    if op == "msg":
        return child_message(dec(case[1]))
    if op == "msg-shared":
        return child_message(share_containers(dec(case[1])))
    if op == "state":
        return child_state(dec(case[1]))
    if op == "seq":
        from .. import encseq

        return encseq.child_seq(case)
    if op == "file":
        return child_file(dec(case[1]))
    if op == "deep-enc":
        return child_deep_enc(case[1])
    if op == "deep-dec":
        return child_deep_dec(case[1], case[2])
    if op == "enc":
        v = dec(case[1])
        level = case[2] if len(case) > 2 else "full"

        def to_fp(**kw):
            fp = io.StringIO()
            fast_json.dump(v, fp, **kw)
            return fp.getvalue()

        def text(f):
            r = _try(f)
            if "v" in r and not isinstance(r["v"], str):
                return {"exc": "not-a-str", "detail": type(r["v"]).__name__}
            return r

        out = {"dumps": text(lambda: fast_json.dumps(v)),
               "dumps-compact": text(lambda: fast_json.dumps(v, separators=(",", ":"))),
               "dump-fp": text(to_fp)}
        for name, kw in COMPACT_KW:
            if level == "full" or name in BASE_KW:
                out[f"dumps({name})"] = text(lambda kw=kw: fast_json.dumps(v, **kw))
        if level == "full":
            out["dump-fp(indent=None)"] = text(lambda: to_fp(indent=None))
            out["dump-fp(indent=None,separators)"] = text(lambda: to_fp(indent=None, separators=(",", ":")))
        return _same(out)
    if op == "dec":
        t = case[1]
        b = t.encode("utf-8")

        def tagged(f):
            r = _try(f)
            if "v" in r:
                r["v"] = enc(r["v"])
            return r

        return _same({"loads-str": tagged(lambda: fast_json.loads(t)),
                      "loads-bytes": tagged(lambda: fast_json.loads(b)),
                      "load-text": tagged(lambda: fast_json.load(io.StringIO(t))),
                      "load-bytes": tagged(lambda: fast_json.load(io.BytesIO(b)))})
    raise ValueError(f"unknown op {op!r}")


# ---------------------------------------------------------------------------
# parent side: judging a block of values
# ---------------------------------------------------------------------------
def diff_kind(a: Any, b: Any) -> str:
    """Class of the first difference between the value a and what came back."""
    if type(a) is not type(b):
        return f"{type(a).__name__}-became-{type(b).__name__}"
    if isinstance(a, dict):
        if a.keys() != b.keys():
            return "keys-changed"
        for k in a:
            if not strict_eq(a[k], b[k]):
                return diff_kind(a[k], b[k])
    if isinstance(a, list):
        if len(a) != len(b):
            return "length-changed"
        for x, y in zip(a, b):
            if not strict_eq(x, y):
                return diff_kind(x, y)
    if isinstance(a, float):
        return "sign-of-zero" if a == b else "float-value-changed"
    if isinstance(a, str):
        return "string-changed"
    return f"{type(a).__name__}-value-changed"


def short(v: Any, n: int = 160) -> str:
    s = json.dumps(v, ensure_ascii=True)
    return s if len(s) <= n else s[:n] + "..."


class Tally:
    def __init__(self):
        self.c: Dict[str, int] = {}

    def add(self, k: str, n: int = 1):
        self.c[k] = self.c.get(k, 0) + n


def judge_block(values: List[Any], pools: Dict[str, workers.Pool], tally: Tally, audit_store: Dict[str, list],
                level: str = "full", state_pools: Any = None):
    """Encode every value under every configuration, decode every distinct
    encoding under every configuration, compare.  Returns [(index, sig, msg)]."""
    names = list(pools)
    enc_cases = [["enc", enc(v), level] for v in values]
    enc_ans = {n: pools[n].map(enc_cases) for n in names}
    viol: List[Tuple[int, dict, str]] = []
    texts: Dict[str, int] = {}
    text_list: List[str] = []
    produced: List[Tuple[int, str, str, int]] = []     # (value index, producer, api, text index)
    for n in names:
        _keep_audit(audit_store, n, enc_cases, enc_ans[n])
        for i, a in enumerate(enc_ans[n]):
            if "harness_exc" in a:
                raise core.HarnessError(f"worker {n}: {a['harness_exc']}")
            for api, r in _expand(dict(a)).items():
                tally.add("encodings")
                if "exc" in r:
                    viol.append((i, {"class": "dumps-raised", "enc": n, "api": api, "exception": r["exc"]},
                                 f"{api} under {n} raised {r['exc']}: {r.get('detail')} for value {short(values[i])}"))
                    continue
                t = r["v"]
                if "\n" in t or "\r" in t:
                    viol.append((i, {"class": "raw-line-break", "enc": n, "api": api},
                                 f"{api} under {n} of {short(values[i])} contains a raw line break: {t[:120]!r}"))
                if any(ch in t for ch in "\u0085\u2028\u2029"):
                    tally.add(f"encodings_with_raw_unicode_line_separator:{n}")
                ti = texts.get(t)
                if ti is None:
                    ti = texts[t] = len(text_list)
                    text_list.append(t)
                produced.append((i, n, api, ti))
    for i in range(len(values)):
        d = [enc_ans[n][i]["dumps"].get("v") for n in names]  # "dumps" is the first entry, never "="
        if len(set(d)) > 1:
            tally.add("values_encoded_differently_by_the_backends")
    tally.add("distinct_encodings", len(text_list))
    dec_cases = [["dec", t] for t in text_list]
    dec_ans = {n: pools[n].map(dec_cases) for n in names}
    for n in names:
        _keep_audit(audit_store, n, dec_cases, dec_ans[n])
        for a in dec_ans[n]:
            if "harness_exc" in a:
                raise core.HarnessError(f"worker {n}: {a['harness_exc']}")
    # (value, encoding) pairs are judged once per consumer and per distinct answer;
    # every producer/api that gave this encoding shares the verdict
    by_pair: Dict[Tuple[int, int], List[Tuple[str, str]]] = {}
    for (i, prod, api, ti) in produced:
        by_pair.setdefault((i, ti), []).append((prod, api))
    for (i, ti), prods in by_pair.items():
        v = values[i]
        want = enc_cases[i][1]
        for n in names:
            verdicts: List[Tuple[Any, Any]] = []      # (tagged answer, None | ("exc", r) | ("diff", got))
            answers_n = _expand(dict(dec_ans[n][ti]))
            tally.add("roundtrips_judged", len(prods) * len(answers_n))
            for prod in names:
                k = sum(1 for pr, _ in prods if pr == prod)
                if k:
                    tally.add(f"pair:{prod}->{n}", k * len(answers_n))
            for dapi, r in answers_n.items():
                if "exc" in r:
                    for prod, api in prods:
                        viol.append((i, {"class": "loads-raised", "enc": prod, "dec": n, "api": f"{api}/{dapi}",
                                         "exception": r["exc"]},
                                     f"{dapi} under {n} raised {r['exc']}: {r.get('detail')} on {text_list[ti][:120]!r} "
                                     f"({api} under {prod} of {short(v)})"))
                    continue
                tv = r["v"]
                if tv == want:                      # identical tagged form: equal, same key order
                    continue
                verdict = None
                for (seen_tv, seen_verdict) in verdicts:
                    if seen_tv == tv:
                        verdict = seen_verdict
                        break
                else:
                    got = dec(tv)
                    verdict = ("ok", None) if strict_eq(v, got) else ("diff", got)
                    verdicts.append((tv, verdict))
                if verdict[0] == "diff":
                    got = verdict[1]
                    for prod, api in prods:
                        viol.append((i, {"class": "roundtrip-mismatch", "enc": prod, "dec": n, "api": f"{api}/{dapi}",
                                         "diff": diff_kind(v, got)},
                                     f"{dapi}[{n}]({api}[{prod}](v)) != v for v={short(v)}: encoding "
                                     f"{text_list[ti][:120]!r} decoded to {short(got)}"))
    # statefulness: decode, mutate the decoded value in place, decode again (every container value)
    idx = [i for i, v in enumerate(values) if isinstance(v, (list, dict))]
    if idx:
        st_cases = [["state", enc_cases[i][1]] for i in idx]
        # processes of their own: what the mutations leave behind in a stateful decoder must not reach the
        # encode/decode answers above
        sp = state_pools or pools
        st_ans = {n: sp[n].map(st_cases) for n in names}
        for n in names:
            _keep_audit(audit_store, n, st_cases, st_ans[n])
            for i, a in zip(idx, st_ans[n]):
                if "harness_exc" in a:
                    raise core.HarnessError(f"worker {n}: {a['harness_exc']}")
                tally.add("decode_mutate_decode_sequences", 16)
                tally.add("containers_mutated", a.get("containers", 0))
                if "exc" in a:
                    viol.append((i, {"class": "decode-sequence-raised", "dec": n}, f"decode/mutate/decode of {short(values[i])} under {n}: {a['exc']}"))
                for api in a.get("shared", []):
                    viol.append((i, {"class": "decoded-values-share-state", "dec": n, "api": api},
                                 f"two calls of {api} under {n} on the encoding of {short(values[i])} returned values that share a "
                                 f"mutable nested object"))
                for (api1, api2, kind) in a.get("changed", []):
                    viol.append((i, {"class": "decode-after-mutation-differs", "dec": n, "mutated_via": api1, "decoded_via": api2},
                                 f"under {n}: v={short(values[i])} decoded with {api1}, the result mutated in place, then decoded "
                                 f"again with {api2}: no longer equal to v ({kind})"))
    return viol


def _keep_audit(store: Dict[str, list], name: str, cases: List[Any], answers: List[Any]):
    for i in workers.audit_indices(cases, AUDIT_MOD):
        store.setdefault(name, []).append((cases[i], answers[i]))



# ---------------------------------------------------------------------------
# the message path: typed JSON-RPC messages -> model_dump_json / the stdio writer
# ---------------------------------------------------------------------------
MSG_CONFIGS = [
    {"name": "orjson+pydantic", "mask": [], "env_unset": ["MCP_FORCE_FALLBACK"]},
    {"name": "orjson+fallback", "mask": [], "env_set": {"MCP_FORCE_FALLBACK": "1"}},
    {"name": "stdlib+pydantic", "mask": ["orjson"], "env_unset": ["MCP_FORCE_FALLBACK"]},
    {"name": "stdlib+fallback", "mask": ["orjson"], "env_set": {"MCP_FORCE_FALLBACK": "1"}},
]
MSG_WANT = {"orjson+pydantic": (True, True), "orjson+fallback": (True, False),
            "stdlib+pydantic": (False, True), "stdlib+fallback": (False, False)}
MSG_AUDIT_MOD = 5


def message_space() -> List[Dict[str, Any]]:
    ids = [1, 0, 2 ** 53 + 1, "a", "\u00e9\n\r\u2028", ""]
    payloads: List[Any] = [
        {},
        {"k": 1},
        {"text": "line1\nline2\r\n\u2028\u2029\u0085\x00\x1f\x7f", "k\n": "v\r", "\u00e9": "\U0001F600\U0010ffff"},
        {"n": [0, -1, I53 + 1, I63, I64 - 1, -I63], "f": [0.5, -0.0, 1e308, 5e-324, 0.1 + 0.2], "b": [True, False, None]},
        {"nested": {"a": {"b": {"c": [[], {}, [[1]], {"": ""}]}}}},
        {"_meta": {"progressToken": "t\n"}, "schema": {"type": "object"}, "content": [{"type": "text", "text": "a\nb"}]},
        {"html": "</script><!--", "q": "\"\\", "u": "\\u000a", "nul": None},
    ]
    out: List[Dict[str, Any]] = []
    j = {"jsonrpc": "2.0"}
    for i in ids:
        for m in ("tools/call", "x/\u00e9\n"):
            out.append({**j, "id": i, "method": m})
            for p in payloads:
                out.append({**j, "id": i, "method": m, "params": p})
        for p in payloads + [[1, "a\nb"], "s\n\r", 0, -0.0, True]:
            out.append({**j, "id": i, "result": p})
        for d in (None, "d\n", payloads[2], payloads[3]):
            e = {"code": -32000, "message": "m\n\r\u2028"}
            if d is not None:
                e["data"] = d
            out.append({**j, "id": i, "error": e})
    for m in ("notifications/message", "n/\u2028"):
        out.append({**j, "method": m})
        for p in payloads:
            out.append({**j, "method": m, "params": p})
    return out


def share_containers(wire: Dict[str, Any]) -> Dict[str, Any]:
    """The same envelope with ONE container object occurring several times inside its payload (siblings in an object, in a
    list, parent and child position) - never containing itself: what application code builds when it reuses a dict."""
    w = dict(wire)
    for key in ("params", "result"):
        if isinstance(w.get(key), dict):
            p = w[key]
            inner = [1, {"k": "v\n"}]
            w[key] = {"first": p, "second": p, "list": [p, p, inner], "again": {"deep": inner, "p": p}}
    if isinstance(w.get("error"), dict) and isinstance(w["error"].get("data"), (dict, list)):
        d = w["error"]["data"]
        w["error"] = {**w["error"], "data": {"a": d, "b": d, "l": [d, d]}}
    return w


def child_message(wire: Dict[str, Any]) -> Dict[str, Any]:
    """Every typed form of this envelope x every way the package turns it into text."""
    import asyncio

    from chuk_mcp.protocol.messages import json_rpc_message as J
    from chuk_mcp.transports.stdio.stdio_client import StdioClient

    from .. import seams
    from ..vloop import new_loop

    kind = "request" if "method" in wire and "id" in wire else "notification" if "method" in wire else \
        "result" if "result" in wire else "error"
    cls = {"request": J.JSONRPCRequest, "notification": J.JSONRPCNotification, "result": J.JSONRPCResponse,
           "error": J.JSONRPCError}[kind]
    forms: List[Tuple[str, Any]] = []
    for name, build in (("parse_message", lambda: J.parse_message(wire)),
                        (cls.__name__, lambda: cls.model_validate(wire)),
                        ("JSONRPCMessage", lambda: J.JSONRPCMessage.model_validate(wire))):
        try:
            forms.append((name, build()))
        except Exception:  # noqa: BLE001 - this typed form does not exist for the envelope (e.g. non-object result)
            continue
    out: Dict[str, Any] = {}
    for name, obj in forms:
        for api, kw in (("model_dump_json(exclude_none=True)", {"exclude_none": True}),
                        ("model_dump_json(exclude_none=True,by_alias=True)", {"exclude_none": True, "by_alias": True})):
            try:
                out[f"{name}.{api}"] = {"text": obj.model_dump_json(**kw), "expect": enc(obj.model_dump(**kw))}
            except BaseException as e:  # noqa: BLE001
                out[f"{name}.{api}"] = {"exc": type(e).__name__, "detail": str(e)[:120]}
    # the stdio writer: one frame per message written to the child's stdin
    written = forms + [("dict", dict(wire))]
    proc = seams.FakeProcess()
    loop = new_loop(horizon=60)

    async def main():
        q = seams.Quiescence(asyncio.get_running_loop())
        with seams.patched_open_process(lambda cmd, kw: proc):
            async with StdioClient(seams.stdio_params()) as client:
                _r, w = client.get_streams()
                for _, obj in written:
                    await w.send(obj)
                    await q.settle()

    try:
        status, val = loop.run_main(main())
    finally:
        loop.abandon()
    sends = [bytes(b) for b in proc.stdin.sends]
    if status != "ok" or len(sends) != len(written):
        out["stdio-writer"] = {"exc": "writer-run", "detail": f"status={status} {val!r:.80} frames={len(sends)} for {len(written)} messages"}
        return out
    for (name, obj), b in zip(written, sends):
        expect = obj if name == "dict" else obj.model_dump(exclude_none=True)
        try:
            out[f"stdio-writer({name})"] = {"text": b.decode("utf-8"), "expect": enc(expect), "frame": True}
        except UnicodeDecodeError as e:
            out[f"stdio-writer({name})"] = {"exc": "UnicodeDecodeError", "detail": str(e)[:100]}
    return out


def start_msg_pools(n_each: int) -> Dict[str, workers.Pool]:
    pools: Dict[str, workers.Pool] = {}
    try:
        for cfg in MSG_CONFIGS:
            pools[cfg["name"]] = workers.Pool(cfg, HANDLER, n_each)
        for n, p in pools.items():
            if (p.hello.get("HAS_ORJSON"), p.hello.get("PYDANTIC_AVAILABLE")) != MSG_WANT[n]:
                raise core.HarnessError(f"configuration {n} did not take effect: worker reports {p.hello}")
    except BaseException:
        for p in pools.values():
            p.close()
        raise
    return pools


def judge_messages(msgs: List[Dict[str, Any]], pools: Dict[str, workers.Pool], tally: Tally,
                   audit_store: Dict[str, list]) -> List[Tuple[int, dict, str]]:
    from .. import orderdep

    names = list(pools)
    n_plain = len(msgs)
    shared_src = [m for m in msgs if any(isinstance(m.get(k), dict) and m.get(k) for k in ("params", "result"))
                  or isinstance((m.get("error") or {}).get("data"), (dict, list))][::4]
    cases = [["msg", enc(m)] for m in msgs] + [["msg-shared", enc(m)] for m in shared_src]
    msgs.extend(share_containers(json.loads(json.dumps(m))) for m in shared_src)      # in place: the caller indexes this list
    tally.add("messages_with_a_shared_container", len(shared_src))
    ans = orderdep.per_config([{"name": n} for n in names], lambda c: pools[c["name"]].map(cases))
    viol: List[Tuple[int, dict, str]] = []
    texts: Dict[str, int] = {}
    text_list: List[str] = []
    produced = []                       # (msg index, config, api, text index, expected value)
    for n in names:
        for i in workers.audit_indices(cases, MSG_AUDIT_MOD):
            audit_store.setdefault(n, []).append((cases[i], ans[n][i]))
        for i, a in enumerate(ans[n]):
            if "harness_exc" in a:
                raise core.HarnessError(f"worker {n}: {a['harness_exc']}")
            for api, r in a.items():
                tally.add("message_encodings")
                if "exc" in r:
                    viol.append((i, {"class": "message-encoding-raised", "config": n, "api": api, "exception": r["exc"]},
                                 f"{api} under {n} raised {r['exc']}: {r.get('detail')} for message {short(msgs[i])}"))
                    continue
                t = r["text"]
                body = t
                if r.get("frame"):
                    if not t.endswith("\n"):
                        viol.append((i, {"class": "frame-not-terminated", "config": n, "api": api},
                                     f"{api} under {n} wrote a frame without the final line feed for {short(msgs[i])}: {t[-60:]!r}"))
                    else:
                        body = t[:-1]
                if "\n" in body or "\r" in body:
                    viol.append((i, {"class": "message-not-one-line", "config": n, "api": api},
                                 f"{api} under {n} of message {short(msgs[i])} spans {body.count(chr(10)) + 1} lines: {body[:120]!r}"))
                    continue
                ti = texts.get(body)
                if ti is None:
                    ti = texts[body] = len(text_list)
                    text_list.append(body)
                produced.append((i, n, api, ti, r["expect"]))
    # the value a message stands for must not depend on the codec
    for i in range(len(msgs)):
        for backend in ("pydantic", "fallback"):
            a, b = ans[f"orjson+{backend}"][i], ans[f"stdlib+{backend}"][i]
            for api in a:
                if api in b and "expect" in a[api] and "expect" in b[api] and a[api]["expect"] != b[api]["expect"]:
                    if not strict_eq(dec(a[api]["expect"]), dec(b[api]["expect"])):
                        viol.append((i, {"class": "message-value-depends-on-codec", "backend": backend, "api": api},
                                     f"{api} of {short(msgs[i])} under {backend}: the dumped value differs between orjson and stdlib"))
        a, b = ans["orjson+pydantic"][i], ans["orjson+fallback"][i]
        for api in a:
            if api in b and "expect" in a[api] and "expect" in b[api] and not strict_eq(dec(a[api]["expect"]), dec(b[api]["expect"])):
                tally.add("message_values_differing_between_validation_backends(C09)")
    dec_cases = [["dec", t] for t in text_list]
    dec_ans = orderdep.per_config([{"name": n} for n in names], lambda c: pools[c["name"]].map(dec_cases))
    for n in names:
        for i in workers.audit_indices(dec_cases, MSG_AUDIT_MOD):
            audit_store.setdefault(n, []).append((dec_cases[i], dec_ans[n][i]))
    tally.add("message_distinct_encodings", len(text_list))
    for (i, prod, api, ti, expect) in produced:
        want = None
        for n in names:
            da = dec_ans[n][ti]
            if "harness_exc" in da:
                raise core.HarnessError(f"worker {n}: {da['harness_exc']}")
            for dapi, r in _expand(dict(da)).items():
                if dapi not in ("loads-str", "loads-bytes"):
                    continue
                tally.add("message_roundtrips_judged")
                if "exc" in r:
                    viol.append((i, {"class": "message-loads-raised", "enc_config": prod, "dec_config": n, "api": api},
                                 f"{dapi} under {n} raised {r['exc']} on what {api} produced under {prod}: {text_list[ti][:120]!r}"))
                    continue
                if r["v"] == expect:
                    continue
                if want is None:
                    want = dec(expect)
                got = dec(r["v"])
                if not strict_eq(want, got):
                    viol.append((i, {"class": "message-roundtrip-mismatch", "enc_config": prod, "dec_config": n, "api": api,
                                     "diff": diff_kind(want, got)},
                                 f"{dapi}[{n}] of what {api} produced under {prod} for {short(msgs[i])} is {short(got)}, "
                                 f"the message dumps to {short(want)}; text {text_list[ti][:120]!r}"))
    return viol


WANT_HELLO = {"orjson": {"HAS_ORJSON": True, "orjson_loaded": True},
              "stdlib": {"HAS_ORJSON": False, "orjson_loaded": False}}


def check_hello(pools: Dict[str, workers.Pool]) -> None:
    for n, p in pools.items():
        if {k: p.hello.get(k) for k in WANT_HELLO[n]} != WANT_HELLO[n]:
            raise core.HarnessError(f"configuration {n} did not take effect: worker reports {p.hello}")


def start_pools(n_each: int) -> Dict[str, workers.Pool]:
    pools: Dict[str, workers.Pool] = {}
    try:
        for cfg in CONFIGS:
            pools[cfg["name"]] = workers.Pool(cfg, HANDLER, n_each)
        check_hello(pools)
    except BaseException:
        for p in pools.values():
            p.close()
        raise
    return pools


def _driver_block(block: List[Any]) -> Dict[str, Any]:
    """Runs in a forked driver process that owns one worker per configuration."""
    try:
        pools = workers.local_pools(CONFIGS, HANDLER, 1)
        check_hello(pools)
        level, block = block
        tally = Tally()
        store: Dict[str, list] = {}
        viol = judge_block(block, pools, tally, store, level, workers.local_pools(CONFIGS, HANDLER, 1, tag="state"))
        return {"viol": viol, "tally": tally.c, "audit": store}
    except BaseException as e:  # noqa: BLE001 - surfaced as harness trouble by the parent
        import traceback

        return {"error": f"{type(e).__name__}: {e}\n{traceback.format_exc()[-800:]}"}


def blocks_of(tier: str, info: Dict[str, Any]):
    """Deduplicated value space cut into blocks; fills info with measured counts."""
    seen = set()
    block: List[Any] = []
    cur = None
    for grp, v in value_space(tier):
        level = "base" if grp.startswith("depth3") or (tier == "quick" and grp.startswith("depth2")) else "full"
        if cur is not None and level != cur and block:
            yield (cur, block)
            block = []
        cur = level
        k = hashlib.blake2b(workers.canon(v).encode(), digest_size=12).digest()
        if k in seen:
            continue
        seen.add(k)
        info["groups"][grp] = info["groups"].get(grp, 0) + 1
        info["values"] += 1
        if nontrivial(v):
            info["nontrivial"] += 1
        if info["values"] % 4999 == 1 and len(info["samples"]) < 8:
            info["samples"].append({"group": grp, "value": enc(v)})
        block.append(v)
        if len(block) >= BLOCK:
            yield (cur, block)
            block = []
    if block:
        yield (cur, block)


# ---------------------------------------------------------------------------
def run(tier: str, only=None) -> core.Result:
    import multiprocessing as mp

    import time as _time

    t_start = _time.time()
    phases: Dict[str, float] = {}
    res = core.Result("C17", "exploration")
    tally = Tally()
    audit_store: Dict[str, list] = {}
    info: Dict[str, Any] = {"groups": {}, "values": 0, "nontrivial": 0, "samples": []}
    viol_sigs: Dict[str, int] = {}
    n_drivers = max(1, workers.n_total_workers() // 2)
    blocks: List[List[Any]] = []
    # the parts that do not depend on the value grammar run in a background thread while the driver processes work through
    # the values (the thread is started after the driver processes were forked); their findings are merged afterwards
    side_out: Dict[str, Any] = {}

    def side():
        res_s = core.Result("C17", "exploration")
        tally_s = Tally()
        viol_sigs_s: Dict[str, int] = {}
        samples_s: List[Any] = []
        try:
            # the message path under {orjson, stdlib} x {Pydantic, fallback}
            msgs = message_space()
            msg_audit: Dict[str, list] = {}
            msg_hello: Dict[str, Any] = {}
            if not res_s.harness_errors:
                mpools = start_msg_pools(max(1, workers.n_total_workers() // (2 * len(MSG_CONFIGS))))
                try:
                    msg_hello = {n: p.hello for n, p in mpools.items()}
                    n_plain_msgs = len(msgs)
                    for (i, sig, msg) in judge_messages(msgs, mpools, tally_s, msg_audit):
                        k = json.dumps(sig, sort_keys=True)
                        viol_sigs_s[k] = viol_sigs_s.get(k, 0) + 1
                        if viol_sigs_s[k] <= 8:
                            res_s.add_violation(sig, msg, {"ref": "vf.checks.c17:replay_case", "args": {"message": enc(msgs[i]), "shared": i >= n_plain_msgs}})
                        else:
                            res_s.violation_total += 1
                finally:
                    for p in mpools.values():
                        p.close()
                samples_s.append({"group": "message-path", "message": msgs[len(msgs) // 3]})

            # the file API under both codecs
            file_vals = file_values()
            file_audit: Dict[str, list] = {}
            if not res_s.harness_errors:
                fpools = start_pools(max(1, workers.n_total_workers() // 4))
                try:
                    for (i, sig, msg) in judge_files(file_vals, fpools, tally_s, file_audit):
                        k = json.dumps(sig, sort_keys=True)
                        viol_sigs_s[k] = viol_sigs_s.get(k, 0) + 1
                        if viol_sigs_s[k] <= 8:
                            res_s.add_violation(sig, msg, {"ref": "vf.checks.c17:replay_case", "args": {"file_value": enc(file_vals[i])}})
                        else:
                            res_s.violation_total += 1
                    deep_descs, deep_viol = judge_deep(fpools, tally_s, file_audit)
                    for (i, sig, msg) in deep_viol:
                        k = json.dumps(sig, sort_keys=True)
                        viol_sigs_s[k] = viol_sigs_s.get(k, 0) + 1
                        if viol_sigs_s[k] <= 8:
                            res_s.add_violation(sig, msg, {"ref": "vf.checks.c17:replay_case", "args": {"deep": deep_descs[i]}})
                        else:
                            res_s.violation_total += 1
                    samples_s.append({"group": "deep-nesting", "value": describe_deep(deep_descs[len(deep_descs) // 2])})
                finally:
                    for p in fpools.values():
                        p.close()
                samples_s.append({"group": "file-api", "value": enc(file_vals[len(file_vals) // 2])})

            # ENCODE statefulness: ordered pairs and triples of dumps() / model_dump_json() calls, each sequence in a process of its own
            from .. import encseq, orderdep as _od

            seq_info: Dict[str, Any] = {}
            seq_refs: Dict[str, Any] = {}
            seq_audit: Dict[str, list] = {}
            if not res_s.harness_errors:
                plan = [("dumps", {**cfg, "env_set": {**cfg.get("env_set", {}), "VF_C17_CODEC_ONLY": "1"}}, encseq.dumps_sequences(tier))
                        for cfg in CONFIGS] + \
                       [("model", cfg, encseq.model_sequences(tier)) for cfg in MSG_CONFIGS]
                n_each = max(1, workers.n_total_workers() // 4)

                def run_plan(item):
                    kind, cfg, seqs = item
                    cases = [["seq", kind, sq] for sq in seqs]
                    with workers.Pool(cfg, HANDLER, n_each) as pool:
                        return cases, pool.map(cases, batch=40)

                done = _od.per_config([{"name": f"{k}:{c['name']}", "item": (k, c, sq)} for k, c, sq in plan], lambda x: run_plan(x["item"]))
                for kind, cfg, seqs in plan:
                    cases, answers = done[f"{kind}:{cfg['name']}"]
                    for i in workers.audit_indices(cases, 11):
                        seq_audit.setdefault(f"{kind}:{cfg['name']}", []).append((cases[i], answers[i]))
                    try:
                        viol, counters = encseq.judge(kind, cfg["name"], seqs, answers)
                    except RuntimeError as e:
                        res_s.harness_errors.append(f"sequence worker ({kind}, {cfg['name']}): {str(e)[-400:]}")
                        continue
                    seq_refs.setdefault(kind, {})[cfg["name"]] = counters.pop("_refs")
                    for k_, n_ in counters.items():
                        tally_s.add(f"encode_sequences:{kind}:{k_}", n_)
                    seq_info[f"{kind}:{cfg['name']}"] = counters
                    for (si, sig, msg) in viol:
                        k_ = json.dumps(sig, sort_keys=True)
                        viol_sigs_s[k_] = viol_sigs_s.get(k_, 0) + 1
                        if viol_sigs_s[k_] <= 8:
                            res_s.add_violation(sig, msg, {"ref": "vf.checks.c17:replay_case",
                                                         "args": {"sequence": seqs[si], "layer": kind, "config": cfg["name"]}})
                        else:
                            res_s.violation_total += 1
                for (sq, sig, msg) in encseq.judge_across("dumps", seq_refs.get("dumps", {})):
                    k_ = json.dumps(sig, sort_keys=True)
                    viol_sigs_s[k_] = viol_sigs_s.get(k_, 0) + 1
                    res_s.add_violation(sig, msg, {"ref": "vf.checks.c17:replay_case", "args": {"sequence": sq, "layer": "dumps", "config": "orjson",
                                                                                             "across": True}})
                seq_info["orjson_refused_values_compared_across_codecs"] = sum(
                    1 for (o, v) in seq_refs.get("dumps", {}).get("orjson", {}) if encseq.build_values()[v][0] in encseq.STDLIB_PATH_VALUES)
                samples_s.append({"group": "encode-sequence", "calls": encseq.describe("dumps", plan[0][2][len(plan[0][2]) // 2])})

            side_out.update(msgs=msgs, msg_audit=msg_audit, msg_hello=msg_hello, file_vals=file_vals, file_audit=file_audit,
                            seq_info=seq_info, seq_audit=seq_audit)
        except BaseException as e:  # noqa: BLE001
            import traceback

            res_s.harness_errors.append(f"side phases failed: {type(e).__name__}: {e} {traceback.format_exc()[-600:]}")
        side_out.update(res=res_s, tally=tally_s, viol_sigs=viol_sigs_s, samples=samples_s)

    ctx = mp.get_context("fork")
    with ctx.Pool(n_drivers) as drivers:
        import threading

        side_thread = threading.Thread(target=side)
        side_thread.start()

        def feed():
            for b in blocks_of(tier, info):
                blocks.append(b)
                yield b

        for bi, out in enumerate(drivers.imap(_driver_block, feed())):
            if "error" in out:
                res.harness_errors.append(out["error"])
                break
            for k, n in out["tally"].items():
                tally.add(k, n)
            for n, pairs in out["audit"].items():
                audit_store.setdefault(n, []).extend(pairs)
            for (i, sig, msg) in out["viol"]:
                k = json.dumps(sig, sort_keys=True)
                viol_sigs[k] = viol_sigs.get(k, 0) + 1
                if viol_sigs[k] <= 8:
                    res.add_violation(sig, msg, {"ref": "vf.checks.c17:replay_case",
                                                 "args": {"value": enc(blocks[bi][1][i])}})
                else:
                    res.violation_total += 1
            blocks[bi] = (None, [])      # free
    n_values, n_nontrivial, groups, samples = info["values"], info["nontrivial"], info["groups"], info["samples"]

    phases["values"] = round(_time.time() - t_start, 1)
    side_thread.join()
    res.harness_errors.extend(side_out["res"].harness_errors)
    for v_ in side_out["res"].violations:
        res.add_violation(v_.sig, v_.message, v_.replay)
    res.violation_total += side_out["res"].violation_total - len(side_out["res"].violations)
    for k_, n_ in side_out["tally"].c.items():
        tally.add(k_, n_)
    for k_, n_ in side_out["viol_sigs"].items():
        viol_sigs[k_] = viol_sigs.get(k_, 0) + n_
    samples.extend(side_out["samples"])
    msgs, msg_audit, msg_hello = side_out.get("msgs", []), side_out.get("msg_audit", {}), side_out.get("msg_hello", {})
    file_vals, file_audit = side_out.get("file_vals", []), side_out.get("file_audit", {})
    seq_info, seq_audit = side_out.get("seq_info", {}), side_out.get("seq_audit", {})
    phases["messages"] = round(_time.time() - t_start - phases["values"], 1)
    # determinism audit: fresh workers per configuration answer a 1-in-N subset again (all configurations concurrently)
    from .. import orderdep

    audit_total = audit_bad = 0
    jobs = [({**cfg, "name": "codec:" + cfg["name"]}, [p_ for p_ in audit_store.get(cfg["name"], []) if p_[0][0] != "state"])
            for cfg in CONFIGS] + \
           [({**cfg, "name": "state:" + cfg["name"]}, [p_ for p_ in audit_store.get(cfg["name"], []) if p_[0][0] == "state"])
            for cfg in CONFIGS] + \
           [({**cfg, "name": "msg:" + cfg["name"]}, msg_audit.get(cfg["name"], [])) for cfg in MSG_CONFIGS] + \
           [({**cfg, "name": "file:" + cfg["name"]}, file_audit.get(cfg["name"], [])) for cfg in CONFIGS] + \
           [({**cfg, "env_set": {"VF_C17_CODEC_ONLY": "1"}, "name": "seq-dumps:" + cfg["name"]},
             seq_audit.get("dumps:" + cfg["name"], [])) for cfg in CONFIGS] + \
           [({**cfg, "name": "seq-model:" + cfg["name"]}, seq_audit.get("model:" + cfg["name"], [])) for cfg in MSG_CONFIGS]
    jobs = [(cfg, pairs) for cfg, pairs in jobs if pairs]

    def reask(cfg):
        pairs = dict((c["name"], p) for c, p in jobs)[cfg["name"]]
        with workers.Pool(cfg, HANDLER, 2) as fresh:
            return fresh.hello, fresh.map([c for c, _ in reversed(pairs)])

    again_all = orderdep.per_config([c for c, _ in jobs], reask)
    hellos = {}
    for cfg, pairs in jobs:
        hello, again = again_all[cfg["name"]]
        if cfg["name"].startswith("codec:"):
            hellos[cfg["name"][6:]] = hello
        state_checked = 0
        for (c, a), b in zip(reversed(pairs), again):
            audit_total += 1
            if workers.line(a) != workers.line(b):
                if c[0] == "state" and state_checked < 3:
                    # a decode/mutate/decode answer that depends on what the process decoded before is the library's
                    # statefulness, provided the case answers the same twice when it is alone in a new process
                    state_checked += 1
                    base = {k: v for k, v in cfg.items() if k != "name"}
                    base["name"] = cfg["name"].split(":", 1)[1]
                    alone = workers.fresh_sequences(base, HANDLER, [[c], [c]])
                    if workers.line(alone[0][0]) == workers.line(alone[1][0]):
                        sig = {"class": "decode-depends-on-history", "dec": base["name"]}
                        k = json.dumps(sig, sort_keys=True)
                        viol_sigs[k] = viol_sigs.get(k, 0) + 1
                        res.add_violation(sig, f"decode/mutate/decode of {short(dec(c[1]))} under {base['name']} answers differently "
                                               f"after other documents were decoded in the same process",
                                          {"ref": "vf.checks.c17:replay_case", "args": {"value": c[1]}})
                        continue
                audit_bad += 1
                if audit_bad <= 2:
                    res.harness_errors.append(f"nondeterministic worker answer under {cfg['name']} for case {workers.line(c)[:200]}")

    if not res.harness_errors and tally.c.get("values_encoded_differently_by_the_backends", 0) == 0:
        res.harness_errors.append("vacuous: the two configurations never produced different encodings - is orjson really masked?")
    cov = res.coverage
    cov["evaluations"] = tally.c.get("roundtrips_judged", 0) + tally.c.get("message_roundtrips_judged", 0) + \
        tally.c.get("deep_roundtrips_judged", 0) + tally.c.get("decode_mutate_decode_sequences", 0) + tally.c.get("file_roundtrips_judged", 0) + tally.c.get("file_loads", 0) + \
        sum(v.get("calls_compared_with_fresh_process", 0) for v in seq_info.values() if isinstance(v, dict))
    cov["encode_sequences"] = seq_info
    cov["deep_nesting"] = {"values": len(deep_cases()), "depths": DEEP_DEPTHS, "kinds": DEEP_KINDS,
                           "encodings": tally.c.get("deep_encodings", 0), "roundtrips_judged": tally.c.get("deep_roundtrips_judged", 0)}
    cov["file_api"] = {"values": len(file_vals), "file_kinds": FILE_KINDS + SINK_KINDS, "dumps": tally.c.get("file_dumps", 0),
                       "loads": tally.c.get("file_loads", 0), "ndjson_loops": tally.c.get("ndjson_files", 0), "ndjson_file_kinds": NDJSON_KINDS, "roundtrips_judged": tally.c.get("file_roundtrips_judged", 0)}
    cov["message_path"] = {"messages": len(msgs), "configurations": msg_hello,
                           "encodings": tally.c.get("message_encodings", 0),
                           "distinct_single_line_encodings": tally.c.get("message_distinct_encodings", 0),
                           "roundtrips_judged": tally.c.get("message_roundtrips_judged", 0)}
    cov["api_variants"] = ["dumps", "dumps-compact", "dump-fp"] + [f"dumps({n})" for n, _ in COMPACT_KW] + \
        ["dump-fp(indent=None)", "dump-fp(indent=None,separators)"]
    cov["values"] = n_values
    cov["distinct_nontrivial"] = n_nontrivial
    cov["values_by_group"] = groups
    cov["counters"] = dict(sorted(tally.c.items()))
    cov["violation_signatures"] = viol_sigs
    cov["audit_reasked"] = audit_total
    cov["audit_mismatches"] = audit_bad
    cov["configurations"] = hellos
    cov["driver_processes"] = n_drivers
    if os.environ.get("VERIF_DEBUG"):
        print("phases", phases, round(_time.time() - t_start, 1))
    cov["samples"] = samples
    cov["exhaustive"] = True
    cov["rule"] = (
        "values = vf.gen.json_values over the extended boundary scalars (every C0/C1 control, DEL, U+D7FF/E000/FFFE/FFFF/"
        "10000/10FFFF, U+2028/2029, ints: every 2^k and 2^k+-1 within [-2^63, 2^64-1], +-2^53+-1, decimal boundaries; "
        "floats: -0.0, max, min normal, max/min denormal, 0.1+0.2, exponent-format boundaries) with 20 keys incl. empty, "
        "control, non-ASCII and astral: depth<=1 over the full scalar set, depth 2 over a 19-scalar inner set"
        + (", depth 3 over the 9-scalar inner set" if tier == "thorough" else "")
        + "; each value x {orjson, stdlib} x {dumps, dumps(separators), dump(fp)} + (quick: the depth<=1 group, thorough: all but the deepest group) 14 further "
        "keyword combinations that json.dumps treats as compact (indent=None, sort_keys, ensure_ascii, default, separators, "
        "check_circular, allow_nan, skipkeys, cls; incl. the call the fallback model base makes) and each distinct encoding x {orjson, stdlib} "
        "x {loads(str), loads(bytes), load(text fp), load(bytes fp)}; evaluations = round trips judged; distinct = distinct "
        "values by type-strict canonical form; non-trivial = contains a float, an integer beyond +-2^53 or a string/key "
        "that is not printable ASCII or needs escaping; file API: every boundary string as scalar/item/member/key x {orjson, stdlib} "
        "x dump() and load() over a binary file, BytesIO, StringIO, text files encoded utf-8/ascii/latin-1/cp1252/utf-16 and write-only "
        "binary/text sinks whose write() returns None / the count / a wrong count / True: dump "
        "succeeds under both codecs or neither, what was written (decoded with the file's codec) loads back to the value under both, "
        "load() of ASCII and of raw JSON text gives the value; the NDJSON loop dump(doc, fp); fp.write(newline) for three documents on "
        "buffered text files, binary files and StringIO leaves one document per line; encode statefulness: every ordered pair (on every pair of 6 values, "
        "incl. values that take the stdlib path under orjson: 2^64, nesting beyond orjson's limit, a lone surrogate, an object "
        "needing default=) and every ordered triple (quick: the triples a,b,a and a,a,b on two value patterns; thorough: all triples on 13 value patterns) of dumps() calls "
        "over 13 option sets, and pairs/triples of model_dump_json calls (3 models x 5 argument sets) in the four message "
        "configurations, each sequence in a freshly forked process, every call compared with the same call made first in a "
        "fresh process; decode statefulness: every container value x {orjson, stdlib} x 4 decoding entry "
        "points: decode twice (no shared nested container), mutate the first result in place at depth 0-2, decode again "
        "through all 4 entry points (must equal v); message path: JSON-RPC requests/notifications/results/errors x 6 ids x "
        "7 payloads (line breaks, U+2028/2029/0085, NUL, 64-bit boundary ints, floats, nesting, _meta/schema keys) as "
        "parse_message / specific class / JSONRPCMessage objects x {model_dump_json(exclude_none=True[, by_alias=True]), "
        "the frame the stdio writer sends (model and dict)} in the four configurations {orjson, stdlib} x {Pydantic, "
        "fallback}; every single-line encoding decoded by all four"
    )
    res.assumptions = [
        "a raw line break is U+000A or U+000D (NDJSON framing); raw U+0085/U+2028/U+2029 in an encoding are counted, not judged",
        "integers outside [-2^63, 2^64-1], NaN/Infinity, lone surrogates and non-string keys are outside the statement and outside the alphabet",
        "output for a non-null indent (incl. indent=0, which the standard library renders over several lines) is not a compact encoding and is not judged",
        "message path: the value a message stands for is its own model_dump with the same arguments, taken in the producing worker; a difference of that value between the Pydantic and the fallback backend is C09's subject and only counted here",
        "text files are io.TextIOWrapper objects over a memory buffer with the stated encoding and binary files io.BufferedWriter/BufferedReader over one - the classes open() returns - so that the check writes nothing to disk",
        "encode statefulness: 'a fresh process' is a fork of a worker that has imported the library and has never called an encoder; outputs are compared by length and a 80-bit digest",
        "deep nesting: single-child chains of 200..1400 arrays / objects (around orjson's encoder limit 254 and decoder limit 1024) are built inside the workers from a description and compared there without recursion; nesting beyond about 1490 levels, which neither codec follows under the interpreter's default limits, is outside the alphabet",
        "strings whose text looks like JSON syntax (NaN / Infinity / null / true / 1e999 right after ':' ',' '[' with and without blanks, quoted fragments, comment markers) are part of the scalar alphabet and of the keys; messages are also encoded with one container object occurring several times in their payload (never containing itself)",
        "statefulness part: the in-place mutations are an append and an item replacement on every list, a new key and a key deletion on every dict, at nesting depth 0-2 of the decoded value; the value must decode unchanged afterwards through every decoding entry point",
        "the orjson-masked worker models 'orjson not installed' by an import blocker placed on sys.meta_path before chuk_mcp is imported",
    ]
    return res


def replay_case(args: Dict[str, Any]) -> Dict[str, Any]:
    if "deep" in args:
        d = args["deep"]
        out = {}
        viol = []
        pools = start_pools(1)
        try:
            encs = {n: p.map([["deep-enc", d]])[0] for n, p in pools.items()}
            for prod, a in encs.items():
                for api, r in a.items():
                    if "text" not in r:
                        viol.append({"sig": {"class": "dumps-raised", "enc": prod, "api": api}, "msg": str(r)})
                        continue
                    for n, p in pools.items():
                        v_ = p.map([["deep-dec", d, r["text"]]])[0]
                        out[f"{api}[{prod}] -> {n}"] = v_
                        for dapi, verdict in v_.items():
                            if verdict != "equal":
                                viol.append({"sig": {"class": "loads-raised" if verdict.startswith("raises") else "roundtrip-mismatch",
                                                     "enc": prod, "dec": n, "api": f"{api}/{dapi}"}, "msg": verdict})
        finally:
            for p in pools.values():
                p.close()
        return {"value": describe_deep(d), "verdicts": out, "violations": viol}
    if "file_value" in args:
        v = dec(args["file_value"])
        tally = Tally()
        pools = start_pools(1)
        try:
            viol = judge_files([v], pools, tally, {})
            shown = {n: p.map([["file", enc(v)]])[0]["dump"] for n, p in pools.items()}
        finally:
            for p in pools.values():
                p.close()
        return {"value": repr(v)[:200], "dump_results": shown, "violations": [{"sig": s_, "msg": m} for (_, s_, m) in viol]}
    if "sequence" in args:
        from .. import encseq

        if args.get("across"):
            refs = {}
            shown = {}
            for cfg in CONFIGS:
                with workers.Pool(cfg, HANDLER, 1) as pool:
                    a = pool.map([["seq", "dumps", args["sequence"], True]], batch=1)[0]
                refs[cfg["name"]] = {(args["sequence"][0][0], args["sequence"][0][1]): a[0]}
                shown[cfg["name"]] = a[0]
            viol = encseq.judge_across("dumps", refs)
            return {"call": encseq.describe("dumps", args["sequence"]), "first_call_in_a_fresh_process": shown,
                    "violations": [{"sig": s_, "msg": m} for (_, s_, m) in viol]}
        cfg = [c for c in (CONFIGS + MSG_CONFIGS) if c["name"] == args["config"]][0]
        seq = args["sequence"]
        cases = [["seq", args["layer"], [c], True] for c in seq] + [["seq", args["layer"], seq, True]]
        with workers.Pool(cfg, HANDLER, 1) as pool:
            ans = pool.map(cases, batch=1)
        viol, _ = encseq.judge(args["layer"], cfg["name"], [[c] for c in seq] + [seq], ans)
        return {"sequence": encseq.describe(args["layer"], seq), "config": cfg["name"],
                "each_call_first_in_a_fresh_process": [a[0] for a in ans[:-1]], "in_sequence": ans[-1],
                "violations": [{"sig": s_, "msg": m} for (_, s_, m) in viol]}
    if "message" in args:
        m = dec(args["message"])
        tally = Tally()
        mpools = start_msg_pools(1)
        try:
            op_ = "msg-shared" if args.get("shared") else "msg"
            viol = judge_messages([m], mpools, tally, {}) if not args.get("shared") else []
            shown = {n: p.map([[op_, enc(m)]])[0] for n, p in mpools.items()}
            if args.get("shared"):
                for n, a in shown.items():
                    for api, r in a.items():
                        if "exc" in r:
                            viol.append((0, {"class": "message-encoding-raised", "config": n, "api": api, "exception": r["exc"]}, str(r)))
        finally:
            for p in mpools.values():
                p.close()
        return {"message": m, "encodings": {n: {k: v.get("text", v) for k, v in a.items()} for n, a in shown.items()},
                "counters": tally.c, "violations": [{"sig": s_, "msg": t} for (_, s_, t) in viol]}
    v = dec(args["value"])
    tally = Tally()
    pools = start_pools(1)
    try:
        spools = start_pools(1)
        try:
            viol = judge_block([v], pools, tally, {}, "full", spools)
        finally:
            for p in spools.values():
                p.close()
        enc_ans = {n: p.map([["enc", enc(v)]])[0] for n, p in pools.items()}
    finally:
        for p in pools.values():
            p.close()
    return {"value": args["value"], "python_repr": repr(v)[:300], "encodings": enc_ans, "counters": tally.c,
            "violations": [{"sig": s, "msg": m} for (_, s, m) in viol]}
