"""C10 - typed protocol models are lossless views of the wire and use wire names.

Engine: E-INPUT with one worker pool per validation backend.

Part A (models): for every discovered McpPydanticBase subclass x every generated
wire object w the backend accepts: ``M.model_validate(w).model_dump(by_alias=True,
exclude_none=True)`` must contain every member of w exactly (deep; unknown
members; aliased members under their wire names) and every member it adds must
equal the declared default of that member.

Part B (serialisers): every function/method of the package that dumps a model
(found by an AST walk, see vf/serialisers.py) is called with typed objects built
from wire JSON whose aliased members are populated; what it puts on the wire must
contain the wire names and never the Python attribute names.
"""
from __future__ import annotations

import json
import threading
from typing import Any, Dict, List, Tuple

from .. import core, orderdep, probes, serialisers, wiregen, workers
from ..workers import dec, enc
from . import c09

HANDLER = "vf.serialisers:child_handle"
CONFIGS = c09.CONFIGS
AUDIT_MOD = 7
MAX_STORED_PER_SIG = 4
from ..modelops import DUMP_CALLS as _DC  # noqa: E402

modelops_calls = [n for n, _, _ in _DC]
from ..modelops import json_equal as modelops_json_equal  # noqa: E402


def site_name(site: str) -> str:
    return site.partition(":")[2]


# ---------------------------------------------------------------------------
# part A judgement
# ---------------------------------------------------------------------------
def judge_a(case: Dict[str, Any], ap: Dict[str, Any], af: Dict[str, Any]) -> Dict[str, Any]:
    model = wiregen.short(case["target"])
    wire_txt = json.dumps(case["wire"], ensure_ascii=True)
    if len(wire_txt) > 300:
        wire_txt = wire_txt[:300] + "..."
    label = str(case.get("label") or "")
    if label.startswith("schema-keyword:"):
        # the JSON-Schema grammar says these objects are valid: a backend that turns one down does not view the wire losslessly
        kw = label[len("schema-keyword:"):].split("@")[0]
        rej = {n: a for n, a in (("pydantic", ap), ("fallback", af)) if not a.get("ok")}
        if rej:
            backend = "both" if len(rej) == 2 else next(iter(rej))
            a = next(iter(rej.values()))
            return {"status": "spec-valid-value-rejected", "deferred": [],
                    "violations": [({"class": "spec-valid-value-rejected", "model": model, "member": "schema-keyword:" + kw, "backend": backend},
                                    f"{model} <- {wire_txt}: a JSON Schema whose keyword {kw.split('=')[0]} has the form {kw.split('=')[1]} is "
                                    f"valid, {backend} rejected it ({a.get('exc')}: {a.get('detail')})")]}
    if not ap["ok"]:
        return {"status": "not-spec-valid", "violations": [], "deferred": []}
    if c09.broken_invariants(case):
        return {"status": "documented-invalid-input", "violations": [], "deferred": []}
    for side, a in (("pydantic", ap), ("fallback", af)):
        if a.get("ok") and "dump_exc" in a:
            return {"status": "dump-raised", "deferred": [],
                    "violations": [({"class": "dump-raised", "model": model, "backend": side,
                                     **({"member": "unknown:" + str(case.get("label"))[len("unknown:"):].split("=", 1)[0]}
                                        if str(case.get("label") or "").startswith("unknown:") else {})},
                                    f"{model} <- {wire_txt}: model_dump raised under {side}: {a['dump_exc']}")]}
    P = ap.get("lossless", [])
    F = af.get("lossless", []) if af["ok"] else None

    def key(p):
        return (p["kind"], p["path"])

    fkeys = {key(p) for p in (F or [])}
    pkeys = {key(p) for p in P}
    viol: List[Tuple[dict, str]] = []
    for p in P:
        both = key(p) in fkeys
        sig = {"class": p["kind"], "model": p.get("model") or model, "member": p.get("member", c09.norm_path(p["path"])),
               "backend": "both" if both else "pydantic"}
        got = dec(ap["dump"])
        viol.append((sig, f"{model} <- {wire_txt}: {p['kind']} at '{p['path']}' ({p.get('detail')}) under "
                          f"{'both backends' if both else 'Pydantic'}; dump = {json.dumps(got, ensure_ascii=True)[:300]}"))
    # the same through the JSON path (json.loads(model_dump_json(by_alias=True, exclude_none=True)))
    for side, a in (("pydantic", ap), ("fallback", af)):
        if not a.get("ok"):
            continue
        j = (a.get("json") or {}).get("exclude_none+by_alias") or {}
        if "exc" in j:
            viol.append(({"class": "json-dump-raised", "model": model, "backend": side},
                         f"{model} <- {wire_txt}: model_dump_json(by_alias=True, exclude_none=True) raised under {side}: {j['exc']}"))
        direct = {key(p) for p in (a.get("lossless") or [])}
        for p in a.get("lossless_json") or []:
            if key(p) in direct:
                continue                                 # already reported for model_dump
            sig = {"class": p["kind"], "model": p.get("model") or model, "member": p.get("member", c09.norm_path(p["path"])),
                   "backend": side, "via": "model_dump_json"}
            viol.append((sig, f"{model} <- {wire_txt}: {p['kind']} at '{p['path']}' ({p.get('detail')}) in "
                              f"json.loads(model_dump_json(by_alias=True, exclude_none=True)) under {side}; JSON form = "
                              f"{json.dumps(dec(j['value']), ensure_ascii=True)[:300]}"))
    deferred = []
    if F is None:
        deferred.append(("rejected-by-fallback", f"{model} <- {wire_txt}"))        # acceptance is C09's subject
    else:
        gotf = dec(af["dump"])
        for p in F:
            if key(p) in pkeys:
                continue
            sig = {"class": p["kind"], "model": p.get("model") or model, "member": p.get("member", c09.norm_path(p["path"])),
                   "backend": "fallback"}
            viol.append((sig, f"{model} <- {wire_txt}: {p['kind']} at '{p['path']}' ({p.get('detail')}) under the fallback "
                              f"only; dump = {json.dumps(gotf, ensure_ascii=True)[:300]}"))
    status = "lossless" if not viol and not deferred else ("lossy" if viol else "lossless-but-rejected-by-fallback")
    return {"status": status, "violations": viol, "deferred": deferred}


# ---------------------------------------------------------------------------
# part B judgement
# ---------------------------------------------------------------------------
def judge_b(site: str, r: Dict[str, Any], alias_pairs: List[List[str]], backend: str) -> Dict[str, Any]:
    """One driven variant of one serialiser under one backend."""
    if "error" in r:
        return {"harness": f"driver of {site} failed on {r['variant']} under {backend}: {r['error']} {r.get('trace', '')[-300:]}"}
    if r.get("marker") is False:
        return {"harness": f"driver of {site}: the typed object of variant {r['variant']} did not reach the output under {backend}"}
    out = dec(r["output"])
    keys = serialisers.keys_of(out)
    viol = []
    shown = json.dumps(out, ensure_ascii=True)
    if len(shown) > 400:
        shown = shown[:400] + "..."
    if "expected" in r and not modelops_json_equal(out, dec(r["expected"])):
        viol.append(({"class": "stale-emission-after-in-place-edit", "site": site_name(site)},
                     f"{site_name(site)}({r['variant']}) under {backend}: the typed object was edited in place ({r.get('edits')} "
                     f"edits) and emitted again by the same handler/function: {shown}; a fresh one emits "
                     f"{json.dumps(dec(r['expected']), ensure_ascii=True)[:300]}"))
    populated = {tuple(a) for a in r["aliases"]}
    for wire, attr in alias_pairs:
        if attr in keys:
            viol.append(({"class": "attribute-name-on-wire", "site": site_name(site), "attribute": attr},
                         f"{site_name(site)}({r['variant']}) under {backend} emitted the attribute name '{attr}' "
                         f"instead of the wire name '{wire}': {shown}"))
        elif (wire, attr) in populated and wire not in keys:
            viol.append(({"class": "aliased-member-missing", "site": site_name(site), "member": wire},
                         f"{site_name(site)}({r['variant']}) under {backend}: the populated member '{wire}' is absent: {shown}"))
    return {"violations": viol, "has_aliases": bool(populated)}


# ---------------------------------------------------------------------------
def start_pools(n_each: int) -> Dict[str, workers.Pool]:
    pools: Dict[str, workers.Pool] = {}
    try:
        for cfg in CONFIGS:
            pools[cfg["name"]] = workers.Pool(cfg, HANDLER, n_each)
        c09.check_configs({n: p.hello for n, p in pools.items()})
    except BaseException:
        for p in pools.values():
            p.close()
        raise
    return pools


def ask_all(pools: Dict[str, workers.Pool], wcases: List[Any], batch=None) -> Dict[str, List[Any]]:
    answers: Dict[str, List[Any]] = {}
    errs: List[BaseException] = []

    def ask(n):
        try:
            answers[n] = pools[n].map(wcases, batch=batch)
        except BaseException as e:  # noqa: BLE001
            errs.append(e)

    ts = [threading.Thread(target=ask, args=(n,)) for n in pools]
    for t in ts:
        t.start()
    for t in ts:
        t.join()
    if errs:
        raise core.HarnessError(f"worker failure: {errs[0]}")
    return answers


def run(tier: str, only=None) -> core.Result:
    res = core.Result("C10", "exploration")
    do_a = not only or "A" in only
    do_b = not only or "B" in only
    mcases, class_list, gen_problems = c09.model_cases(tier)
    for g in gen_problems:
        res.harness_errors.append(f"generator: {g}")
    a_cases = mcases if do_a else []
    a_wire = [{"op": "validate", "target": c["target"], "wire": enc(c["wire"]), "lossless": True} for c in a_cases]
    parent_sites = serialisers.discover_sites() + serialisers.composed_sites()
    b_wire = [{"op": "drive", "site": serialisers.driver_site_of(s) or s["site"]} for s in parent_sites] if do_b else []

    # part B runs in the background from the start: every serialiser site is driven in a process of its own (so that what
    # one driver instantiated cannot influence the next), once more for the determinism audit
    b_box: Dict[str, Any] = {}

    def drive_b():
        try:
            b_box["ans"] = orderdep.per_config(CONFIGS, lambda cfg: [r[0] for r in workers.fresh_sequences(
                cfg, HANDLER, [[w] for w in b_wire], parallel=4)])
            b_box["again"] = orderdep.per_config(CONFIGS, lambda cfg: [r[0] for r in workers.fresh_sequences(
                cfg, HANDLER, [[w] for w in reversed(b_wire)], parallel=4)])
        except BaseException as e:  # noqa: BLE001
            b_box["err"] = e

    b_thread = threading.Thread(target=drive_b)
    b_thread.start()
    # object probes in fresh pools of their own (background): reading does not change; order of dump calls per class
    pr_meta: Dict[str, List[Dict[str, Any]]] = {}
    pr_join = do_join = None
    if do_a:
        pr_meta = {"methods": probes.methods_cases(a_cases), "dumporder": probes.dumporder_cases(a_cases),
                   "shared": probes.shared_cases(a_cases)}
        pr_join = probes.start(HANDLER, CONFIGS, {"methods": [{"op": "methods", "target": c["target"], "wire": enc(c["wire"])}
                                                              for c in pr_meta["methods"]],
                                                  "shared": [{"op": "shared", "target": c["target"], "wire": enc(c["wire"])}
                                                             for c in pr_meta["shared"]]}, n_each=2)
        # the dump-order sequences are forked from workers that never validate or dump anything themselves
        do_join = probes.start(HANDLER, CONFIGS, {"dumporder": [{"op": "dumporder", "target": c["target"], "wires": c["wires"],
                                                                 "calls": c["calls"]} for c in pr_meta["dumporder"]]}, n_each=3)
    # part C: the typed views handed out by the request helpers (send_* returning a model), through a scripted peer
    snd_meta: List[Dict[str, Any]] = []
    snd_join = None
    senders = serialisers.discover_senders() if do_b else []
    if senders:
        by_cls: Dict[str, List[Dict[str, Any]]] = {}
        for c in mcases:
            if not c["label"].startswith("unknown:") and not any(v is None for v in c["wire"].values()):
                by_cls.setdefault(c["target"], []).append(c)
        for ref in senders:
            q = wiregen.qual(serialisers.sender_return_class(ref))
            for c in by_cls.get(q, [])[:(25 if tier == "quick" else 80)]:
                for v in serialisers.sender_arg_variants(ref, c["wire"]):
                    snd_meta.append({"sender": ref, "label": c["label"], "wire": c["wire"], "variant": v["label"], "kwargs": v["kwargs"]})
        snd_join = probes.start(HANDLER, CONFIGS, {"sender": [{"op": "sender", "sender": c["sender"], "wire": enc(c["wire"]),
                                                               "kwargs": c["kwargs"]} for c in snd_meta]}, n_each=2)
    im_cases = c09.inputmut_cases(tier, a_cases) if do_a else []
    im_join = c09.start_inputmut(HANDLER, im_cases) if im_cases else None
    pools = start_pools(workers.per_config_workers(len(CONFIGS)))
    try:
        hello = {n: p.hello for n, p in pools.items()}
        a_ans = ask_all(pools, a_wire)
        # the isolation cases go to the same processes afterwards: whatever they leave behind cannot reach the
        # answers of part A, which are already collected
        iso_wire = [{"op": "isolation", "target": c["target"], "wire": enc(c["wire"])} for c in a_cases]
        iso_ans = ask_all(pools, iso_wire) if iso_wire else {}
    finally:
        for p in pools.values():
            p.close()
    pools_history = {n: (lambda i, p=p: p.history_before(i, 0)) for n, p in pools.items()}
    iso_history = {n: (lambda i, p=p: p.history_before(i, 1)) for n, p in pools.items()}
    # every serialiser site is driven in a process of its own, so that what one driver instantiated
    # cannot influence the next
    b_thread.join()
    if "err" in b_box:
        raise core.HarnessError(f"serialiser driving failed: {b_box['err']}")
    b_ans, b_again = b_box["ans"], b_box["again"]

    for n in hello:
        if hello[n]["classes"] != class_list:
            res.harness_errors.append(f"the {n} worker discovered a different set of model classes than the parent")
        if [s["site"] for s in hello[n]["sites"]] != [s["site"] for s in parent_sites]:
            res.harness_errors.append(f"the {n} worker discovered a different set of serialiser sites than the parent")
        for pr in hello[n]["import_problems"]:
            res.harness_errors.append(f"{n} worker: module failed to import: {pr}")
    alias_pairs = hello["pydantic"]["alias_pairs"]
    if hello["fallback"]["alias_pairs"] != alias_pairs:
        res.harness_errors.append(f"the backends declare different aliases: {alias_pairs} vs {hello['fallback']['alias_pairs']}")
    if not alias_pairs:
        res.harness_errors.append("no aliased member was discovered in any model class: the wire-name oracle would be vacuous")

    sig_count: Dict[str, int] = {}
    audit_extra_c = {"reasked": 0}

    def report(sig, msg, replay_args):
        k = json.dumps(sig, sort_keys=True)
        sig_count[k] = sig_count.get(k, 0) + 1
        if sig_count[k] <= MAX_STORED_PER_SIG:
            res.add_violation(sig, msg, {"ref": "vf.checks.c10:replay_case", "args": replay_args})
        else:
            res.violation_total += 1

    # ---- part A ----
    status_a: Dict[str, int] = {}
    deferred: Dict[str, Dict[str, Any]] = {}
    unjudged: Dict[str, Dict[str, Any]] = {}
    per_class: Dict[str, Dict[str, int]] = {}
    distinct = set()
    aliased_inputs = 0
    for i, c in enumerate(a_cases):
        ap, af = a_ans["pydantic"][i], a_ans["fallback"][i]
        bad = [a for a in (ap, af) if "harness_exc" in a]
        if bad:
            res.harness_errors.append(f"worker exception on {c['target']} {c['label']}: {bad[0]['harness_exc'][-400:]}")
            continue
        out = judge_a(c, ap, af)
        if out["status"] not in ("not-spec-valid", "documented-invalid-input") and \
                wiregen.is_config_class(wiregen.resolve(c["target"])):
            out["status"] = "config-class:" + ("same-as-wire" if not out["violations"] else "differs-from-wire(unjudged)")
        status_a[out["status"]] = status_a.get(out["status"], 0) + 1
        pc = per_class.setdefault(wiregen.short(c["target"]), {"cases": 0, "judged": 0, "lossy": 0})
        pc["cases"] += 1
        if out["status"] in ("not-spec-valid", "documented-invalid-input"):
            continue
        pc["judged"] += 1
        distinct.add(workers.canon([c["target"], c["wire"]]))
        cls = wiregen.resolve(c["target"])
        if serialisers.populated_aliases_wire(cls, c["wire"]):
            aliased_inputs += 1
        if wiregen.is_config_class(cls):
            for sig, msg in out["violations"]:
                k = json.dumps(sig, sort_keys=True)
                u = unjudged.setdefault(k, {"cases": 0, "example": msg[:400]})
                u["cases"] += 1
            continue
        if out["violations"]:
            pc["lossy"] += 1
        seen_here = set()
        for sig, msg in out["violations"]:
            k = json.dumps(sig, sort_keys=True)
            if k in seen_here:
                continue
            seen_here.add(k)
            report(sig, msg, {"part": "A", "target": c["target"], "label": c["label"], "wire": enc(c["wire"])})
        for k, msg in out["deferred"]:
            d = deferred.setdefault(k, {"cases": 0, "example": msg[:400]})
            d["cases"] += 1
    if do_a:
        for q in class_list:
            pc = per_class.get(wiregen.short(q))
            if pc is None or pc["judged"] == 0:
                res.harness_errors.append(f"no generated wire object of {q} is accepted by the Pydantic backend: the class is not driven")

    # ---- part B ----
    site_table: List[Dict[str, Any]] = []
    variants_total = 0
    b_distinct = set()
    if do_b:
        known = set(hello["pydantic"]["drivers"])
        found = {s["site"] for s in parent_sites}
        through = {serialisers.driver_site_of(s) for s in parent_sites} - {None}
        for s in sorted(known - found - through):
            res.harness_errors.append(f"driver for a serialiser that no longer exists: {s}")
        for si, s in enumerate(parent_sites):
            drv = serialisers.driver_site_of(s)
            row = {"site": s["site"], "calls": s["calls"], "driver": drv is not None, "variants": {},
                   "variants_with_populated_aliases": 0, "violating_variants": 0}
            if drv and drv != s["site"]:
                row["driven_through"] = drv
            site_table.append(row)
            if drv is None:
                res.harness_errors.append(f"discovered serialiser without a driver: {s['site']} ({s['calls']})")
                continue
            for n in pools:
                ans = b_ans[n][si]
                if "harness_exc" in ans or ans.get("no_driver"):
                    res.harness_errors.append(f"driver of {s['site']} under {n}: {ans.get('harness_exc', 'no driver in the worker')[-400:]}")
                    continue
                row["variants"][n] = len(ans["results"])
                if not ans["results"]:
                    res.harness_errors.append(f"driver of {s['site']} produced no variant under {n}")
                for r in ans["results"]:
                    variants_total += 1
                    j = judge_b(s["site"], r, alias_pairs, n)
                    if "harness" in j:
                        res.harness_errors.append(j["harness"])
                        continue
                    b_distinct.add((s["site"], r["variant"]))
                    if j["has_aliases"] and n == "pydantic":
                        row["variants_with_populated_aliases"] += 1
                    if j["violations"]:
                        row["violating_variants"] += 1
                    for sig, msg in j["violations"]:
                        report(sig, msg, {"part": "B", "site": s["site"], "variant": r["variant"], "backend": n})

    # ---- mutation isolation: nothing mutable may be shared between two validated objects ----
    iso_info: Dict[str, Any] = {"cases_per_backend": 0, "objects_with_mutated_defaults": 0, "violating_cases": 0}
    if do_a:
        iso_info["cases_per_backend"] = len(iso_wire)
        for i, c in enumerate(a_cases):
            cls = wiregen.resolve(c["target"])
            model = wiregen.short(c["target"])
            hit = False
            for n in iso_ans:
                a = iso_ans[n][i]
                if "harness_exc" in a:
                    res.harness_errors.append(f"worker exception (isolation) on {c['target']} {c['label']}: {a['harness_exc'][-400:]}")
                    continue
                if not a.get("ok"):
                    continue
                if n == "pydantic" and a.get("defaults_mutated"):
                    iso_info["objects_with_mutated_defaults"] += 1
                found = []
                for sh in a.get("shared") or []:
                    found.append(({"class": "mutable-object-shared-between-instances", "backend": n, "model": model,
                                   "member": sh["path"], "type": sh["type"]},
                                  f"{model} <- {json.dumps(c['wire'], ensure_ascii=True)[:240]}: two separate validations under {n} "
                                  f"share the same {sh['type']} object at '{sh['path']}'"))
                    break
                if a.get("leaks"):
                    found.append(({"class": "default-mutation-leaks", "backend": n, "model": model, "member": a["leaks"]["path"]},
                                  f"{model} <- {json.dumps(c['wire'], ensure_ascii=True)[:240]}: under {n}, after the defaulted members of "
                                  f"one validated object were mutated in place, validating the same wire object again gives a "
                                  f"different dump at '{a['leaks']['path']}' {a['leaks'].get('exc', '')}"))
                if found and wiregen.is_config_class(cls):
                    for sig, msg in found:
                        u = unjudged.setdefault(json.dumps(sig, sort_keys=True), {"cases": 0, "example": msg[:400]})
                        u["cases"] += 1
                    continue
                for sig, msg in found:
                    hit = True
                    report(sig, msg, {"part": "isolation", "target": c["target"], "label": c["label"], "wire": enc(c["wire"])})
            if hit:
                iso_info["violating_cases"] += 1

    # ---- input mutated after validation: the dump of an object must not change unless the object is changed ----
    im_info: Dict[str, Any] = {"cases": 0, "positions_edited": 0, "declared_positions_edited": 0, "edits": 0,
                               "changes_inside_free_form_values_not_judged": 0, "library_edit_scenarios": 0, "violating_cases": 0}
    im_audit = {"reasked": 0, "mismatches": 0}
    if do_a:
        from .. import modelops as _mo

        im = im_join()
        im_info["cases"] = len(im_cases)
        for n_, a_ in im["audits"].items():
            im_audit["reasked"] += a_["reasked"]
            im_audit["mismatches"] += a_["mismatches"]
            if a_["mismatches"]:
                res.harness_errors.append(f"nondeterministic input-mutation answer of the {n_} worker (case #{a_['first_mismatch_index']})")
        for i, c in enumerate(im_cases):
            model = "parse_message" if c["target"] == "parse_message" else wiregen.short(c["target"])
            config_cls = c["target"] != "parse_message" and wiregen.is_config_class(wiregen.resolve(c["target"]))
            hit = False
            per_pos: Dict[str, Dict[str, Any]] = {}
            sib: Dict[str, Any] = {}
            for n in ("pydantic", "fallback"):
                a = im["answers"][n][i]
                if "harness_exc" in a:
                    res.harness_errors.append(f"worker exception (input mutation) on {c['target']} {c['label']}: {a['harness_exc'][-300:]}")
                    continue
                if not a.get("ok"):
                    continue
                if n == "pydantic":
                    im_info["positions_edited"] += a.get("positions", 0)
                    im_info["edits"] += a.get("edits", 0)
                    from ..modelops import container_positions
                    im_info["declared_positions_edited"] += sum(
                        1 for p_ in container_positions(c["wire"]) if c09.position_kind_of(c, list(p_)) == "declared")
                for ch in a["changed"]:
                    if c09.position_kind_of(c, ch["path_list"]) != "declared":
                        im_info["changes_inside_free_form_values_not_judged"] += 1
                        continue
                    per_pos.setdefault(ch["position"], {})[n] = ch
                if a.get("sibling_changed"):
                    sib[n] = a["sibling_changed"]
            if config_cls:
                continue
            for pos, by in per_pos.items():
                backend = "both" if len(by) == 2 else next(iter(by))
                ch = next(iter(by.values()))
                hit = True
                report({"class": "input-mutated-after-validation", "backend": backend, "model": model, "position": pos},
                       f"{model} <- {json.dumps(c['wire'], ensure_ascii=True)[:240]}: editing the wire object in place at the declared "
                       f"container '{pos}' ({ch['mutation']}) after the object was built changes what the object dumps to under "
                       f"{backend} ({ch['via']} differs at '{ch['path']}')",
                       {"part": "inputmut", "target": c["target"], "label": c["label"], "wire": enc(c["wire"])})
            if sib:
                backend = "both" if len(sib) == 2 else next(iter(sib))
                ch = next(iter(sib.values()))
                hit = True
                report({"class": "sibling-object-changed", "backend": backend, "model": model,
                        "position": ch["path"].replace(".vf-own-edit", "")},
                       f"{model} <- {json.dumps(c['wire'], ensure_ascii=True)[:240]}: two objects built from one wire object; editing "
                       f"the first one's own members changes the dump of the second at '{ch['path']}' under {backend}",
                       {"part": "inputmut", "target": c["target"], "label": c["label"], "wire": enc(c["wire"])})
            if hit:
                im_info["violating_cases"] += 1
        for i, lc in enumerate(im["lib"]):
            im_info["library_edit_scenarios"] += 1
            name = f"{_mo.LIBEDIT_SCENARIOS[lc['scenario']]} on params {json.dumps(_mo.LIBEDIT_PARAMS[lc['params']])}"
            bad = {}
            for n in ("pydantic", "fallback"):
                a = im["lib_answers"][n][i]
                if "harness_exc" in a or "exc" in a:
                    res.harness_errors.append(f"library-edit scenario {name} failed under {n}: {str(a)[:300]}")
                elif a.get("changed") and a["changed"].get("outer_params_dict_changed"):
                    bad[n] = a["changed"]
                elif a.get("changed"):
                    im_info["changes_inside_free_form_values_not_judged"] += 1
            if bad:
                backend = "both" if len(bad) == 2 else next(iter(bad))
                ch = next(iter(bad.values()))
                report({"class": "input-mutated-after-validation", "backend": backend,
                        "model": "library:" + _mo.LIBEDIT_SCENARIOS[lc["scenario"]], "position": "params"},
                       f"{name}: the params member of a request object built earlier from the same dict gains/loses members "
                       f"afterwards under {backend} ({ch['via']} differs at '{ch['path']}')",
                       {"part": "libedit", "scenario": lc["scenario"], "params": lc["params"]})

    # ---- part C: typed views through the request helpers ----
    snd_info: Dict[str, Any] = {"helpers_discovered": [r.partition(":")[2] for r in senders], "calls": 0, "typed_views_judged": 0,
                                "violating_calls": 0}
    if snd_join is not None:
        try:
            s_ans, s_aud, _ = snd_join()
        except RuntimeError as e:
            res.harness_errors.append(str(e))
            s_ans = None
        if s_ans is not None:
            for n_, g_, a_ in s_aud:
                audit_extra_c["reasked"] += a_["reasked"]
                if a_["mismatches"]:
                    res.harness_errors.append(f"nondeterministic sender answer of the {n_} worker (case #{a_['first_mismatch_index']})")
            ok_per_sender: Dict[str, int] = {}
            for i, c in enumerate(snd_meta):
                name = c["sender"].partition(":")[2]
                snd_info["calls"] += 1
                bad: Dict[str, Any] = {}
                for n in s_ans["sender"]:
                    a = s_ans["sender"][n][i]
                    if "harness_exc" in a:
                        res.harness_errors.append(f"worker exception (sender {name}): {a['harness_exc'][-300:]}")
                        continue
                    if not a.get("ok"):
                        if a.get("why") not in ("not-spec-valid",):
                            ok_per_sender.setdefault(name, 0)
                        continue
                    ok_per_sender[name] = ok_per_sender.get(name, 0) + 1
                    snd_info["typed_views_judged"] += 1
                    if a["lossless"] or a["differs_from_direct_view"]:
                        bad[n] = a
                if bad:
                    backend = "both" if len(bad) == 2 else next(iter(bad))
                    a = next(iter(bad.values()))
                    pb = (a["lossless"] or [{"kind": "differs-from-direct-view", "path": a["differs_from_direct_view"]}])[0]
                    snd_info["violating_calls"] += 1
                    report({"class": pb["kind"], "via": "sender:" + name, "member": pb.get("member", c09.norm_path(str(pb.get("path")))),
                            "backend": backend, "arguments": c["variant"].split("=")[0] + ("=<a string of the response>" if "response" in c["variant"] else "")},
                           f"{name}({c['variant']}) answered with result {json.dumps(c['wire'], ensure_ascii=True)[:240]}: the typed object it "
                           f"returns is not a lossless view of that result under {backend}: {pb['kind']} at '{pb.get('path')}' "
                           f"({pb.get('detail', '')})",
                           {"part": "sender", "case": {"op": "sender", "sender": c["sender"], "wire": enc(c["wire"]), "kwargs": c["kwargs"]}})
            for ref in senders:
                if not ok_per_sender.get(ref.partition(":")[2]):
                    res.harness_errors.append(f"request helper {ref} returns a model but no scripted call of it succeeded: it is not driven")

    # ---- reading an object must not change what it dumps to; the order of dump calls must not matter ----
    pr_info: Dict[str, Any] = {"method_probe_objects": 0, "methods_called": 0, "dump_order_sequences": 0,
                               "dump_calls_compared_with_a_fresh_process": 0, "violations": 0}
    pr_audit = {"reasked": 0}
    if pr_join is not None:
        try:
            m_ans, m_aud, _h = pr_join()
            d_ans, d_aud, _h2 = do_join()
        except RuntimeError as e:
            res.harness_errors.append(str(e))
            m_ans = None
        if m_ans is not None:
            for n_, g_, a_ in m_aud + d_aud:
                pr_audit["reasked"] += a_["reasked"]
                if a_["mismatches"]:
                    res.harness_errors.append(f"nondeterministic {g_} probe answer of the {n_} worker (case #{a_['first_mismatch_index']})")
            for i, c in enumerate(pr_meta["methods"]):
                model = "parse_message" if c["target"] == "parse_message" else wiregen.short(c["target"])
                if c["target"] != "parse_message" and wiregen.is_config_class(wiregen.resolve(c["target"])):
                    continue
                by = {n: m_ans["methods"][n][i] for n in m_ans["methods"]}
                pr_info["method_probe_objects"] += 1
                changed = {n: a for n, a in by.items() if a.get("ok") and a.get("changed")}
                pr_info["methods_called"] += sum(len(a.get("called", [])) for a in by.values())
                if changed:
                    backend = "both" if len(changed) == 2 else next(iter(changed))
                    a = next(iter(changed.values()))
                    pr_info["violations"] += 1
                    report({"class": "reading-the-object-changes-its-dump", "backend": backend, "model": model, "call": a.get("culprit")},
                           f"{model} <- {json.dumps(c['wire'], ensure_ascii=True)[:200]}: after calling the public zero-argument methods / "
                           f"properties of the object ({len(a.get('called', []))} calls) its dump differs at '{a['changed']['path']}' "
                           f"({a['changed']['via']}) under {backend}; first call that does it: {a.get('culprit')}",
                           {"part": "probe", "case": {"op": "methods", "target": c["target"], "wire": enc(c["wire"])}})
            pr_info["shared_instance_objects"] = 0
            for i, c in enumerate(pr_meta["shared"]):
                if wiregen.is_config_class(wiregen.resolve(c["target"])):
                    continue
                pr_info["shared_instance_objects"] += 1
                bad = {n: m_ans["shared"][n][i]["problem"] for n in m_ans["shared"] if m_ans["shared"][n][i].get("problem")}
                if bad:
                    backend = "both" if len(bad) == 2 else next(iter(bad))
                    pb = next(iter(bad.values()))
                    pr_info["violations"] += 1
                    report({"class": "shared-instance-dump-differs", "backend": backend, "model": wiregen.short(c["target"]),
                            "how": pb.get("kind"), "exception": pb.get("exc")},
                           f"{wiregen.short(c['target'])} <- {json.dumps(c['wire'], ensure_ascii=True)[:200]}: with one model instance at "
                           f"two positions of the (non-cyclic) object, {pb.get('via')} under {backend}: {pb}",
                           {"part": "probe", "case": {"op": "shared", "target": c["target"], "wire": enc(c["wire"])}})
            for n in d_ans["dumporder"]:
                refs: Dict[Tuple[str, int], Any] = {}
                for c, a in zip(pr_meta["dumporder"], d_ans["dumporder"][n]):
                    if c["reference"] and isinstance(a, list):
                        refs[(c["target"], c["calls"][0][1])] = a[0]
                for c, a in zip(pr_meta["dumporder"], d_ans["dumporder"][n]):
                    if isinstance(a, dict) and "harness_exc" in a:
                        res.harness_errors.append(f"worker exception (dump order) on {c['target']}: {a['harness_exc'][-300:]}")
                        continue
                    if c["reference"] or wiregen.is_config_class(wiregen.resolve(c["target"])):
                        continue
                    pr_info["dump_order_sequences"] += 1
                    (o1, c1), (o2, c2) = c["calls"]
                    want, got = refs.get((c["target"], c2)), a[1] if len(a) > 1 else {"exc": "missing"}
                    pr_info["dump_calls_compared_with_a_fresh_process"] += 1
                    if want is not None and workers.line(want) != workers.line(got):
                        pr_info["violations"] += 1
                        first, then = modelops_calls[c1], modelops_calls[c2]
                        lost = (got.get("lossless") or [{}])[0]
                        report({"class": "dump-depends-on-earlier-dumps", "backend": n, "model": wiregen.short(c["target"]),
                                "call": then, "after": first},
                               f"{wiregen.short(c['target'])} <- {json.dumps(dec(c['wires'][1]), ensure_ascii=True)[:200]}: under {n}, in a "
                               f"fresh process whose first dump of this class was {first} (of another object), {then} gives "
                               f"{json.dumps(dec(got['value']), ensure_ascii=True)[:200] if 'value' in got else got}; made first in a fresh "
                               f"process it gives {json.dumps(dec(want['value']), ensure_ascii=True)[:200] if 'value' in want else want}"
                               + (f"; losslessness: {lost.get('kind')} at '{lost.get('path')}'" if lost else ""),
                               {"part": "probe", "case": {"op": "dumporder", "target": c["target"], "wires": c["wires"], "calls": c["calls"]},
                                "reference": {"op": "dumporder", "target": c["target"], "wires": c["wires"], "calls": [[1, c2]]}})

    # ---- order of validation made explicit: ordered pairs of same-named classes, fresh workers ----
    pair_info: Dict[str, Any] = {"groups": {}, "ordered_pairs": 0, "answers_compared_with_alone": 0, "differences": 0}
    if do_a:
        groups = orderdep.same_name_groups(class_list)
        by_class: Dict[str, List[Dict[str, Any]]] = {}
        for c in a_cases:
            by_class.setdefault(c["target"], []).append(c)

        def wc(c):
            return {"op": "validate", "target": c["target"], "wire": enc(c["wire"]), "lossless": True}

        members = sorted({q for v in groups.values() for q in v})
        pr = orderdep.run_pairs(CONFIGS, HANDLER, {q: [wc(c) for c in by_class[q]] for q in members}, groups)
        pair_info["groups"] = {k: [wiregen.short(q) for q in v] for k, v in groups.items()}
        pair_info["ordered_pairs"] = len(pr["pairs"])
        for cfg in CONFIGS:
            n = cfg["name"]
            for (qa, qb) in pr["pairs"]:
                for which, q in ((0, qa), (1, qb)):
                    for ci, c in enumerate(by_class[q]):
                        pair_info["answers_compared_with_alone"] += 1
                        got, alone = pr[n]["seq"][(qa, qb)][which][ci], pr[n]["alone"][q][ci]
                        if workers.line(got) == workers.line(alone):
                            continue
                        pair_info["differences"] += 1
                        first, then = wiregen.short(qa), wiregen.short(qb)
                        report({"class": "order-dependent-behaviour", "backend": n, "model": wiregen.short(q),
                                "first": first, "then": then},
                               f"{wiregen.short(q)} <- {json.dumps(c['wire'], ensure_ascii=True)[:240]}: under {n}, in a fresh "
                               f"process that validates objects of {first} and then of {then}, the answer differs from the "
                               f"one of a fresh process that validates {wiregen.short(q)} alone: "
                               f"{orderdep.first_difference(alone, got)}",
                               {"part": "order", "backend": n, "target": c["target"], "label": c["label"], "wire": enc(c["wire"]),
                                "history": [{"target": h["target"], "wire": enc(h["wire"])}
                                            for h in (by_class[qa] if which == 1 else by_class[qa][:ci])]})

    # ---- determinism audit (fresh workers); a mismatch is explained before it is reported ----
    audit_total = audit_bad = audit_order = 0
    audits_a = orderdep.per_config(CONFIGS, lambda cfg: workers.audit(cfg, HANDLER, a_wire, a_ans[cfg["name"]], AUDIT_MOD, cap=20000)) if a_wire else {}
    audits_i = orderdep.per_config(CONFIGS, lambda cfg: workers.audit(cfg, HANDLER, iso_wire, iso_ans[cfg["name"]], AUDIT_MOD, cap=20000)) if iso_wire else {}
    for cfg in CONFIGS:
        n = cfg["name"]
        if a_wire:
            a = audits_a[n]
            audit_total += a["reasked"]
            audit_bad += a["mismatches"]
            for ex in orderdep.explain_audit_mismatches(cfg, HANDLER, a_wire, a_ans[n], pools_history[n], a):
                i = ex["index"]
                if ex["kind"] == "nondeterministic":
                    res.harness_errors.append(f"nondeterministic answer of the {n} worker for {a_cases[i]['target']} {a_cases[i]['label']}")
                    continue
                audit_order += 1
                model = wiregen.short(a_cases[i]["target"])
                report({"class": "order-dependent-behaviour", "backend": n, "model": model},
                       f"{model} <- {json.dumps(a_cases[i]['wire'], ensure_ascii=True)[:200]}: under {n} the answer after "
                       f"{len(ex['history'])} earlier validations in the same process ({ex['where']}) differs from the answer "
                       f"of a fresh process: {orderdep.first_difference(ex['alone'], ex['after'])}",
                       {"part": "order", "backend": n, "target": a_cases[i]["target"], "label": a_cases[i]["label"],
                        "wire": enc(a_cases[i]["wire"]),
                        "history": [{"target": a_cases[h]["target"], "wire": enc(a_cases[h]["wire"])} for h in ex["history"]]})
        if iso_wire:
            a = audits_i[n]
            audit_total += a["reasked"]
            audit_bad += a["mismatches"]
            if a["mismatches"] and not iso_info["violating_cases"]:
                for ex in orderdep.explain_audit_mismatches(cfg, HANDLER, iso_wire, iso_ans[n], iso_history[n], a, cap=3):
                    i = ex["index"]
                    if ex["kind"] == "nondeterministic":
                        res.harness_errors.append(f"nondeterministic isolation answer of the {n} worker for {a_cases[i]['target']} {a_cases[i]['label']}")
                    else:
                        audit_order += 1
                        report({"class": "order-dependent-behaviour", "backend": n, "model": wiregen.short(a_cases[i]["target"]),
                                "part": "isolation"},
                               f"{wiregen.short(a_cases[i]['target'])}: the isolation answer under {n} depends on what the process "
                               f"validated before: {orderdep.first_difference(ex['alone'], ex['after'])}",
                               {"part": "isolation", "target": a_cases[i]["target"], "label": a_cases[i]["label"],
                                "wire": enc(a_cases[i]["wire"])})
        if b_wire:
            again = b_again[n]
            for w, x, y in zip(reversed(b_wire), again, reversed(b_ans[n])):
                audit_total += 1
                if workers.line(x) != workers.line(y):
                    audit_bad += 1
                    res.harness_errors.append(f"nondeterministic serialiser driver under {n}: {w['site']}")
    if audit_order:
        audit_bad = sum(1 for h in res.harness_errors if h.startswith("nondeterministic"))

    if do_a and len(status_a) < 2 and not res.harness_errors:
        res.harness_errors.append(f"vacuous part A: a single outcome {status_a}")
    cov = res.coverage
    cov["evaluations"] = 2 * len(a_cases) + variants_total + 2 * len(iso_wire) + 2 * len(snd_meta)
    cov["distinct_nontrivial"] = len(distinct) + len(b_distinct)
    cov["part_A"] = {
        "cases_per_backend": len(a_cases), "outcomes": dict(sorted(status_a.items())), "distinct_spec_valid_objects": len(distinct),
        "objects_with_a_populated_alias": aliased_inputs, "model_classes_discovered": len(class_list),
        "per_class": per_class,
        "fallback_only_losses_deferred_to_C09": deferred,
        "unjudged_config_class_differences": unjudged,
    }
    cov["part_B"] = {"serialisers_discovered": len(parent_sites), "variants_driven": variants_total,
                     "distinct_site_variants": len(b_distinct), "sites": site_table, "alias_pairs": alias_pairs}
    cov["violation_signatures"] = dict(sorted(sig_count.items()))
    cov["audit_reasked"] = audit_total + im_audit["reasked"] + pr_audit["reasked"] + audit_extra_c["reasked"]
    cov["audit_mismatches"] = audit_bad
    cov["audit_mismatches_explained_as_order_dependence"] = audit_order
    cov["same_name_pair_order"] = pair_info
    cov["input_mutated_after_validation"] = im_info
    cov["object_probes"] = pr_info
    cov["part_C_typed_views_through_request_helpers"] = snd_info
    cov["mutation_isolation"] = iso_info
    cov["configurations"] = {n: {k: v for k, v in h.items() if k in ("PYDANTIC_AVAILABLE", "MCP_FORCE_FALLBACK", "base_module_of_models")}
                             for n, h in hello.items()}
    samples: List[Any] = [{"part": "A", "target": c["target"], "label": c["label"], "wire": c["wire"]} for c in c09._spread(a_cases, 4)]
    if do_b and parent_sites:
        for n in ("pydantic",):
            for si, s in enumerate(parent_sites[:2]):
                rs = b_ans[n][si].get("results") or []
                if rs and "output" in rs[0]:
                    samples.append({"part": "B", "site": s["site"], "variant": rs[0]["variant"], "output": dec(rs[0]["output"])})
    cov["samples"] = samples
    cov["exhaustive"] = True
    cov["rule"] = (
        "part A: losslessness of model_dump and of the JSON path, plus mutation isolation (validate twice: no shared mutable object; "
        "mutate every defaulted member in place, validate again: same dump), for every discovered McpPydanticBase subclass x vf.wiregen.wire_objects (as in C09: optional-member subsets / "
        "pairwise rows, every sample value per member, aliases populated, unknown members x-unknown and _meta) x {Pydantic, "
        "fallback}; part B: every function/method found by the AST walk x the variants its driver enumerates (every accepted "
        "wire object of every model class its parameter annotation admits, as instance and - where the annotation admits a "
        "dict - as dict; the four JSON-RPC envelope kinds for the transports) x both backends; evaluations = model cases x 2 "
        "+ serialiser variants driven; distinct non-trivial = distinct spec-valid (class, wire object) + distinct (site, variant)"
    )
    res.assumptions = [
        "spec-valid = generated by the type-directed generator and accepted by the Pydantic backend",
        "a member whose wire value is null is outside part A: the observed view is model_dump(exclude_none=True)",
        "numbers are compared by value (1 and 1.0 are the same JSON number); everything else exactly",
        "an object the fallback backend rejects although Pydantic accepts it is a backend disagreement (C09) and only counted here (fallback_only_losses_deferred_to_C09 / rejected-by-fallback); losses under either backend are reported here",
        "transport parameter classes (chuk_mcp.transports.*) are local configuration, not protocol models: driven, differences listed under unjudged_config_class_differences",
        "models that are a JSON Schema (they declare properties and type/required) additionally get every JSON-Schema keyword in each of its forms (boolean / schema object / array or map of schemas / literal) at their own level, whether or not the class declares a member of that name; for these the keyword grammar is the reference of validity, so a rejection is reported instead of being counted as not spec-valid",
        "a null inside a free-form value (tool arguments, schemas, _meta, unknown object members) is data and must come back as null; only null-valued members OF A MODEL (declared or unknown, as Pydantic's exclude_none treats them) may be missing from the exclude_none view",
        "order of dump calls: per class every ordered pair of two different dump calls (model_dump / model_dump_json, plain / by-alias) on two objects, each pair in a process forked for it from a worker that never validates or dumps; the second call must give what it gives when made first",
        "input mutated after validation: judged absolutely only at declared containers (the object itself, nested models, members declared List[...] / Dict[...] / dict and declared items of such lists); inside free-form values (Any, values of Dict[str, Any], unknown members) both backends keep the caller's objects - counted, not judged (C09 demands that the backends agree there)",
        "mutation isolation: every validation is given its own freshly decoded wire object, so an object shared by two results cannot come from the input; immutable values (str, int, None, tuple) may be shared; the in-place mutations are undone after each case",
        "the JSON path is json.loads(model_dump_json(by_alias=True, exclude_none=True)) parsed with the standard library",
        "part C: every coroutine send_* under chuk_mcp.protocol.messages annotated to return a model is called against a scripted peer that answers with a generated spec-valid result object; the returned typed object must be a lossless view of that result and dump like the class validated directly; string parameters also take every string found at the top level of the result (a follow-up request carries values of the previous answer, e.g. a cursor); the completion helper's result travels under 'completion' and the handshake's scripted server answers the proposed protocol version",
        "part B, resend: a typed object is edited in place (attribute assignment, a new key in its dict members) and handed to the same handler/function again; what is emitted must equal what a fresh handler emits for the object as it is now",
        "a serialiser call that moved into a private helper is driven through the function of the same file that calls the helper",
        "part B judges names only: the produced JSON must not contain, at any depth, the Python attribute name of any aliased member (no generated input uses those words as data keys) and must contain the wire name of every aliased member the input populated",
        "the sites in send_message.py dump an *incoming* response for a log line / the caller; they are driven like the others",
        "serialisers reached only through code the AST walk cannot see (dynamic attribute names other than getattr(x, 'model_dump...')) are not discovered",
    ]
    return res


def replay_case(args: Dict[str, Any]) -> Dict[str, Any]:
    import logging

    logging.disable(logging.CRITICAL)
    wiregen.discover()
    if args["part"] == "sender":
        ans = {cfg["name"]: workers.fresh_sequence(cfg, HANDLER, [args["case"]])[0] for cfg in CONFIGS}
        viol = [{"sig": {"class": "typed-view-through-sender-lossy", "backend": n}, "msg": str(a.get("lossless") or a.get("differs_from_direct_view"))}
                for n, a in ans.items() if a.get("ok") and (a["lossless"] or a["differs_from_direct_view"])]
        return {"part": "sender", "answers": ans, "violations": viol}
    if args["part"] == "probe":
        viol = []
        ans = {}
        for cfg in CONFIGS:
            a = workers.fresh_sequence(cfg, HANDLER, [args["case"]])[0]
            ans[cfg["name"]] = a
            if args["case"]["op"] == "methods" and a.get("changed"):
                viol.append({"sig": {"class": "reading-the-object-changes-its-dump", "backend": cfg["name"], "call": a.get("culprit")},
                             "msg": str(a["changed"])})
            if args["case"]["op"] == "shared" and a.get("problem"):
                viol.append({"sig": {"class": "shared-instance-dump-differs", "backend": cfg["name"]}, "msg": str(a["problem"])})
            if args["case"]["op"] == "dumporder":
                ref = workers.fresh_sequence(cfg, HANDLER, [args["reference"]])[0]
                if workers.line(ref[0]) != workers.line(a[-1]):
                    viol.append({"sig": {"class": "dump-depends-on-earlier-dumps", "backend": cfg["name"]},
                                 "msg": orderdep.first_difference(ref[0], a[-1])})
        return {"part": "probe", "answers": ans, "violations": viol}
    if args["part"] in ("inputmut", "libedit"):
        x = {"op": "libedit", "scenario": args["scenario"], "params": args["params"]} if args["part"] == "libedit" else \
            {"op": "inputmut", "target": args["target"], "wire": args["wire"]}
        ans = {cfg["name"]: workers.fresh_sequence(cfg, HANDLER, [x])[0] for cfg in CONFIGS}
        viol = []
        for n, a in ans.items():
            if args["part"] == "libedit":
                if (a.get("changed") or {}).get("outer_params_dict_changed"):
                    viol.append({"sig": {"class": "input-mutated-after-validation", "backend": n}, "msg": str(a["changed"])})
                continue
            c = {"target": args["target"], "wire": dec(args["wire"])}
            for ch in a.get("changed", []):
                if c09.position_kind_of(c, ch["path_list"]) == "declared":
                    viol.append({"sig": {"class": "input-mutated-after-validation", "backend": n, "position": ch["position"]},
                                 "msg": f"{ch['mutation']} at {ch['position']}: {ch['via']} differs at {ch['path']}"})
            if a.get("sibling_changed"):
                viol.append({"sig": {"class": "sibling-object-changed", "backend": n}, "msg": str(a["sibling_changed"])})
        if args["part"] == "inputmut" and args["target"] != "parse_message" and wiregen.is_config_class(wiregen.resolve(args["target"])):
            viol = []
        return {"part": args["part"], "answers": ans, "violations": viol}
    if args["part"] == "isolation":
        x = {"op": "isolation", "target": args["target"], "wire": args["wire"]}
        ans = {cfg["name"]: workers.fresh_sequence(cfg, HANDLER, [x])[0] for cfg in CONFIGS}
        viol = []
        for n, a in ans.items():
            for sh in (a.get("shared") or [])[:1]:
                viol.append({"sig": {"class": "mutable-object-shared-between-instances", "backend": n,
                                     "model": wiregen.short(args["target"]), "member": sh["path"], "type": sh["type"]},
                             "msg": f"two validations share the {sh['type']} at {sh['path']}"})
            if a.get("leaks"):
                viol.append({"sig": {"class": "default-mutation-leaks", "backend": n, "model": wiregen.short(args["target"]),
                                     "member": a["leaks"]["path"]}, "msg": f"dump changed at {a['leaks']['path']}"})
        if wiregen.is_config_class(wiregen.resolve(args["target"])):
            viol = []
        return {"part": "isolation", "target": args["target"], "wire": dec(args["wire"]), "answers": ans, "violations": viol}
    if args["part"] == "order":
        cfg = [c_ for c_ in CONFIGS if c_["name"] == args["backend"]][0]
        x = {"op": "validate", "target": args["target"], "wire": args["wire"], "lossless": True}
        hist = [{"op": "validate", "target": h["target"], "wire": h["wire"], "lossless": True} for h in args.get("history", [])]
        alone = workers.fresh_sequence(cfg, HANDLER, [x])[0]
        after = workers.fresh_sequence(cfg, HANDLER, hist + [x])[-1]
        viol = []
        if workers.line(alone) != workers.line(after):
            viol.append({"sig": {"class": "order-dependent-behaviour", "backend": args["backend"],
                                 "model": wiregen.short(args["target"])},
                         "msg": f"after {len(hist)} earlier validations: {orderdep.first_difference(alone, after)}"})
        return {"part": "order", "target": args["target"], "wire": dec(args["wire"]), "history_length": len(hist),
                "alone": alone, "after_history": after, "violations": viol}
    pools = start_pools(1)
    try:
        hello = {n: p.hello for n, p in pools.items()}
        if args["part"] == "A":
            c = {"target": args["target"], "label": args.get("label"), "wire": dec(args["wire"])}
            w = {"op": "validate", "target": c["target"], "wire": args["wire"], "lossless": True}
            ans = {n: p.map([w])[0] for n, p in pools.items()}
        else:
            ans = {n: p.map([{"op": "drive", "site": args["site"]}])[0] for n, p in pools.items()}
    finally:
        for p in pools.values():
            p.close()
    if args["part"] == "A":
        out = judge_a(c, ans["pydantic"], ans["fallback"])
        shown = {}
        for n, a in ans.items():
            a = dict(a)
            if "dump" in a:
                a["dump"] = dec(a["dump"])
            shown[n] = a
        cfg_cls = wiregen.is_config_class(wiregen.resolve(c["target"]))
        return {"part": "A", "target": c["target"], "wire": c["wire"], "status": out["status"], "answers": shown,
                "deferred": out["deferred"],
                "violations": [] if cfg_cls else [{"sig": s, "msg": m} for s, m in out["violations"]]}
    viol = []
    outputs = {}
    for n, a in ans.items():
        for r in a.get("results", []):
            if r["variant"] != args["variant"]:
                continue
            j = judge_b(args["site"], r, hello["pydantic"]["alias_pairs"], n)
            outputs[n] = dec(r["output"]) if "output" in r else r
            if n == args.get("backend", n):
                viol += [{"sig": s, "msg": m} for s, m in j.get("violations", [])]
    return {"part": "B", "site": args["site"], "variant": args["variant"], "outputs": outputs, "violations": viol}
