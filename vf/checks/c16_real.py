"""C16, real-child part: the fault matrix with real processes on a real loop.

The kernel's scheduling is not controlled here; every cell of the matrix is
nevertheless *run* (fault enumeration, not sampling).  Observations are OS
facts: /proc/<pid> of every spawned child after the context was left, number of
open fds before/after, bounded wall-clock exit, outcome of the pending request.
"""
from __future__ import annotations

import asyncio
import gc
import os
import signal
import sys
import time
from typing import Any, Dict, List

import anyio

from .. import core, explorer, sched

RUN = "vf.checks.c16_real:run_one"
CHILD = os.path.join(os.path.dirname(os.path.dirname(os.path.abspath(__file__))), "children", "child.py")
BEHAVIOURS = ["well", "slow-start", "exit-at-spawn", "exit-on-request", "exit-after-response", "ignore-term",
              "never-reads", "stdout-flood", "closes-stdout", "closes-stdin"]
EXITS = ["normal", "exception", "task-cancel", "scope-cancel", "fail-after"]
MOMENTS = ["before-first", "in-flight", "after-response"]
SLACK = 3.0


class _BodyError(Exception):
    pass


def _nfds() -> int:
    return len(os.listdir("/proc/self/fd"))


def _proc_state(pid: int):
    try:
        with open(f"/proc/{pid}/stat") as f:
            data = f.read()
        return data.rsplit(")", 1)[1].split()[0]
    except (FileNotFoundError, ProcessLookupError):
        return None


def run_one(ctl, cfg: Dict[str, Any]) -> Dict[str, Any]:
    from chuk_mcp.protocol.messages.send_message import send_message
    from chuk_mcp.transports.stdio.parameters import StdioParameters
    from chuk_mcp.transports.stdio.stdio_client import stdio_client

    b, ex, mo = cfg["behaviour"], cfg["exit"], cfg["moment"]
    info: Dict[str, Any] = {"req": None, "answered": False}
    pids: List[int] = []
    orig_open = anyio.open_process

    async def recording_open(command, **kw):
        p = await orig_open(command, **kw)
        pids.append(p.pid)
        return p

    params = StdioParameters(command=sys.executable, args=[CHILD, b])

    async def wait_ready(read):
        with anyio.move_on_after(5.0):
            while True:
                m = await read.receive()
                if getattr(m, "method", None) == "notifications/ready":
                    info["ready"] = True
                    return

    async def request(read, write, method):
        try:
            await send_message(read, write, method, timeout=1.5, message_id="q1")
            info["req"] = "result"
        except TimeoutError:
            info["req"] = "timeout"
            raise
        except asyncio.CancelledError:
            info["req"] = "cancelled"
            raise
        except Exception as e:  # noqa: BLE001
            info["req"] = "error:" + type(e).__name__
            raise

    blocked = asyncio.Event()

    async def body(read, write):
        await wait_ready(read)
        interrupting = ex in ("task-cancel", "scope-cancel", "fail-after")
        if mo == "in-flight":
            if interrupting:
                blocked.set()
                info["blocked"] = True
                try:
                    await request(read, write, "slow/never")
                except TimeoutError:
                    pass
                await asyncio.sleep(3600)
            else:
                await write.send({"jsonrpc": "2.0", "id": "q1", "method": "slow/never"})
                await asyncio.sleep(0.05)
        elif mo == "after-response":
            try:
                await request(read, write, "tools/list")
            except (TimeoutError, Exception):  # noqa: BLE001
                pass
        if ex == "exception":
            info["t_begin"] = time.monotonic()
            raise _BodyError("body failed")
        if interrupting:
            blocked.set()
            await asyncio.sleep(3600)
        info["t_begin"] = time.monotonic()

    async def use_client():
        async with stdio_client(params) as (read, write):
            await body(read, write)

    async def main():
        outcome = None
        info["fds_loop_before"] = _nfds()
        try:
            if ex in ("normal", "exception"):
                await use_client()
            elif ex == "task-cancel":
                t = asyncio.ensure_future(use_client())
                await asyncio.wait([asyncio.ensure_future(blocked.wait()), t], return_when=asyncio.FIRST_COMPLETED)
                await asyncio.sleep(0.05)
                info["t_begin"] = time.monotonic()
                t.cancel()
                await t
            elif ex == "scope-cancel":
                with anyio.CancelScope() as scope:
                    async def canceller():
                        await blocked.wait()
                        await asyncio.sleep(0.05)
                        info["t_begin"] = time.monotonic()
                        scope.cancel()
                    ct = asyncio.ensure_future(canceller())
                    try:
                        await use_client()
                    finally:
                        ct.cancel()
                outcome = "scope-cancelled" if scope.cancelled_caught else "scope-not-caught"
            elif ex == "fail-after":
                t0 = time.monotonic()
                info["t_begin"] = t0 + 2.5
                with anyio.fail_after(2.5):
                    await use_client()
        except _BodyError:
            outcome = "body-error-propagated"
        except asyncio.CancelledError:
            outcome = "cancelled-propagated"
        except TimeoutError:
            outcome = "timeout-propagated"
        except BaseException as e:  # noqa: BLE001
            outcome = "other:" + type(e).__name__
        else:
            outcome = outcome or "returned"
        info["t_done"] = time.monotonic()
        info["outcome"] = outcome
        # OS facts while the loop is still alive and before any garbage collection:
        # the child must be gone and its pipes closed shortly after the context was left
        end = time.monotonic() + 1.0
        while True:
            st = {pid: _proc_state(pid) for pid in pids}
            if all(x is None for x in st.values()) or time.monotonic() > end:
                break
            await asyncio.sleep(0.02)
        # fds: counted with the garbage collector switched off for the whole run - a descriptor that is only
        # released when some object happens to be collected is still open as far as the statement is concerned;
        # the loop gets a moment to run its close callbacks
        n = _nfds()
        for _ in range(25):
            if n <= info["fds_loop_before"]:
                break
            await asyncio.sleep(0.02)
            n = _nfds()
        info["states_in_loop"] = st
        info["fds_loop_after"] = n

    gc.collect()
    fds_before = _nfds()
    sys.unraisablehook = lambda *a: None  # GC of never-closed transports after the loop is gone is not our subject
    anyio.open_process = recording_open
    gc.disable()
    try:
        asyncio.run(asyncio.wait_for(main(), 30))
        hung = False
    except asyncio.TimeoutError:
        hung = True
    except BaseException as e:  # noqa: BLE001
        hung = False
        info["outcome"] = "runner:" + type(e).__name__
    finally:
        gc.enable()
        anyio.open_process = orig_open
    # give the kernel a moment, then look
    states = {}
    deadline = time.monotonic() + 1.0
    while True:
        states = {pid: _proc_state(pid) for pid in pids}
        if all(s is None for s in states.values()) or time.monotonic() > deadline:
            break
        time.sleep(0.02)
    gc.collect()
    fds_after = _nfds()
    # clean up whatever is left so the check itself leaves nothing behind
    for pid, s in states.items():
        if s is not None:
            try:
                os.killpg(pid, signal.SIGKILL)
            except Exception:
                try:
                    os.kill(pid, signal.SIGKILL)
                except Exception:
                    pass
            try:
                os.waitpid(pid, 0)
            except Exception:
                pass

    viol: List[dict] = []

    def bad(cls, msg, **extra):
        viol.append({"sig": {"class": cls, "exit": ex, "part": "real", **extra},
                     "msg": f"real child behaviour={b} exit={ex} moment={mo}: {msg}"})

    obs: Dict[str, Any] = {"cfg": f"{b}/{ex}/{mo}", "outcome": info.get("outcome"), "req": info.get("req"),
                           "spawned": len(pids)}
    if hung:
        obs["outcome"] = "hung"
        bad("hung", "the whole scenario did not finish within 30 s")
    if len(pids) != 1:
        raise core.HarnessError("seam missing: stdio_client did not call anyio.open_process exactly once")
    for pid, s in (info.get("states_in_loop") or states).items():
        if s == "Z":
            bad("zombie", "child exited but was never reaped (zombie)")
        elif s is not None:
            bad("child-left-running", f"child still alive (state {s}) after the context was left")
    if info.get("fds_loop_after", 0) > info.get("fds_loop_before", 0):
        bad("fd-leak", f"{info['fds_loop_after'] - info['fds_loop_before']} more open file descriptors 0.5 s after leaving "
                       "the context (garbage collector switched off, loop still running)", when="in-loop")
    elif fds_after > fds_before:
        bad("fd-leak", f"{fds_after - fds_before} more open file descriptors after leaving the context and collecting garbage",
            when="after-gc")
    if "t_begin" in info and "t_done" in info:
        dur = info["t_done"] - info["t_begin"]
        if dur > 2.0 + SLACK:
            bad("exit-too-slow", f"leaving the context took {dur:.2f}s wall clock")
    elif not hung:
        bad("exit-not-reached", "exit path never taken")
    want = {"normal": "returned", "exception": "body-error-propagated", "task-cancel": "cancelled-propagated",
            "scope-cancel": "scope-cancelled", "fail-after": "timeout-propagated"}[ex]
    if not hung and info.get("outcome") != want:
        bad("wrong-exit-outcome", f"context exit ended with {info.get('outcome')!r}, expected {want!r}")
    if info.get("req") == "result" and (mo != "after-response" or b in ("exit-on-request", "never-reads", "closes-stdout",
                                                                       "closes-stdin", "exit-at-spawn", "stdout-flood")):
        bad("fabricated-result", "request returned a result the child cannot have sent")
    obs["violations"] = viol
    return obs


# ---------------------------------------------------------------------------
# the library's own multi-server runner leaves the same context on the caller's behalf
# ---------------------------------------------------------------------------
RUN_HOST = "vf.checks.c16_real:run_host"
HOST_BEHAVIOURS = ["well", "ignore-term", "exit-after-response", "exit-on-request", "slow-start"]


def run_host(ctl, cfg: Dict[str, Any]) -> Dict[str, Any]:
    """run_command(command, config, servers) with real children: when it returns, every child it launched is gone."""
    import json
    import shutil
    import tempfile

    from chuk_mcp.mcp_client.host import server_manager
    from chuk_mcp.protocol.messages.send_message import send_message

    behaviours = cfg["servers"]
    pids: List[int] = []
    orig_open = anyio.open_process

    async def recording_open(command, **kw):
        p = await orig_open(command, **kw)
        pids.append(p.pid)
        return p

    tmp = tempfile.mkdtemp(prefix="c16-host-")
    conf = os.path.join(tmp, "servers.json")
    names = [f"s{i}" for i in range(len(behaviours))]
    with open(conf, "w") as f:
        json.dump({"mcpServers": {n: {"command": sys.executable, "args": [CHILD, b]} for n, b in zip(names, behaviours)}}, f)
    info: Dict[str, Any] = {"requests": []}

    async def command(streams, **kw):
        info["connected"] = len(streams)
        for (read, write) in streams:
            try:
                await send_message(read, write, "tools/list", timeout=1.0, message_id="q1")
                info["requests"].append("result")
            except TimeoutError:
                info["requests"].append("timeout")
            except Exception as e:  # noqa: BLE001
                info["requests"].append("error:" + type(e).__name__)
        if cfg["cmd"] == "raises":
            raise RuntimeError("command failed")
        if cfg["cmd"] == "keyboard-interrupt":
            raise KeyboardInterrupt()
        return True if cfg["cmd"] == "chat-true" else None

    if cfg["cmd"] == "chat-true":
        command.__name__ = "chat_run"
    gc.collect()
    fds0 = _nfds()
    orig_system = os.system
    anyio.open_process = recording_open
    os.system = lambda *_a, **_k: 0
    devnull = open(os.devnull, "w")
    old_out = sys.stdout
    sys.stdout = devnull
    t0 = time.monotonic()
    try:
        try:
            server_manager.run_command(command, conf, names)
            outcome = "returned"
        except BaseException as e:  # noqa: BLE001
            outcome = "raised:" + type(e).__name__
    finally:
        dur = time.monotonic() - t0
        sys.stdout = old_out
        devnull.close()
        anyio.open_process = orig_open
        os.system = orig_system
    time.sleep(0.2)
    states = {pid: _proc_state(pid) for pid in pids}
    gc.collect()
    fds1 = _nfds()
    for pid in pids:  # never leave anything behind, whatever the verdict
        try:
            os.kill(pid, signal.SIGKILL)
        except ProcessLookupError:
            pass
        try:
            os.waitpid(pid, os.WNOHANG)
        except ChildProcessError:
            pass
    shutil.rmtree(tmp, ignore_errors=True)
    viol: List[dict] = []

    def bad(cls, msg, **extra):
        viol.append({"sig": {"class": cls, "entry": "run_command", **extra}, "msg": f"cfg={cfg}: {msg}"})

    if len(pids) != len(behaviours):
        bad("host-did-not-launch", f"{len(pids)} children for {len(behaviours)} servers; info={info}")
    for pid, b in zip(pids, behaviours):
        if states[pid] is not None:
            bad("child-left-behind", f"child #{pids.index(pid)} ({b}) is in state {states[pid]!r} after run_command returned", behaviour=b,
                state="zombie" if states[pid] == "Z" else "running")
    allowed = 2.0 * len(behaviours) + SLACK + 1.0 * len(behaviours)
    if dur > allowed:
        bad("exit-too-slow", f"run_command took longer than {allowed}s")
    if fds1 > fds0:
        bad("fd-leak", f"{fds1 - fds0} more open file descriptors after run_command returned")
    return {"outcome": f"{outcome}/{info.get('connected')}", "violations": viol}


def add_real_part(res: core.Result, tier: str) -> None:
    if not os.path.isdir("/proc/self/fd"):
        res.assumptions.append("real-child part skipped: /proc not available")
        return
    if tier == "quick":
        cfgs = [{"behaviour": b, "exit": e, "moment": "in-flight"} for b in BEHAVIOURS for e in EXITS]
        cfgs += [{"behaviour": b, "exit": "normal", "moment": m} for b in BEHAVIOURS for m in ("before-first", "after-response")]
    else:
        cfgs = [{"behaviour": b, "exit": e, "moment": m} for b in BEHAVIOURS for e in EXITS for m in MOMENTS]
    out = explorer.explore(RUN, cfgs, workers=8)
    sched.absorb(res, "real-children", RUN, out, cfgs, real_world=True)
    # the multi-server runner: 1-2 servers x what the command does
    hcfgs = [{"servers": [b], "cmd": c} for b in HOST_BEHAVIOURS for c in ("returns", "raises", "chat-true", "keyboard-interrupt")]
    pairs = [["well", "ignore-term"], ["ignore-term", "well"], ["ignore-term", "ignore-term"], ["well", "well"]]
    if tier == "thorough":
        pairs = [[a, b] for a in HOST_BEHAVIOURS for b in HOST_BEHAVIOURS]
        hcfgs += [{"servers": ["ignore-term", "well", "ignore-term"], "cmd": "returns"}]
    hcfgs += [{"servers": p, "cmd": c} for p in pairs for c in ("returns", "raises")]
    out = explorer.explore(RUN_HOST, hcfgs, workers=8)
    sched.absorb(res, "real-children-through-run_command", RUN_HOST, out, hcfgs, real_world=True, min_outcomes=1)
    res.assumptions.append(
        "real-child part: wall-clock bound uses 3 s slack; zombie detection relies on /proc (Linux); "
        "the kernel chooses the interleaving, every matrix cell is run once per check"
    )
