"""C09 - the Pydantic and the fallback validation backend agree on spec-valid traffic.

Engine: E-INPUT with configuration workers.  The backend is chosen when
``chuk_mcp.protocol.mcp_pydantic_base`` is imported (``MCP_FORCE_FALLBACK=1``
selects the pure-Python one), so the two backends live in separate long-lived
interpreters that are fed the same cases; the parent compares their answers.

A generated case is *spec-valid* when the Pydantic worker accepts it.  For those
the fallback worker must accept too, resolve every nested object to the same
class, classify a JSON-RPC message as the same kind, and dump
(``by_alias=True, exclude_none=True``) to the same JSON value, ids keeping their
JSON type.  Inputs violating a documented invariant (root URIs are file://, at
most 100 completion values) are judged only for "both or neither".
"""
from __future__ import annotations

import json
import re
from typing import Any, Callable, Dict, List, Optional, Tuple

from .. import core, gen, orderdep, probes, wiregen, workers
from ..jsonrpc_ref import classify
from ..workers import dec, enc

HANDLER = "vf.modelops:child_handle"
CONFIGS = [
    {"name": "pydantic", "env_unset": ["MCP_FORCE_FALLBACK"]},
    {"name": "fallback", "env_set": {"MCP_FORCE_FALLBACK": "1"}},
]
# the same two backends with the optional fast JSON codec masked: the fallback's JSON path goes through fast_json
STDLIB_CONFIGS = [
    {"name": "pydantic+stdlib", "env_unset": ["MCP_FORCE_FALLBACK"], "mask": ["orjson"]},
    {"name": "fallback+stdlib", "env_set": {"MCP_FORCE_FALLBACK": "1"}, "mask": ["orjson"]},
]
AUDIT_MOD = 7
MAX_STORED_PER_SIG = 4
from ..modelops import UNION_IDS as modelops_ids, UNION_VIAS as modelops_vias  # noqa: E402
UNKNOWN_NAME_SET = {n for _, n in wiregen.UNKNOWN_NAMES} | set(wiregen.RESERVED_NAMES)

ROOT = "chuk_mcp.protocol.messages.roots.send_messages:Root"
COMPLETION = "chuk_mcp.protocol.messages.completions.send_messages:CompletionResult"
# the invariants the property statement names: class -> (name, predicate "wire object satisfies it")
INVARIANTS: Dict[str, Tuple[str, Callable[[Dict[str, Any]], bool]]] = {
    ROOT: ("file-uri", lambda w: not isinstance(w.get("uri"), str) or w["uri"].startswith("file://")),
    COMPLETION: ("max-100-values", lambda w: not isinstance(w.get("values"), list) or len(w["values"]) <= 100),
}
ROOT_URIS = ["file:///r", "file:///", "file://host/share/x", "file:///r/%C3%A9", "FILE:///x", "http://h/p", "https://h/p",
             "ftp://h/x", "/plain/path", "relative/p", "", "file:/x", "file//x", "s3://b/k", "mailto:a@b", " file:///x",
             "http://file://x"]
COMPLETION_SIZES = [0, 1, 99, 100, 101, 150]


# ---------------------------------------------------------------------------
# case enumeration
# ---------------------------------------------------------------------------
def model_cases(tier: str) -> Tuple[List[Dict[str, Any]], List[str], List[str]]:
    classes, problems = wiregen.discover()
    cases: List[Dict[str, Any]] = []
    gen_errors: List[str] = []
    for cls in classes:
        try:
            objs = wiregen.wire_objects(cls, depth=3 if tier == "thorough" else 2, pairs=(tier == "thorough"))
        except wiregen.GenError as e:
            gen_errors.append(str(e))
            continue
        for label, w in objs:
            cases.append({"part": "models", "target": wiregen.qual(cls), "label": label, "wire": w})
    return cases, [wiregen.qual(c) for c in classes], problems + gen_errors


def envelope_cases(tier: str) -> List[Dict[str, Any]]:
    small = gen.SCALARS_SMALL
    absent = object()
    params: List[Any] = [absent, {}, {"k": 1}, {"_meta": {"progressToken": "123"}, "x": [1, "\u00e9", None]},
                         {"a": {"b": [1.5, True, None]}}, {"name": "t", "arguments": {"n": 2 ** 63, "s": "123"}}]
    if tier == "thorough":
        params += [o for o in gen.json_objects(1, scalars=small, inner=small)][1:]
    results = list(gen.json_values(2 if tier == "thorough" else 1, small, small))
    results += [{"content": [{"type": "text", "text": "\u00e9"}], "_meta": {"a": 1}, "isError": False}]
    errors = [{"code": -32601, "message": "m"}, {"code": -32000, "message": "", "data": {"k": [1]}},
              {"code": 1, "message": "\u00e9", "data": "s"}, {"code": 0, "message": "x", "data": None},
              {"code": -32603, "message": "m", "x-extra": 1}]
    # integers outside [-2^63, 2^64-1]: legal JSON numbers which the fast codec refuses
    big = wiregen.BIG_INTS
    ids = list(gen.IDS) + big
    params += [{"n": list(big), "_meta": {"progressToken": big[0]}, "total": big[2]}]
    results += [{"total": big[0], "items": [{"n": big[1]}], "nextCursor": "c"}, big[2]]
    errors += [{"code": -32000, "message": "m", "data": {"n": list(big)}}]
    methods = ["ping", "tools/call", "notifications/message", "x/\u00e9"]
    out: List[Dict[str, Any]] = []

    def add(kind, label, w):
        out.append({"part": "envelopes", "target": "parse_message", "label": f"{kind}:{label}", "wire": w})

    for ii, i in enumerate(ids):
        for m in methods[:2]:
            for pi, p in enumerate(params):
                w = {"jsonrpc": "2.0", "id": i, "method": m}
                if p is not absent:
                    w["params"] = p
                add("request", f"id#{ii}/{m}/params#{pi}", w)
        for ri, r in enumerate(results):
            add("result", f"id#{ii}/result#{ri}", {"jsonrpc": "2.0", "id": i, "result": r})
        for ei, e in enumerate(errors):
            add("error", f"id#{ii}/error#{ei}", {"jsonrpc": "2.0", "id": i, "error": e})
    for m in methods:
        for pi, p in enumerate(params):
            w = {"jsonrpc": "2.0", "method": m}
            if p is not absent:
                w["params"] = p
            add("notification", f"{m}/params#{pi}", w)
    # unknown top-level members of every name class (the family of vf.wiregen) on one envelope of each kind
    bases = {"request": {"jsonrpc": "2.0", "id": "u-1", "method": "ping", "params": {"k": 1}},
             "notification": {"jsonrpc": "2.0", "method": "notifications/message", "params": {"k": 1}},
             "result": {"jsonrpc": "2.0", "id": 7, "result": {"k": 1}},
             "error": {"jsonrpc": "2.0", "id": 7, "error": {"code": -32601, "message": "m"}}}
    for kind, base in bases.items():
        for nk, name in wiregen.UNKNOWN_NAMES + [("reserved:" + n, n) for n in wiregen.RESERVED_NAMES]:
            out.append({"part": "envelopes", "target": "parse_message", "label": f"unknown:{nk}=scalar@<top>/{kind}",
                        "wire": {**base, name: 7}})
    # batches (a list is what parse_message takes for one)
    for ii, i in enumerate(ids):
        add("batch", f"requests/id#{ii}", [{"jsonrpc": "2.0", "id": i, "method": "ping"},
                                           {"jsonrpc": "2.0", "method": "notifications/message", "params": {"k": 1}}])
        add("batch", f"responses/id#{ii}", [{"jsonrpc": "2.0", "id": i, "result": {}},
                                            {"jsonrpc": "2.0", "id": i, "error": {"code": -32601, "message": "m"}}])
    return out


def invariant_cases() -> List[Dict[str, Any]]:
    out: List[Dict[str, Any]] = []
    list_roots = ROOT.replace(":Root", ":ListRootsResult")
    for ui, u in enumerate(ROOT_URIS):
        out.append({"part": "invariants", "target": ROOT, "label": f"uri#{ui}", "wire": {"uri": u}})
        out.append({"part": "invariants", "target": ROOT, "label": f"uri#{ui}+name", "wire": {"uri": u, "name": "n"}})
        out.append({"part": "invariants", "target": list_roots, "label": f"roots[uri#{ui}]",
                    "wire": {"roots": [{"uri": "file:///ok"}, {"uri": u, "name": "n"}]}})
    for n in COMPLETION_SIZES:
        vals = [f"v{i}" for i in range(n)]
        out.append({"part": "invariants", "target": COMPLETION, "label": f"values*{n}", "wire": {"values": vals}})
        out.append({"part": "invariants", "target": COMPLETION, "label": f"values*{n}+total+hasMore",
                    "wire": {"values": vals, "total": n + 5, "hasMore": True}})
    return out


def broken_invariants(case: Dict[str, Any]) -> List[Tuple[str, str]]:
    """[(model short name, invariant)] for the documented invariants this wire object violates."""
    if case["target"] == "parse_message":
        return []
    try:
        cls = wiregen.resolve(case["target"])
    except Exception:  # noqa: BLE001
        return []
    out = []
    for c, w in wiregen.nested_models(cls, case["wire"]):
        inv = INVARIANTS.get(wiregen.qual(c))
        if inv and isinstance(w, dict) and not inv[1](w):
            out.append((wiregen.short(c), inv[0]))
    return sorted(set(out))


# ---------------------------------------------------------------------------
# comparison of the two answers
# ---------------------------------------------------------------------------
_IDX = re.compile(r"\[\d+\]")


def norm_path(p: str) -> str:
    return _IDX.sub("[]", p)


def jtype(v: Any) -> str:
    if v is None:
        return "null"
    if isinstance(v, bool):
        return "bool"
    if isinstance(v, (int, float)):
        return "int" if isinstance(v, int) else "float"
    if isinstance(v, str):
        return "str"
    if isinstance(v, list):
        return "array"
    if isinstance(v, dict):
        return "object"
    return type(v).__name__


def json_diffs(a: Any, b: Any, path: str = "") -> List[Tuple[str, str]]:
    """[(path, how)] - differences between two JSON values (a: Pydantic, b: fallback);
    numbers compare by value except for members named id."""
    ta, tb = jtype(a), jtype(b)
    is_id = path == "id" or path.endswith(".id") or path.endswith("].id")
    if ta != tb:
        if {ta, tb} == {"int", "float"} and a == b and not is_id:
            return []
        return [(path, f"json-type {ta}->{tb}")]
    if ta == "object":
        out = []
        for k in a:
            p = f"{path}.{k}" if path else k
            if k not in b:
                out.append((p, "missing-in-fallback"))
            else:
                out.extend(json_diffs(a[k], b[k], p))
        for k in b:
            if k not in a:
                out.append((f"{path}.{k}" if path else k, "added-by-fallback"))
        return out
    if ta == "array":
        if len(a) != len(b):
            return [(path, "array-length")]
        out = []
        for i, (x, y) in enumerate(zip(a, b)):
            out.extend(json_diffs(x, y, f"{path}[{i}]"))
        return out
    return [] if a == b else [(path, "value")]


def envelope_shape(w: Any) -> Dict[str, str]:
    if isinstance(w, list):
        return {"envelope": "batch"}
    kind, _ = classify(w)
    payload = w.get("params", w.get("result", w.get("error"))) if kind != "result" else w.get("result")
    if kind == "error":
        payload = w.get("error")
    if kind in ("request", "notification"):
        payload = w.get("params") if "params" in w else "<absent>"
    return {"envelope": str(kind), "payload": payload if payload == "<absent>" else jtype(payload)}


def compare(case: Dict[str, Any], ap: Dict[str, Any], af: Dict[str, Any]) -> Dict[str, Any]:
    """-> {"status": str, "violations": [(sig, msg)], "unjudged": [(sig, msg)]}"""
    target = case["target"]
    model = "parse_message" if target == "parse_message" else wiregen.short(target)
    wire_txt = json.dumps(case["wire"], ensure_ascii=True)
    if len(wire_txt) > 300:
        wire_txt = wire_txt[:300] + "..."
    head = f"{model} <- {wire_txt}"
    viol: List[Tuple[dict, str]] = []
    extra = envelope_shape(case["wire"]) if target == "parse_message" else {}
    label = str(case.get("label") or "")
    whole = dict(extra)             # for failures of the whole object: name class of the unknown member it carries
    if label.startswith("unknown:"):
        whole["unknown_member"] = label[len("unknown:"):].split("=", 1)[0]

    broken = broken_invariants(case)
    if broken:
        if ap["ok"] != af["ok"]:
            acc = "pydantic" if ap["ok"] else "fallback"
            rej = af if ap["ok"] else ap
            for (m, inv) in broken:
                viol.append(({"class": "invariant-disagreement", "model": m.rsplit(".", 1)[-1], "invariant": inv,
                              "accepted_by": acc},
                             f"{head}: violates the documented invariant {inv} of {m}; accepted by {acc} only "
                             f"(the other raised {rej.get('exc')}: {rej.get('detail')})"))
            return {"status": "invariant-disagreement", "violations": viol}
        return {"status": "invariant-both-accept" if ap["ok"] else "invariant-both-reject", "violations": []}

    if not ap["ok"]:
        return {"status": "not-spec-valid:" + ("both-reject" if not af["ok"] else "fallback-accepts"), "violations": []}
    if not af["ok"]:
        viol.append(({"class": "rejected-by-fallback", "model": model, "field": af.get("field"),
                      "exception": af.get("exc"), **whole},
                     f"{head}: accepted by Pydantic, fallback raised {af.get('exc')}: {af.get('detail')}"))
        return {"status": "rejected-by-fallback", "violations": viol}
    for side, a in (("pydantic", ap), ("fallback", af)):
        if "dump_exc" in a:
            viol.append(({"class": "dump-raised", "model": model, "backend": side, "exception": a["dump_exc"].get("exc"), **whole},
                         f"{head}: model_dump(by_alias=True, exclude_none=True) raised under {side}: {a['dump_exc']}"))
    if viol:
        return {"status": "dump-raised", "violations": viol}

    if target == "parse_message" and ap.get("kind") != af.get("kind"):
        viol.append(({"class": "kind-differs", "pydantic": ap.get("kind"), "fallback": af.get("kind"), **extra},
                     f"{head}: classified as {ap.get('kind')} by Pydantic and {af.get('kind')} by the fallback"))
    # class of every nested object
    tp, tf = ap["types"], af["types"]
    differing: List[str] = []
    for p in sorted(set(tp) | set(tf), key=lambda s: (s.count(".") + s.count("["), s)):
        if any(p == d or p.startswith(d + ".") or p.startswith(d + "[") for d in differing):
            continue                                   # below a node that already differs
        a, b = tp.get(p, "<scalar-or-absent>"), tf.get(p, "<scalar-or-absent>")
        if a != b:
            differing.append(p)
            viol.append(({"class": "variant-differs", "model": model, "field": norm_path(p) or "<top>",
                          "pydantic": a, "fallback": b, **extra},
                         f"{head}: at '{p or '<top>'}' Pydantic built {a}, the fallback {b}"))
    dp, df = dec(ap["dump"]), dec(af["dump"])
    for (p, how) in json_diffs(dp, df):
        if any(p == d or p.startswith(d + ".") or p.startswith(d + "[") for d in differing):
            continue
        np_ = norm_path(p)
        if (np_ == "id" or np_ == "[].id") and how.startswith("json-type"):
            sig = {"class": "id-type-changed", "backend": "fallback", "change": how.split(" ", 1)[1], "model": model}
        else:
            sig = {"class": "dump-differs", "model": model, "field": np_, "how": how, **extra}
            if np_.rpartition(".")[2] in UNKNOWN_NAME_SET or np_ in UNKNOWN_NAME_SET:
                sig["unknown_member"] = wiregen.name_kind(np_.rpartition(".")[2])
        viol.append((sig, f"{head}: dumps differ at '{p}' ({how}): Pydantic {json.dumps(_at(dp, p), ensure_ascii=True)[:120]} "
                          f"fallback {json.dumps(_at(df, p), ensure_ascii=True)[:120]}"))
    # the JSON path: json.loads(model_dump_json(**kw)) must agree across the backends and with model_dump(**kw)
    seen_dump = {(norm_path(p), how) for (p, how) in json_diffs(dp, df)}
    jp_, jf_ = ap.get("json") or {}, af.get("json") or {}
    for variant in jp_:
        a, b = jp_[variant], jf_.get(variant)
        if b is None:
            continue
        for side, r in (("pydantic", a), ("fallback", b)):
            if "exc" in r:
                viol.append(({"class": "json-dump-raised", "model": model, "backend": side, "variant": variant,
                              "exception": r["exc"].get("exc"), **whole},
                             f"{head}: model_dump_json({variant}) raised under {side}: {r['exc']}"))
            elif r.get("vs_dump") or "vs_dump_exc" in r:
                viol.append(({"class": "json-differs-from-dump", "model": model, "backend": side, "variant": variant,
                              "field": norm_path(str(r.get("vs_dump") or "<model_dump raised>")), **extra,
                              **_unknown_of(norm_path(str(r.get("vs_dump") or "")))},
                             f"{head}: under {side} json.loads(model_dump_json({variant})) differs from model_dump({variant}) "
                             f"at '{r.get('vs_dump')}': JSON form {json.dumps(dec(r['value']), ensure_ascii=True)[:200]}"))
        if "value" in a and "value" in b:
            va, vb = dec(a["value"]), dec(b["value"])
            for (p, how) in json_diffs(va, vb):
                if any(p == d or p.startswith(d + ".") or p.startswith(d + "[") for d in differing):
                    continue
                if (norm_path(p), how) in seen_dump:
                    continue                              # the same difference already shows in model_dump
                seen_dump.add((norm_path(p), how))
                viol.append(({"class": "json-dump-differs", "model": model, "variant": variant, "field": norm_path(p),
                              "how": how, **extra, **_unknown_of(norm_path(p))},
                             f"{head}: json.loads(model_dump_json({variant})) differs at '{p}' ({how}): Pydantic "
                             f"{json.dumps(_at(va, p), ensure_ascii=True)[:120]} fallback {json.dumps(_at(vb, p), ensure_ascii=True)[:120]}"))
    return {"status": "agree" if not viol else "disagree", "violations": viol}


def _unknown_of(np_: str) -> Dict[str, str]:
    for part in reversed(np_.split(".")):
        part = part.replace("[]", "")
        if part in UNKNOWN_NAME_SET:
            return {"unknown_member": wiregen.name_kind(part)}
    return {}


def _at(v: Any, path: str) -> Any:
    try:
        for tok in re.findall(r"\[\d+\]|[^.\[\]]+", path):
            v = v[int(tok[1:-1])] if tok.startswith("[") else v[tok]
        return v
    except Exception:  # noqa: BLE001
        return "<absent>"



# ---------------------------------------------------------------------------
# input mutated after validation (shared with C10)
# ---------------------------------------------------------------------------
JSONRPC_UNIFIED = "chuk_mcp.protocol.messages.json_rpc_message:JSONRPCMessage"


def inputmut_cases(tier: str, mcases: List[Dict[str, Any]]) -> List[Dict[str, Any]]:
    """The wire objects whose containers are edited after validation: every generated model object without the
    unknown-member family (plus its object-valued members at the top level), and JSON-RPC envelopes through parse_message."""
    out = [c for c in mcases if not c["label"].startswith("unknown:") or "=object-with-null@<top>" in c["label"]]
    env = [c for c in envelope_cases(tier) if c["label"].startswith(("request:id#0/", "request:id#9/", "result:id#0/", "result:id#9/",
                                                                      "error:id#0/", "notification:"))]
    return out + [dict(c, part="inputmut-envelopes") for c in env]


def libedit_cases() -> List[Dict[str, Any]]:
    from .. import modelops

    return [{"op": "libedit", "scenario": si, "params": pi} for si in range(len(modelops.LIBEDIT_SCENARIOS))
            for pi in range(len(modelops.LIBEDIT_PARAMS))]


def position_kind_of(case: Dict[str, Any], path_list: List[Any]) -> str:
    q = JSONRPC_UNIFIED if case["target"] == "parse_message" else case["target"]
    try:
        return wiregen.position_kind(wiregen.resolve(q), case["wire"], tuple(path_list))
    except Exception:  # noqa: BLE001
        return "free"


def start_inputmut(handler: str, cases: List[Dict[str, Any]]):
    """run_inputmut in a background thread (its worker processes overlap with the main part); -> join() giving the result."""
    import threading

    box: Dict[str, Any] = {}

    def bg():
        try:
            box["im"] = run_inputmut(handler, cases)
        except BaseException as e:  # noqa: BLE001
            box["err"] = e

    th = threading.Thread(target=bg)
    th.start()

    def join():
        th.join()
        if "err" in box:
            raise core.HarnessError(f"input-mutation part failed: {box['err']}")
        return box["im"]

    return join


def run_inputmut(handler: str, cases: List[Dict[str, Any]]) -> Dict[str, Any]:
    """Puts the input-mutation and library-edit cases to fresh pools of both backends; returns wire cases, answers, audits."""
    from .. import orderdep as _od

    wc = [{"op": "inputmut", "target": c["target"], "wire": enc(c["wire"])} for c in cases]
    lc = libedit_cases()
    n_each = max(1, workers.per_config_workers(len(CONFIGS)) // 2)

    def go(cfg):
        with workers.Pool(cfg, handler, n_each) as pool:
            a = pool.map(wc)
            b = pool.map(lc, batch=2)
        return a, b, workers.audit(cfg, handler, wc + lc, a + b, 13, cap=5000)

    got = _od.per_config(CONFIGS, go)
    return {"wire": wc, "lib": lc, "answers": {n: got[n][0] for n in got}, "lib_answers": {n: got[n][1] for n in got},
            "audits": {n: got[n][2] for n in got}}


# ---------------------------------------------------------------------------
def wire_case(c: Dict[str, Any]) -> Dict[str, Any]:
    return {"op": "validate", "target": c["target"], "wire": enc(c["wire"])}


def start_pools(n_each: int) -> Dict[str, workers.Pool]:
    pools: Dict[str, workers.Pool] = {}
    try:
        for cfg in CONFIGS:
            pools[cfg["name"]] = workers.Pool(cfg, HANDLER, n_each)
        check_configs({n: p.hello for n, p in pools.items()})
    except BaseException:
        for p in pools.values():
            p.close()
        raise
    return pools


def check_configs(hello: Dict[str, Dict[str, Any]]) -> None:
    if hello["pydantic"].get("PYDANTIC_AVAILABLE") is not True:
        raise core.HarnessError(f"the pydantic worker does not run Pydantic: {hello['pydantic']}")
    if hello["fallback"].get("PYDANTIC_AVAILABLE") is not False:
        raise core.HarnessError(f"the fallback worker does not run the fallback: {hello['fallback']}")
    for n in ("pydantic", "fallback"):
        if hello[n].get("HAS_ORJSON") is not True:
            raise core.HarnessError(f"orjson is not importable in the {n} worker: the orjson-present configurations cannot be compared")


def run(tier: str, only=None) -> core.Result:
    res = core.Result("C09", "exploration")
    mcases, class_list, gen_problems = model_cases(tier)
    for g in gen_problems:
        res.harness_errors.append(f"generator: {g}")
    cases = mcases + envelope_cases(tier) + invariant_cases()
    if only:
        cases = [c for c in cases if c["part"] in only]
    for q in INVARIANTS:
        if q not in class_list:
            res.harness_errors.append(f"documented-invariant class {q} was not discovered")

    wcases = [wire_case(c) for c in cases]
    im_cases = inputmut_cases(tier, mcases) if (not only or "models" in only) else []
    im_join = start_inputmut(HANDLER, im_cases) if im_cases else None
    pr_groups: Dict[str, List[Any]] = {}
    pr_meta: Dict[str, List[Dict[str, Any]]] = {}
    pr_join = None
    if not only or "models" in only:
        pr_meta = {"methods": probes.methods_cases(mcases), "eq": probes.eq_cases(mcases), "helper": probes.helper_cases(),
                   "shared": probes.shared_cases(mcases)}
        pr_groups = {"methods": [{"op": "methods", "target": c["target"], "wire": enc(c["wire"])} for c in pr_meta["methods"]],
                     "eq": [{"op": "eqprobe", "target": c["target"], "a": enc(c["a"]), "b": enc(c["b"])} for c in pr_meta["eq"]],
                     "helper": [{"op": "helper", "helper": c["helper"], "seq": c["seq"]} for c in pr_meta["helper"]],
                     "shared": [{"op": "shared", "target": c["target"], "wire": enc(c["wire"])} for c in pr_meta["shared"]]}
        pr_join = probes.start(HANDLER, CONFIGS, pr_groups, n_each=3)
        # id sequences are forked from workers of their own that never validate anything themselves
        cc_meta = probes.crossclass_cases(mcases)
        ct_meta = probes.constructed_cases(mcases)
        cc_join = probes.start(HANDLER, CONFIGS, {"seqfork": [{"op": "seqfork", "cases": c["cases"]} for c in cc_meta]}, n_each=2)
        ct_join = probes.start(HANDLER, CONFIGS, {"constructed": [{"op": "constructed", "target": c["target"], "wire": enc(c["wire"])}
                                                                  for c in ct_meta]}, n_each=1)
        us_meta = probes.unionseq_cases()
        us_join = probes.start(HANDLER, CONFIGS, {"unionseq": [{"op": "unionseq", "calls": c["calls"]} for c in us_meta]}, n_each=2)
    extra_box: Dict[str, Any] = {}

    def run_extra():
        from .. import orderdep as _od

        def go(cfg):
            with workers.Pool(cfg, HANDLER, max(1, workers.per_config_workers(4))) as pool:
                a = pool.map(wcases)
                h = pool.hello
            return h, a, workers.audit(cfg, HANDLER, wcases, a, AUDIT_MOD * 3, cap=5000)

        try:
            extra_box["got"] = _od.per_config(STDLIB_CONFIGS, go)
        except BaseException as e:  # noqa: BLE001
            extra_box["err"] = e

    import threading as _th

    extra_thread = _th.Thread(target=run_extra)
    extra_thread.start()
    pools = start_pools(workers.per_config_workers(len(CONFIGS)))
    try:
        hello = {n: p.hello for n, p in pools.items()}
        import threading

        answers: Dict[str, List[Any]] = {}
        errs: List[BaseException] = []

        def ask(n):
            try:
                answers[n] = pools[n].map(wcases)
            except BaseException as e:  # noqa: BLE001
                errs.append(e)

        ts = [threading.Thread(target=ask, args=(n,)) for n in pools]
        for t in ts:
            t.start()
        for t in ts:
            t.join()
        if errs:
            raise core.HarnessError(f"worker failure: {errs[0]}")
    finally:
        for p in pools.values():
            p.close()
    pools_history = {n: p.history_before for n, p in pools.items()}

    for n in hello:
        if hello[n]["classes"] != class_list:
            res.harness_errors.append(
                f"the {n} worker discovered a different set of model classes than the parent: "
                f"{sorted(set(hello[n]['classes']) ^ set(class_list))[:6]}")
        for pr in hello[n]["import_problems"]:
            res.harness_errors.append(f"{n} worker: module failed to import: {pr}")

    status_count: Dict[str, int] = {}
    sig_count: Dict[str, int] = {}
    unjudged: Dict[str, int] = {}
    unjudged_examples: Dict[str, str] = {}
    per_class: Dict[str, Dict[str, int]] = {}
    part_count: Dict[str, int] = {}
    reject_reasons: Dict[str, int] = {}
    spec_valid_distinct = set()
    primary_sigs: List[set] = []
    for c, ap, af in zip(cases, answers["pydantic"], answers["fallback"]):
        for a in (ap, af):
            if "harness_exc" in a:
                res.harness_errors.append(f"worker exception on {c['target']} {c['label']}: {a['harness_exc'][-400:]}")
        if res.harness_errors and any("worker exception" in h for h in res.harness_errors[-2:]):
            primary_sigs.append(set())
            continue
        part_count[c["part"]] = part_count.get(c["part"], 0) + 1
        out = compare(c, ap, af)
        status_count[out["status"]] = status_count.get(out["status"], 0) + 1
        pc = per_class.setdefault(wiregen.short(c["target"]) if c["target"] != "parse_message" else "parse_message",
                                  {"cases": 0, "spec_valid": 0, "accepted_by_fallback": 0})
        pc["cases"] += 1
        spec_valid = ap["ok"] and not broken_invariants(c)
        if spec_valid:
            pc["spec_valid"] += 1
            spec_valid_distinct.add(workers.canon([c["target"], c["wire"]]))
        elif not ap["ok"]:
            k = f"{ap.get('exc')}"
            reject_reasons[k] = reject_reasons.get(k, 0) + 1
        if af["ok"]:
            pc["accepted_by_fallback"] += 1
        config_cls = c["target"] != "parse_message" and wiregen.is_config_class(wiregen.resolve(c["target"]))
        seen_here = set()
        primary_sigs.append(seen_here)
        for sig, msg in out["violations"]:
            k = json.dumps(sig, sort_keys=True)
            if k in seen_here:
                continue
            seen_here.add(k)
            if config_cls:
                unjudged[k] = unjudged.get(k, 0) + 1
                unjudged_examples.setdefault(k, msg[:400])
                continue
            sig_count[k] = sig_count.get(k, 0) + 1
            if sig_count[k] <= MAX_STORED_PER_SIG:
                res.add_violation(sig, msg, {"ref": "vf.checks.c09:replay_case",
                                             "args": {"target": c["target"], "part": c["part"], "label": c["label"],
                                                      "wire": enc(c["wire"])}})
            else:
                res.violation_total += 1

    # every discovered class must have been driven with at least one spec-valid object
    undriven = []
    for q in class_list:
        pc = per_class.get(wiregen.short(q))
        if (not only or "models" in only) and (pc is None or pc["spec_valid"] == 0):
            undriven.append(q)
            res.harness_errors.append(f"no generated wire object of {q} is accepted by the Pydantic backend: the class is not driven")

    # aliased members of models held inside lists must be populated by the generator (by-alias dumps of nested lists)
    nested_alias: Dict[str, Any] = {}
    if not only or "models" in only:
        expected = wiregen.list_nested_alias_sites([wiregen.resolve(q) for q in class_list])
        hits: Dict[Tuple[str, str, str, str], int] = {}
        for c, ap in zip(cases, answers["pydantic"]):
            if c["part"] == "models" and ap["ok"]:
                for h in wiregen.list_nested_alias_hits(wiregen.resolve(c["target"]), c["wire"]):
                    hits[h] = hits.get(h, 0) + 1
        for e in expected:
            nested_alias["/".join(e)] = hits.get(e, 0)
            if not hits.get(e):
                res.harness_errors.append(f"the generator never populated the aliased member {e[3]} of {e[2]} inside the list {e[0]}.{e[1]}")

    audit_extra = {"reasked": 0}

    def store(sig, msg, replay_args):
        k = json.dumps(sig, sort_keys=True)
        sig_count[k] = sig_count.get(k, 0) + 1
        if sig_count[k] <= MAX_STORED_PER_SIG:
            res.add_violation(sig, msg, {"ref": "vf.checks.c09:replay_case", "args": replay_args})
        else:
            res.violation_total += 1

    # order of validation made explicit: every ordered pair of same-named classes, each in fresh workers
    pair_info: Dict[str, Any] = {"groups": {}, "ordered_pairs": 0, "cases_after_a_namesake": 0, "new_disagreements": 0}
    if not only or "models" in only:
        groups = orderdep.same_name_groups(class_list)
        by_class: Dict[str, List[Dict[str, Any]]] = {}
        for c in mcases:
            by_class.setdefault(c["target"], []).append(c)
        members = sorted({q for v in groups.values() for q in v})
        pr = orderdep.run_pairs(CONFIGS, HANDLER, {q: [wire_case(c) for c in by_class[q]] for q in members}, groups)
        pair_info["groups"] = {k: [wiregen.short(q) for q in v] for k, v in groups.items()}
        pair_info["ordered_pairs"] = len(pr["pairs"])
        for (qa, qb) in pr["pairs"]:
            for which, q in ((0, qa), (1, qb)):
                if which == 0:
                    continue                      # the class validated first in a fresh worker is the 'alone' run
                for ci, c in enumerate(by_class[q]):
                    pair_info["cases_after_a_namesake"] += 1
                    seq = compare(c, pr["pydantic"]["seq"][(qa, qb)][which][ci], pr["fallback"]["seq"][(qa, qb)][which][ci])
                    alone = compare(c, pr["pydantic"]["alone"][q][ci], pr["fallback"]["alone"][q][ci])
                    alone_sigs = {json.dumps(sg, sort_keys=True) for sg, _ in alone["violations"]}
                    for sig, msg in seq["violations"]:
                        if json.dumps(sig, sort_keys=True) in alone_sigs:
                            continue
                        pair_info["new_disagreements"] += 1
                        sig = {**sig, "after": wiregen.short(qa)}
                        store(sig, f"in a fresh process that first validated {len(by_class[qa])} objects of "
                                   f"{wiregen.short(qa)}: {msg}",
                              {"target": c["target"], "part": "pair-order", "label": c["label"], "wire": enc(c["wire"]),
                               "history": [{"target": h["target"], "wire": enc(h["wire"])} for h in by_class[qa]]})

    # the two backends with the fast JSON codec masked: the Pydantic worker must answer exactly as with orjson present, the
    # fallback worker is compared with the (orjson-present) Pydantic reference like the primary fallback worker
    extra_thread.join()
    codec_info: Dict[str, Any] = {"configurations": {}, "cases_per_configuration": len(cases), "new_disagreements": 0}
    if "err" in extra_box:
        res.harness_errors.append(f"stdlib-codec workers failed: {extra_box['err']}")
    else:
        for n_, (h_, a_, au_) in extra_box["got"].items():
            codec_info["configurations"][n_] = {k_: h_.get(k_) for k_ in ("PYDANTIC_AVAILABLE", "HAS_ORJSON")}
            if h_.get("HAS_ORJSON") is not False or h_.get("PYDANTIC_AVAILABLE") is not (n_ == "pydantic+stdlib"):
                res.harness_errors.append(f"configuration {n_} did not take effect: {codec_info['configurations'][n_]}")
            audit_extra["reasked"] += au_["reasked"]
            if au_["mismatches"]:
                res.harness_errors.append(f"nondeterministic answer of the {n_} worker (case #{au_['first_mismatch_index']})")
        if not res.harness_errors:
            ps, fs = extra_box["got"]["pydantic+stdlib"][1], extra_box["got"]["fallback+stdlib"][1]
            for i, c in enumerate(cases):
                if c["target"] != "parse_message" and wiregen.is_config_class(wiregen.resolve(c["target"])):
                    continue
                model = "parse_message" if c["target"] == "parse_message" else wiregen.short(c["target"])
                ap = answers["pydantic"][i]
                if "harness_exc" in ps[i] or "harness_exc" in fs[i] or "harness_exc" in ap:
                    res.harness_errors.append(f"worker exception (stdlib codec) on {c['target']} {c['label']}")
                    continue
                if workers.line(ps[i]) != workers.line(ap):
                    codec_info["new_disagreements"] += 1
                    store({"class": "codec-changes-the-answer", "config": "pydantic+stdlib", "model": model},
                          f"{model} <- {json.dumps(c['wire'], ensure_ascii=True)[:240]}: the Pydantic worker answers differently with "
                          f"orjson masked: {orderdep.first_difference(ap, ps[i])}",
                          {"target": c["target"], "part": c["part"], "label": c["label"], "wire": enc(c["wire"]), "config": "pydantic+stdlib"})
                for sig, msg in compare(c, ap, fs[i])["violations"]:
                    if json.dumps(sig, sort_keys=True) in primary_sigs[i]:
                        continue
                    codec_info["new_disagreements"] += 1
                    store({**sig, "config": "fallback+stdlib"}, "with orjson masked in the fallback worker: " + msg,
                          {"target": c["target"], "part": c["part"], "label": c["label"], "wire": enc(c["wire"]), "config": "fallback+stdlib"})

    # object-level probes: equality, reading does not change, stateful helpers (relational)
    pr_info: Dict[str, Any] = {"equality_pairs": 0, "method_probe_objects": 0, "methods_called": 0, "helper_sequences": 0,
                               "helpers_discovered": [], "disagreements": 0}
    pr_audit = {"reasked": 0}
    if pr_join is not None:
        try:
            pr_ans, pr_audits, pr_hello = pr_join()
        except RuntimeError as e:
            res.harness_errors.append(str(e))
            pr_ans = None
        if pr_ans is not None:
            for n_, g_, a_ in pr_audits:
                pr_audit["reasked"] += a_["reasked"]
                if a_["mismatches"]:
                    res.harness_errors.append(f"nondeterministic {g_} probe answer of the {n_} worker (case #{a_['first_mismatch_index']})")
            helpers = pr_hello["pydantic"].get("helpers", [])
            pr_info["helpers_discovered"] = helpers
            if pr_hello["fallback"].get("helpers") != helpers:
                res.harness_errors.append(f"the backends discover different stateful helpers: {helpers} vs {pr_hello['fallback'].get('helpers')}")
            for h_ in helpers:
                if h_ not in pr_hello["pydantic"].get("drivers", []):
                    res.harness_errors.append(f"discovered stateful helper without a driver: {h_}")
            for i, c in enumerate(pr_meta["eq"]):
                ap, af = pr_ans["eq"]["pydantic"][i], pr_ans["eq"]["fallback"][i]
                if not (ap.get("ok") and af.get("ok")) or wiregen.is_config_class(wiregen.resolve(c["target"])):
                    continue
                pr_info["equality_pairs"] += 1
                for key_ in ("eq", "ne", "contains", "index", "hash_equal", "set_size", "eq_self"):
                    if ap.get(key_) != af.get(key_):
                        pr_info["disagreements"] += 1
                        store({"class": "equality-differs", "model": wiregen.short(c["target"]), "pair": c["pair"], "what": key_,
                               "pydantic": str(ap.get(key_)), "fallback": str(af.get(key_))},
                              f"{wiregen.short(c['target'])}: a <- {json.dumps(c['a'], ensure_ascii=True)[:160]}, b <- "
                              f"{json.dumps(c['b'], ensure_ascii=True)[:160]} ({c['pair']}{' ' + c.get('member', '') if c.get('member') else ''}): "
                              f"'{key_}' is {ap.get(key_)} under Pydantic and {af.get(key_)} under the fallback",
                              {"part": "probe", "probe": "eq", "case": {"op": "eqprobe", "target": c["target"], "a": enc(c["a"]), "b": enc(c["b"])}})
                        break
            for i, c in enumerate(pr_meta["methods"]):
                ap, af = pr_ans["methods"]["pydantic"][i], pr_ans["methods"]["fallback"][i]
                if not (ap.get("ok") and af.get("ok")):
                    continue
                if c["target"] != "parse_message" and wiregen.is_config_class(wiregen.resolve(c["target"])):
                    continue
                pr_info["method_probe_objects"] += 1
                pr_info["methods_called"] += len(ap.get("called", [])) + len(af.get("called", []))
                if bool(ap.get("changed")) != bool(af.get("changed")):
                    side = "fallback" if af.get("changed") else "pydantic"
                    ch = af.get("changed") or ap.get("changed")
                    who = (af if af.get("changed") else ap).get("culprit")
                    model = "parse_message" if c["target"] == "parse_message" else wiregen.short(c["target"])
                    pr_info["disagreements"] += 1
                    store({"class": "reading-the-object-changes-its-dump", "backend": side, "model": model, "call": who},
                          f"{model} <- {json.dumps(c['wire'], ensure_ascii=True)[:200]}: after calling the public zero-argument methods / "
                          f"properties of the object its dump differs at '{ch['path']}' ({ch['via']}) under {side} only; first call that "
                          f"does it: {who}",
                          {"part": "probe", "probe": "methods", "case": {"op": "methods", "target": c["target"], "wire": enc(c["wire"])}})
            pr_info["shared_instance_objects"] = 0
            for i, c in enumerate(pr_meta["shared"]):
                ap, af = pr_ans["shared"]["pydantic"][i], pr_ans["shared"]["fallback"][i]
                if not (ap.get("ok") and af.get("ok")) or wiregen.is_config_class(wiregen.resolve(c["target"])):
                    continue
                pr_info["shared_instance_objects"] += 1
                if workers.line(ap.get("problem")) != workers.line(af.get("problem")):
                    side = "fallback" if af.get("problem") else "pydantic"
                    pb = af.get("problem") or ap.get("problem")
                    pr_info["disagreements"] += 1
                    store({"class": "shared-instance-dump-differs", "backend": side, "model": wiregen.short(c["target"]),
                           "how": pb.get("kind"), "exception": pb.get("exc")},
                          f"{wiregen.short(c['target'])} <- {json.dumps(c['wire'], ensure_ascii=True)[:200]}: with one model instance at two "
                          f"positions of the (non-cyclic) object, {pb.get('via')} under {side}: {pb}",
                          {"part": "probe", "probe": "shared", "case": {"op": "shared", "target": c["target"], "wire": enc(c["wire"])}})
            # validation order across different classes; objects built with defaults left unset
            try:
                cc_ans, cc_aud, _ = cc_join()
                ct_ans, ct_aud, _ = ct_join()
            except RuntimeError as e:
                res.harness_errors.append(str(e))
                cc_ans = None
            if cc_ans is not None:
                for n_, g_, a_ in cc_aud + ct_aud:
                    pr_audit["reasked"] += a_["reasked"]
                    if a_["mismatches"]:
                        res.harness_errors.append(f"nondeterministic {g_} answer of the {n_} worker")
                pr_info["cross_class_sequences"] = 0
                for n_ in cc_ans["seqfork"]:
                    ref_of: Dict[str, Any] = {}
                    for c, a in zip(cc_meta, cc_ans["seqfork"][n_]):
                        if c["reference"]:
                            ref_of[workers.line(c["cases"][0])] = a[0]
                    for c, a in zip(cc_meta, cc_ans["seqfork"][n_]):
                        if c["reference"]:
                            continue
                        pr_info["cross_class_sequences"] += 1
                        want, got = ref_of.get(workers.line(c["cases"][1])), a[-1]
                        if want is not None and workers.line(want) != workers.line(got):
                            ym = c["y"] if c["y"] == "parse_message" else wiregen.short(c["y"])
                            xm = c["x"] if c["x"].startswith("parse_message") else wiregen.short(c["x"])
                            pr_info["disagreements"] += 1
                            store({"class": "order-dependent-behaviour", "backend": n_, "model": ym, "after_class": xm, "member": c["member"]},
                                  f"under {n_}: {ym} <- {json.dumps(dec(c['cases'][1]['wire']), ensure_ascii=True)[:160]} answers differently "
                                  f"after an object of {xm} carrying the unknown member '{c['member']}' was validated in the same process: "
                                  f"{orderdep.first_difference(want, got)}",
                                  {"part": "probe", "probe": "seqfork", "case": {"op": "seqfork", "cases": c["cases"]},
                                   "reference": {"op": "seqfork", "cases": [c["cases"][1]]}, "backend": n_})
                pr_info["constructed_objects"] = 0
                for i, c in enumerate(ct_meta):
                    ap, af = ct_ans["constructed"]["pydantic"][i], ct_ans["constructed"]["fallback"][i]
                    if not (ap.get("ok") and af.get("ok")) or wiregen.is_config_class(wiregen.resolve(c["target"])):
                        continue
                    pr_info["constructed_objects"] += 1
                    for call in ap["calls"]:
                        a_, b_ = ap["calls"][call], af["calls"].get(call)
                        if b_ is None:
                            continue
                        same = ("exc" in a_) == ("exc" in b_) and ("exc" in a_ or not json_diffs(dec(a_["value"]), dec(b_["value"])))
                        if not same:
                            pr_info["disagreements"] += 1
                            store({"class": "default-argument-serialisation-differs", "model": wiregen.short(c["target"]),
                                   "call": call.replace(wiregen.short(c["target"]), "x")},
                                  f"{wiregen.short(c['target'])}(**{json.dumps(c['wire'], ensure_ascii=True)[:160]}) built with the other "
                                  f"members left to their defaults, then {call}: Pydantic "
                                  f"{json.dumps(dec(a_['value']), ensure_ascii=True)[:160] if 'value' in a_ else a_}, fallback "
                                  f"{json.dumps(dec(b_['value']), ensure_ascii=True)[:160] if 'value' in b_ else b_}",
                                  {"part": "probe", "probe": "constructed",
                                   "case": {"op": "constructed", "target": c["target"], "wire": enc(c["wire"])}})
            try:
                us_ans, us_aud, _ = us_join()
            except RuntimeError as e:
                res.harness_errors.append(str(e))
                us_ans = None
            if us_ans is not None:
                for n_, g_, a_ in us_aud:
                    pr_audit["reasked"] += a_["reasked"]
                    if a_["mismatches"]:
                        res.harness_errors.append(f"nondeterministic id-sequence answer of the {n_} worker")
                refs: Dict[str, Dict[Tuple[int, int], Any]] = {}
                for n_ in us_ans["unionseq"]:
                    refs[n_] = {tuple(c["calls"][0]): a[0] for c, a in zip(us_meta, us_ans["unionseq"][n_]) if c["reference"]}
                pr_info["id_sequences"] = 0
                for key_, rp in refs["pydantic"].items():
                    rf = refs["fallback"].get(key_)
                    idv = modelops_ids[key_[1]]
                    if isinstance(idv, bool) or (isinstance(idv, float) and not idv.is_integer()):
                        continue            # not an id JSON-RPC allows (a string or a number without fraction): history-independence only
                    if rp.get("ok") and workers.line(rp) != workers.line(rf):
                        pr_info["disagreements"] += 1
                        store({"class": "id-handling-differs", "via": modelops_vias[key_[0]], "id": repr(modelops_ids[key_[1]])},
                              f"{probes.describe_union_call(list(key_))} as the first call of a fresh process: Pydantic {rp}, fallback {rf}",
                              {"part": "probe", "probe": "unionseq", "case": {"op": "unionseq", "calls": [list(key_)]}})
                for n_ in us_ans["unionseq"]:
                    for c, a in zip(us_meta, us_ans["unionseq"][n_]):
                        if c["reference"]:
                            continue
                        pr_info["id_sequences"] += 1
                        want = refs[n_].get(tuple(c["calls"][1]))
                        got = a[1] if len(a) > 1 else a[0]
                        if workers.line(want) != workers.line(got):
                            pr_info["disagreements"] += 1
                            store({"class": "id-handling-depends-on-earlier-validation", "backend": n_,
                                   "via": modelops_vias[c["calls"][1][0]], "id": repr(modelops_ids[c["calls"][1][1]]),
                                   "after_id_type": type(modelops_ids[c["calls"][0][1]]).__name__},
                                  f"under {n_}: {probes.describe_union_call(c['calls'][1])} answers {got} after "
                                  f"{probes.describe_union_call(c['calls'][0])} in the same process; made first in a fresh process it "
                                  f"answers {want}",
                                  {"part": "probe", "probe": "unionseq", "case": {"op": "unionseq", "calls": c["calls"]},
                                   "reference": {"op": "unionseq", "calls": [c["calls"][1]]}, "backend": n_})
            for i, c in enumerate(pr_meta["helper"]):
                ap, af = pr_ans["helper"]["pydantic"][i], pr_ans["helper"]["fallback"][i]
                pr_info["helper_sequences"] += 1
                if "exc" in ap or "exc" in af or "no_driver" in ap:
                    if workers.line(ap) != workers.line(af):
                        res.harness_errors.append(f"helper driver {c['helper']} [{c['text']}]: {str(ap)[:150]} / {str(af)[:150]}")
                    continue
                if workers.line(ap) != workers.line(af):
                    pr_info["disagreements"] += 1
                    name = c["helper"].rpartition(":")[2]
                    store({"class": "helper-output-differs", "helper": name, "operations": c["text"] if len(c["seq"]) <= 2 or name != "RootsManager" else "longer"},
                          f"{name}: [{c['text']}] then the wire output: Pydantic {json.dumps(dec(ap['output']), ensure_ascii=True)[:220]} "
                          f"fallback {json.dumps(dec(af['output']), ensure_ascii=True)[:220]}",
                          {"part": "probe", "probe": "helper", "case": {"op": "helper", "helper": c["helper"], "seq": c["seq"]}})

    # input mutated after validation: what an already-built object dumps to must react to later edits of the wire object
    # it was built from in the same way under both backends (relational; C10 judges the declared containers absolutely)
    im_info: Dict[str, Any] = {"cases": 0, "positions_edited": 0, "edits": 0, "changes_both_backends_agree": 0,
                               "library_edit_scenarios": 0, "disagreements": 0}
    im_audit = {"reasked": 0, "mismatches": 0}
    if not only or "models" in only:
        from .. import modelops as _mo

        im = im_join()
        im_info["cases"] = len(im_cases)
        for n_, a_ in im["audits"].items():
            im_audit["reasked"] += a_["reasked"]
            im_audit["mismatches"] += a_["mismatches"]
            if a_["mismatches"]:
                res.harness_errors.append(f"nondeterministic input-mutation answer of the {n_} worker (case #{a_['first_mismatch_index']})")
        for i, c in enumerate(im_cases):
            ap, af = im["answers"]["pydantic"][i], im["answers"]["fallback"][i]
            for a_ in (ap, af):
                if "harness_exc" in a_:
                    res.harness_errors.append(f"worker exception (input mutation) on {c['target']} {c['label']}: {a_['harness_exc'][-300:]}")
            if not (ap.get("ok") and af.get("ok")) or "harness_exc" in ap or "harness_exc" in af:
                continue
            im_info["positions_edited"] += ap.get("positions", 0)
            im_info["edits"] += ap.get("edits", 0)
            model = "parse_message" if c["target"] == "parse_message" else wiregen.short(c["target"])
            if c["target"] != "parse_message" and wiregen.is_config_class(wiregen.resolve(c["target"])):
                continue
            cp = {(ch["position"], ch["via"]): ch for ch in ap["changed"]}
            cf = {(ch["position"], ch["via"]): ch for ch in af["changed"]}
            im_info["changes_both_backends_agree"] += len(set(cp) & set(cf))
            reported = set()
            for side, only_here in (("fallback", set(cf) - set(cp)), ("pydantic", set(cp) - set(cf))):
                for key_ in sorted(only_here):
                    ch = (cf if side == "fallback" else cp)[key_]
                    if (side, ch["position"]) in reported:
                        continue
                    reported.add((side, ch["position"]))
                    im_info["disagreements"] += 1
                    store({"class": "input-mutated-after-validation", "backend": side, "model": model, "position": ch["position"]},
                          f"{model} <- {json.dumps(c['wire'], ensure_ascii=True)[:240]}: under {side} only, editing the wire object in "
                          f"place at '{ch['position']}' ({ch['mutation']}) AFTER the object was built changes what that object dumps "
                          f"to ({ch['via']} differs at '{ch['path']}')",
                          {"target": c["target"], "part": "inputmut", "label": c["label"], "wire": enc(c["wire"])})
            sp, sf = ap.get("sibling_changed"), af.get("sibling_changed")
            if bool(sp) != bool(sf):
                side = "fallback" if sf else "pydantic"
                ch = sf or sp
                im_info["disagreements"] += 1
                store({"class": "sibling-object-changed", "backend": side, "model": model,
                       "position": ch["path"].replace(".vf-own-edit", "")},
                      f"{model} <- {json.dumps(c['wire'], ensure_ascii=True)[:240]}: two objects built from one wire object; editing "
                      f"the first one's own members changes the dump of the second at '{ch['path']}' under {side} only",
                      {"target": c["target"], "part": "inputmut", "label": c["label"], "wire": enc(c["wire"])})
        for i, lc in enumerate(im["lib"]):
            ap, af = im["lib_answers"]["pydantic"][i], im["lib_answers"]["fallback"][i]
            im_info["library_edit_scenarios"] += 1
            name = f"{_mo.LIBEDIT_SCENARIOS[lc['scenario']]} on params {json.dumps(_mo.LIBEDIT_PARAMS[lc['params']])}"
            for a_ in (ap, af):
                if "harness_exc" in a_ or "exc" in a_:
                    res.harness_errors.append(f"library-edit scenario {name} failed: {str(a_)[:300]}")
            if workers.line(ap) != workers.line(af) and "changed" in ap and "changed" in af:
                side = "fallback" if af["changed"] and not ap["changed"] else "pydantic" if ap["changed"] and not af["changed"] else "both-differently"
                ch = af["changed"] or ap["changed"]
                im_info["disagreements"] += 1
                store({"class": "input-mutated-after-validation", "backend": side, "model": "library:" + _mo.LIBEDIT_SCENARIOS[lc["scenario"]],
                       "position": ch["path"]},
                      f"{name}: a request object built earlier from the same params dict dumps differently afterwards under {side} "
                      f"(at '{ch['path']}'); Pydantic: {ap['changed']}, fallback: {af['changed']}",
                      {"part": "libedit", "scenario": lc["scenario"], "params": lc["params"], "target": "library", "wire": enc(None)})

    # determinism audit in fresh workers; a mismatch is explained before it is reported
    audit_total = audit_bad = audit_order = 0
    for cfg in CONFIGS:
        n = cfg["name"]
        a = workers.audit(cfg, HANDLER, wcases, answers[n], AUDIT_MOD, cap=20000)
        audit_total += a["reasked"]
        audit_bad += a["mismatches"]
        for ex in orderdep.explain_audit_mismatches(cfg, HANDLER, wcases, answers[n], pools_history[n], a):
            i = ex["index"]
            if ex["kind"] == "nondeterministic":
                res.harness_errors.append(f"nondeterministic answer of the {n} worker for {cases[i]['target']} {cases[i]['label']}")
                continue
            audit_order += 1
            model = "parse_message" if cases[i]["target"] == "parse_message" else wiregen.short(cases[i]["target"])
            store({"class": "order-dependent-behaviour", "backend": n, "model": model},
                  f"{model} <- {json.dumps(cases[i]['wire'], ensure_ascii=True)[:200]}: under {n} the answer after "
                  f"{len(ex['history'])} earlier validations in the same process ({ex['where']}) differs from the answer "
                  f"of a fresh process: {orderdep.first_difference(ex['alone'], ex['after'])}",
                  {"target": cases[i]["target"], "part": "order", "label": cases[i]["label"], "wire": enc(cases[i]["wire"]),
                   "backend": n,
                   "history": [{"target": cases[h]["target"], "wire": enc(cases[h]["wire"])} for h in ex["history"]]})

    if len(status_count) < 2 and not res.harness_errors:
        res.harness_errors.append(f"vacuous: a single outcome {status_count}")
    cov = res.coverage
    cov["evaluations"] = len(cases)
    cov["distinct_nontrivial"] = len(spec_valid_distinct)
    cov["cases_by_part"] = part_count
    cov["outcomes"] = dict(sorted(status_count.items()))
    cov["model_classes_discovered"] = len(class_list)
    cov["model_classes"] = [wiregen.short(q) for q in class_list]
    cov["undriven_classes"] = undriven
    cov["per_class"] = per_class
    cov["not_spec_valid_by_exception"] = reject_reasons
    cov["violation_signatures"] = dict(sorted(sig_count.items()))
    cov["unjudged_config_class_disagreements"] = {k: {"cases": n, "example": unjudged_examples[k]}
                                                  for k, n in sorted(unjudged.items())}
    cov["audit_reasked"] = audit_total + im_audit["reasked"] + audit_extra["reasked"]
    cov["stdlib_codec_configurations"] = codec_info
    cov["object_probes"] = pr_info
    cov["audit_reasked"] += pr_audit["reasked"]
    cov["audit_mismatches"] = 0 if audit_order else audit_bad
    cov["audit_mismatches_explained_as_order_dependence"] = audit_bad if audit_order else 0
    cov["same_name_pair_order"] = pair_info
    cov["input_mutated_after_validation"] = im_info
    cov["list_nested_alias_coverage"] = nested_alias
    cov["configurations"] = {n: {k: v for k, v in h.items() if k != "classes"} for n, h in hello.items()}
    cov["samples"] = [{"part": c["part"], "target": c["target"], "label": c["label"], "wire": c["wire"]}
                      for c in _spread(cases, 6)]
    cov["exhaustive"] = True
    cov["rule"] = (
        "every McpPydanticBase subclass found by importing every module under chuk_mcp x wire objects derived from "
        "typing.get_type_hints and the declared aliases/defaults (every subset of the optional members up to 6, pairwise "
        "covering array above; every sample value of every member - per Union arm, per Literal, nested models to depth "
        + ("3; every pair of sample values of every two members" if tier == "thorough" else "2")
        + "; explicit null for Optional members; unknown members x-unknown and _meta); JSON-RPC requests, notifications, "
        "results, errors and batches x vf.gen.IDS x payloads from vf.gen.json_values through parse_message; Root x "
        f"{len(ROOT_URIS)} URIs and CompletionResult x {COMPLETION_SIZES} values; evaluations = cases put to both "
        "backends; distinct non-trivial = distinct (target, wire object) accepted by Pydantic and not violating a documented invariant"
    )
    res.assumptions = [
        "spec-valid = produced by the type-directed generator and accepted by the Pydantic backend; objects Pydantic rejects are counted, not judged",
        "members declared as a Literal constant (jsonrpc, type, method, role) are always present in generated objects: the schemas require them although the classes give them defaults",
        "four configurations answer every case: {Pydantic, fallback} with orjson importable (the primary comparison) and with orjson masked; integers outside [-2^63, 2^64-1] are in the id, integer-member and free-form positions; nesting deeper than Pydantic's own serialiser follows and lone surrogates are outside the alphabet (Pydantic itself refuses to serialise them)",
        "two numbers are the same JSON value when numerically equal (1 and 1.0); members named id are compared with their JSON type",
        "transport parameter classes (chuk_mcp.transports.*: local configuration, never on the wire; their validators are pydantic decorators) are driven and compared, but their disagreements are listed under unjudged_config_class_disagreements instead of being reported",
        "validation order across classes: for every class with public names of its own and every such name, an object of another class carrying an unknown member of that name is validated first (model_validate on four other classes; parse_message with a non-object result), then an object of the class carrying it, in a process forked for the sequence; the second answer must equal the answer given in a fresh process",
        "objects built by application code: the class called with keyword arguments for the required members (and for all members), the rest left to their defaults, then model_dump() / model_dump_json() with default arguments, directly and through every wrapper class of the package (found: non-model classes offering model_dump_json around one object), single and as a batch list; both backends must give the same JSON value",
        "id sequences: every ordered pair of id validations (4 entry points x ids 'abc', '7', 5, 3.0, 3.5, -0.0, 1e3, True, False) runs in a process forked for it; the second answer must equal the answer of the same call made first in a fresh process under each backend; across backends only ids JSON-RPC allows (strings, integers, integral floats) are compared",
        "object probes: ==, !=, membership, list.index and hash of two objects of one class (equal / one member different / only an unknown member different) must behave the same under both backends; calling every public zero-argument method and property (discovered with dir()) must not change the dump under one backend only; every *Manager / *Registry class found under chuk_mcp.protocol is driven through all operation sequences up to length 3 and its wire output compared",
        "input mutated after validation: the wire object is edited in place at every dict/list position down to depth 2 (replace a scalar, delete a key/item, add a key/append, clear); both backends share the caller's objects inside free-form values (Any, the values of Dict[str, Any], unknown members), so C09 only demands that the built object reacts the same way under both",
        "agreement of attribute values that do not show in the class of a nested object or in the dump is not judged",
        "depth of nested models " + ("3" if tier == "thorough" else "2") + "; 'seeded large objects' of the quantifier are replaced by the covering arrays",
    ]
    return res


def _spread(xs: List[Any], n: int) -> List[Any]:
    if len(xs) <= n:
        return list(xs)
    step = len(xs) // n
    return [xs[i * step] for i in range(n)]


def replay_case(args: Dict[str, Any]) -> Dict[str, Any]:
    import logging

    logging.disable(logging.CRITICAL)
    wiregen.discover()
    if args.get("part") == "probe":
        ans = {cfg["name"]: workers.fresh_sequence(cfg, HANDLER, [args["case"]])[0] for cfg in CONFIGS}
        if args["probe"] == "seqfork" and args.get("reference"):
            cfg = [c_ for c_ in CONFIGS if c_["name"] == args["backend"]][0]
            ref = workers.fresh_sequence(cfg, HANDLER, [args["reference"]])[0]
            got = ans[args["backend"]]
            same = workers.line(ref[0]) == workers.line(got[-1])
            return {"probe": "seqfork", "in_sequence": got[-1], "alone": ref[0],
                    "violations": [] if same else [{"sig": {"class": "order-dependent-behaviour", "backend": args["backend"]},
                                                    "msg": orderdep.first_difference(ref[0], got[-1])}]}
        if args["probe"] == "unionseq" and args.get("reference"):
            cfg = [c_ for c_ in CONFIGS if c_["name"] == args["backend"]][0]
            ref = workers.fresh_sequence(cfg, HANDLER, [args["reference"]])[0]
            got = ans[args["backend"]]
            same = workers.line(ref[0]) == workers.line(got[-1])
            return {"probe": "unionseq", "in_sequence": got, "alone": ref,
                    "violations": [] if same else [{"sig": {"class": "id-handling-depends-on-earlier-validation", "backend": args["backend"]},
                                                    "msg": f"{got[-1]} vs alone {ref[0]}"}]}
        key_ = (lambda a: bool(a.get("changed"))) if args["probe"] == "methods" else workers.line
        same = key_(ans["pydantic"]) == key_(ans["fallback"])
        return {"probe": args["probe"], "answers": ans,
                "violations": [] if same else [{"sig": {"class": "backends-differ", "probe": args["probe"]}, "msg": "the answers differ"}]}
    if args.get("part") in ("inputmut", "libedit"):
        x = {"op": "libedit", "scenario": args["scenario"], "params": args["params"]} if args["part"] == "libedit" else \
            {"op": "inputmut", "target": args["target"], "wire": args["wire"]}
        ans = {cfg["name"]: workers.fresh_sequence(cfg, HANDLER, [x])[0] for cfg in CONFIGS}
        same = workers.line({k: v for k, v in ans["pydantic"].items() if k in ("changed", "sibling_changed")}) == \
            workers.line({k: v for k, v in ans["fallback"].items() if k in ("changed", "sibling_changed")})
        return {"part": args["part"], "target": args.get("target"), "answers": ans,
                "violations": [] if same else [{"sig": {"class": "input-mutated-after-validation"},
                                                "msg": "the two backends react differently to edits of the input made after validation"}]}
    c = {"target": args["target"], "part": args.get("part"), "label": args.get("label"), "wire": dec(args["wire"])}
    hist = [{"op": "validate", "target": h["target"], "wire": h["wire"]} for h in args.get("history", [])]
    ans, alone = {}, {}
    for cfg in CONFIGS if not args.get("config") else [CONFIGS[0]] + [c_ for c_ in STDLIB_CONFIGS if c_["name"] == args["config"]]:
        n = "fallback" if cfg["name"] == "fallback+stdlib" else "pydantic" if cfg["name"] == "pydantic" else cfg["name"]
        alone[n] = workers.fresh_sequence(cfg, HANDLER, [wire_case(c)])[0]
        ans[n] = workers.fresh_sequence(cfg, HANDLER, hist + [wire_case(c)])[-1] if hist else alone[n]
    config_cls = c["target"] != "parse_message" and wiregen.is_config_class(wiregen.resolve(c["target"]))
    if args.get("part") == "order":
        n = args["backend"]
        same = workers.line(ans[n]) == workers.line(alone[n])
        viol = [] if same else [{"sig": {"class": "order-dependent-behaviour", "backend": n,
                                         "model": "parse_message" if c["target"] == "parse_message" else wiregen.short(c["target"])},
                                 "msg": f"after {len(hist)} earlier validations: {orderdep.first_difference(alone[n], ans[n])}"}]
        return {"target": c["target"], "wire": c["wire"], "history_length": len(hist), "alone": alone[n], "after_history": ans[n],
                "violations": viol}
    if args.get("config") == "pydantic+stdlib":
        same = workers.line(ans["pydantic"]) == workers.line(ans["pydantic+stdlib"])
        return {"target": c["target"], "wire": c["wire"], "answers": ans,
                "violations": [] if same else [{"sig": {"class": "codec-changes-the-answer", "config": "pydantic+stdlib"},
                                                "msg": orderdep.first_difference(ans["pydantic"], ans["pydantic+stdlib"])}]}
    out = compare(c, ans["pydantic"], ans["fallback"])
    viols = out["violations"]
    if hist:
        base = {json.dumps(sg, sort_keys=True) for sg, _ in compare(c, alone["pydantic"], alone["fallback"])["violations"]}
        viols = [(sg, m) for sg, m in viols if json.dumps(sg, sort_keys=True) not in base]
    shown = {}
    for n, a in ans.items():
        a = dict(a)
        if "dump" in a:
            a["dump"] = dec(a["dump"])
        shown[n] = a
    return {"target": c["target"], "label": c["label"], "wire": c["wire"], "status": out["status"], "answers": shown,
            "history_length": len(hist),
            "violations": [] if config_cls else [{"sig": s_, "msg": m} for s_, m in viols]}
