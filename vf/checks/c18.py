"""C18 - concurrent requests on one connection: no cross-talk, no lost responses.

Engine: E-SCHED.  Driver: k real ``send_message`` tasks on one (read, write)
stream pair on the virtual loop.  At every idle point the environment chooses
the next action (answer one of the still unanswered callers, or emit an
unrelated notification, or stop) and its placement from the anchor-relative
time menu; all choice vectors are explored.
"""
from __future__ import annotations

import math
from typing import Any, Dict, List

import anyio

from .. import core, explorer, sched
from ..vloop import new_loop

RUN = "vf.checks.c18:run_one"


class Recorder:
    def __init__(self, inner, log, loop, who):
        self._inner, self._log, self._loop, self._who = inner, log, loop, who

    async def receive(self):
        item = await self._inner.receive()
        self._log.append((self._loop.time(), self._who, item))
        return item

    def __getattr__(self, n):
        return getattr(self._inner, n)


def run_one(ctl: explorer.Ctl, cfg: Dict[str, Any]) -> Dict[str, Any]:
    from chuk_mcp.protocol.messages.json_rpc_message import parse_message
    from chuk_mcp.protocol.messages.send_message import send_message

    k = cfg["k"]
    Ts = cfg["T"]
    starts = cfg.get("starts") or [0.0] * k
    max_notes = cfg.get("notes", 0)
    loop = new_loop(horizon=4 * max(Ts) + 5)
    import asyncio

    consumed: List[tuple] = []
    delivered: Dict[str, float] = {}
    st: Dict[str, Any] = {"scheduled": False, "stopped": False, "notes": 0, "answered": []}
    ids = [f"call-{i}" for i in range(k)]
    results: Dict[int, Any] = {}

    async def caller(i, recv_r, send_w):
        if starts[i] > 0:
            await asyncio.sleep(starts[i])
        t0 = loop.time()
        try:
            v = await send_message(Recorder(recv_r, consumed, loop, i), send_w, "tools/call", {"who": i},
                                   timeout=Ts[i], message_id=ids[i])
            results[i] = ("result", sched.jsonable(v), loop.time(), t0)
        except TimeoutError:
            results[i] = ("timeout", None, loop.time(), t0)
        except BaseException as e:  # noqa: BLE001
            results[i] = ("exc", repr(e)[:120], loop.time(), t0)

    def deliver(wire, tag):
        st["scheduled"] = False
        if tag.startswith("R"):
            delivered[tag[1:]] = loop.time()
        st["send_r"].send_nowait(parse_message(wire))

    def idle(lp):
        if st["scheduled"] or st["stopped"]:
            return
        remaining = [i for i in range(k) if i not in st["answered"]]
        options = [("resp", i) for i in remaining]
        if st["notes"] < max_notes:
            options.append(("note", None))
        options.append(("stop", None))
        if len(options) == 1:
            st["stopped"] = True
            return
        kind, i = options[ctl.choose(len(options), "action")]
        if kind == "stop":
            st["stopped"] = True
            return
        menu = sched.time_menu(lp, deadline=None, rich=cfg.get("rich", False))
        label, t, rank = menu[ctl.choose(len(menu), "when")]
        if kind == "resp":
            st["answered"].append(i)
            wire = {"jsonrpc": "2.0", "id": ids[i], "result": {"for": i}}
            tag = f"R{i}"
        else:
            st["notes"] += 1
            wire = {"jsonrpc": "2.0", "method": "notifications/message", "params": {"n": st["notes"]}}
            tag = "N"
        st["scheduled"] = True
        if label == "now":
            lp.call_soon(deliver, wire, tag)
        else:
            lp.env_call_at(t, rank, deliver, wire, tag)

    async def main():
        send_w, recv_w = anyio.create_memory_object_stream(math.inf)
        send_r, recv_r = anyio.create_memory_object_stream(math.inf)
        st["send_r"] = send_r
        tasks = [asyncio.ensure_future(caller(i, recv_r, send_w)) for i in range(k)]
        await asyncio.gather(*tasks)

    loop.idle_hook = idle
    status, val = loop.run_main(main())
    errors = loop.collect_errors()
    loop.abandon()
    obs: Dict[str, Any] = {"status": status}
    viol: List[dict] = []
    if status != "ok":
        obs["outcome"] = status
        obs["violations"] = [{"sig": {"class": "did-not-finish", "status": status}, "msg": f"cfg={cfg}: {status} {val!r}"}]
        return obs

    def bad(cls, msg, **extra):
        viol.append({"sig": {"class": cls, **extra}, "msg": f"cfg={cfg} delivered={delivered}: {msg}"})

    summary = []
    for i in range(k):
        kind, v, t_done, t0 = results[i]
        summary.append(kind)
        deadline = t0 + Ts[i]
        mine = delivered.get(str(i))
        if kind == "result":
            if v != {"for": i}:
                bad("cross-talk", f"caller {i} returned {v!r}")
            elif mine is None:
                bad("cross-talk", f"caller {i} returned a result that was never sent")
        elif kind == "timeout":
            if mine is not None and t0 - 1e-12 <= mine < deadline - 1e-9:
                # who took it?
                takers = [who for (t, who, item) in consumed if getattr(item, "id", None) == ids[i]]
                if not takers:
                    loss = "never-consumed"
                elif i in takers:
                    loss = "consumed-by-owner-not-returned"
                else:
                    loss = "consumed-by-other-waiter"
                bad("lost-response", f"caller {i} (deadline {deadline}) timed out although its response was delivered at "
                                     f"{mine}; consumed by {takers}", loss=loss)
            elif abs(t_done - deadline) > 1e-9:
                bad("timeout-at-wrong-time", f"caller {i} timed out at {t_done}, deadline {deadline}")
        else:
            bad("unexpected-exception", f"caller {i}: {v}")
    if errors:
        bad("loop-error", f"{errors[:2]}")
    obs["outcome"] = "/".join(summary)
    obs["delivered"] = {a: round(b, 7) for a, b in delivered.items()}
    obs["done"] = [round(results[i][2], 7) for i in range(k)]
    obs["violations"] = viol
    return obs


def configs_for(tier: str):
    parts = {}
    parts["k2-notes2"] = [
        {"k": 2, "T": T, "notes": 2, "rich": True, "starts": s}
        for T in ([1.0, 1.0], [0.3, 1.2], [1.2, 0.3])
        for s in ([0.0, 0.0], [0.0, 0.1])
    ]
    parts["k3-notes" + ("1" if tier == "quick" else "2")] = [
        {"k": 3, "T": T, "notes": 1 if tier == "quick" else 2, "rich": False, "starts": [0.0, 0.0, 0.0]}
        for T in ([1.0, 1.0, 1.0], [0.3, 1.0, 1.2])
    ]
    if tier == "thorough":
        parts["k4-notes0"] = [{"k": 4, "T": [1.0, 1.0, 1.0, 1.0], "notes": 0, "rich": False, "starts": [0.0] * 4},
                              {"k": 4, "T": [0.3, 1.2, 1.0, 0.7], "notes": 0, "rich": False, "starts": [0.0] * 4}]
    return parts


def run(tier: str, only=None) -> core.Result:
    res = core.Result("C18", "model_checking")
    for name, cfgs in configs_for(tier).items():
        if only and name not in only:
            continue
        out = explorer.explore(RUN, cfgs)
        sched.absorb(res, name, RUN, out, cfgs)
    res.coverage["exhaustive"] = True
    res.coverage["rule"] = (
        "k concurrent send_message callers (k=2,3; thorough 4) on one stream pair; every order in which the server answers "
        "(including never answering some), every interleaving with up to 2 unrelated notifications, every placement of each "
        "action from the anchor-relative time menu (now, +1us, just before / on (both tie orders) / just after the next "
        "library timer), equal and unequal per-caller timeouts, simultaneous and staggered starts"
    )
    res.assumptions = [
        "responses are delivered at most once each and only after the environment decided to send them",
        "a response delivered exactly at its caller's deadline may be returned or not",
    ]
    return res
