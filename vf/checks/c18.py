"""C18 - concurrent requests on one connection: no cross-talk, no lost responses.

Engine: E-SCHED.  Driver: k real ``send_message`` tasks on one (read, write)
stream pair on the virtual loop.  At every idle point the environment chooses
the next action (answer one of the still unanswered callers, or emit an
unrelated notification, or stop) and its placement from the anchor-relative
time menu; all choice vectors are explored.
"""
from __future__ import annotations

import contextlib

import math
from typing import Any, Dict, List

import anyio

from .. import core, explorer, sched
from ..jsonrpc_ref import strict_eq
from ..vloop import new_loop

RUN = "vf.checks.c18:run_one"


class Recorder:
    def __init__(self, inner, log, loop, who):
        self._inner, self._log, self._loop, self._who = inner, log, loop, who

    async def receive(self):
        item = await self._inner.receive()
        self._log.append((self._loop.time(), self._who, item))
        return item

    def __getattr__(self, n):
        return getattr(self._inner, n)


def run_one(ctl: explorer.Ctl, cfg: Dict[str, Any]) -> Dict[str, Any]:
    from chuk_mcp.protocol.messages.json_rpc_message import parse_message
    from chuk_mcp.protocol.messages.send_message import send_message

    k = cfg["k"]
    Ts = cfg["T"]
    starts = cfg.get("starts") or [0.0] * k
    max_notes = cfg.get("notes", 0)
    loop = new_loop(horizon=4 * max(Ts) + 5)
    import asyncio

    consumed: List[tuple] = []
    delivered: Dict[str, float] = {}
    st: Dict[str, Any] = {"scheduled": False, "stopped": False, "notes": 0, "answered": []}
    auto_ids = cfg.get("ids") == "auto"
    ids: List[Any] = [None] * k if auto_ids else list(cfg.get("id_values") or [f"call-{i}" for i in range(k)])
    results: Dict[int, Any] = {}

    def learn_ids():
        """Read what the callers wrote: with auto-generated ids the server learns each id from the request."""
        try:
            while True:
                m = st["recv_w"].receive_nowait()
                d = m.model_dump(exclude_none=True)
                st["written"].append(d)
                who = (d.get("params") or {}).get("who")
                if d.get("method") == "tools/call" and who is not None and ids[who] is None:
                    ids[who] = d.get("id")
        except Exception:
            pass

    async def caller(i, recv_r, send_w):
        if starts[i] > 0:
            await asyncio.sleep(starts[i])
        t0 = loop.time()
        try:
            w = send_w.clone() if cfg.get("write") == "clone" else send_w
            kw = {} if auto_ids else {"message_id": ids[i]}
            v = await send_message(Recorder(recv_r, consumed, loop, i), w, "tools/call", {"who": i},
                                   timeout=Ts[i], **kw)
            results[i] = ("result", sched.jsonable(v), loop.time(), t0)
        except TimeoutError:
            results[i] = ("timeout", None, loop.time(), t0)
        except BaseException as e:  # noqa: BLE001
            results[i] = ("exc", repr(e)[:120], loop.time(), t0)

    def deliver(wire, tag):
        st["scheduled"] = False
        if tag.startswith("R"):
            delivered[tag[1:]] = loop.time()
        st["send_r"].send_nowait(parse_message(wire))

    def idle(lp):
        learn_ids()
        if st["scheduled"] or st["stopped"]:
            return
        remaining = [i for i in range(k) if i not in st["answered"] and ids[i] is not None]
        options = [("resp", i) for i in remaining]
        if st["notes"] < max_notes:
            options.append(("note", None))
        options.append(("stop", None))
        if len(options) == 1:
            st["stopped"] = True
            return
        kind, i = options[ctl.choose(len(options), "action")]
        if kind == "stop":
            st["stopped"] = True
            return
        menu = sched.time_menu(lp, deadline=None, rich=cfg.get("rich", False))
        label, t, rank = menu[ctl.choose(len(menu), "when")]
        if kind == "resp":
            st["answered"].append(i)
            wire = {"jsonrpc": "2.0", "id": ids[i], "result": {"for": i}}
            tag = f"R{i}"
        else:
            st["notes"] += 1
            wire = {"jsonrpc": "2.0", "method": "notifications/message", "params": {"n": st["notes"]}}
            tag = "N"
        st["scheduled"] = True
        if label == "now":
            lp.call_soon(deliver, wire, tag)
        else:
            lp.env_call_at(t, rank, deliver, wire, tag)

    async def main():
        send_w, recv_w = anyio.create_memory_object_stream(math.inf)
        send_r, recv_r = anyio.create_memory_object_stream(math.inf)
        st["send_r"] = send_r
        st["recv_w"] = recv_w
        st["written"] = []
        tasks = [asyncio.ensure_future(caller(i, recv_r, send_w)) for i in range(k)]
        await asyncio.gather(*tasks)

    loop.idle_hook = idle
    status, val = loop.run_main(main())
    errors = loop.collect_errors()
    loop.abandon()
    obs: Dict[str, Any] = {"status": status}
    viol: List[dict] = []
    if status != "ok":
        obs["outcome"] = status
        obs["violations"] = [{"sig": {"class": "did-not-finish", "status": status}, "msg": f"cfg={cfg}: {status} {core.clean_repr(val)}"}]
        return obs

    def bad(cls, msg, **extra):
        viol.append({"sig": {"class": cls, **extra}, "msg": f"cfg={cfg} delivered={delivered}: {msg}"})

    learn_ids()
    if auto_ids:
        seen = [x for x in ids if x is not None]
        if len(set(map(repr, seen))) != len(seen):
            bad("duplicate-request-ids", f"outstanding requests on one connection share an id: {ids}")
    summary = []
    for i in range(k):
        kind, v, t_done, t0 = results[i]
        summary.append(kind)
        deadline = t0 + Ts[i]
        mine = delivered.get(str(i))
        if kind == "result":
            if v != {"for": i}:
                bad("cross-talk", f"caller {i} returned {v!r}")
            elif mine is None:
                bad("cross-talk", f"caller {i} returned a result that was never sent")
        elif kind == "timeout":
            if mine is not None and t0 - 1e-12 <= mine < deadline - 1e-9:
                # who took it?
                takers = [who for (t, who, item) in consumed if getattr(item, "id", None) == ids[i]
                          and getattr(item, "method", None) is None]
                if not takers:
                    loss = "never-consumed"
                elif i in takers:
                    loss = "consumed-by-owner-not-returned"
                else:
                    loss = "consumed-by-other-waiter"
                bad("lost-response", f"caller {i} (deadline {deadline}) timed out although its response was delivered at "
                                     f"{mine}; consumed by {takers}", loss=loss)
            elif abs(t_done - deadline) > 1e-9:
                bad("timeout-at-wrong-time", f"caller {i} timed out at {t_done}, deadline {deadline}")
        else:
            bad("unexpected-exception", f"caller {i}: {v}")
    if errors:
        bad("loop-error", f"{errors[:2]}")
    obs["outcome"] = "/".join(summary)
    obs["delivered"] = {a: round(b, 7) for a, b in delivered.items()}
    obs["done"] = [round(results[i][2], 7) for i in range(k)]
    obs["violations"] = viol
    return obs


# ---------------------------------------------------------------------------
# the same property through the real stdio transport (scripted child)
# ---------------------------------------------------------------------------
RUN_STDIO = "vf.checks.c18:run_stdio"


def run_stdio(ctl: explorer.Ctl, cfg: Dict[str, Any]) -> Dict[str, Any]:
    import asyncio
    import itertools
    import json

    from chuk_mcp.protocol.messages.send_message import send_message
    from chuk_mcp.transports.stdio.stdio_client import stdio_client

    from .. import seams

    k = cfg["k"]
    loop = new_loop(horizon=30)
    proc = seams.FakeProcess()
    seen: Dict[int, Any] = {}
    consumed: List[tuple] = []
    delivered: Dict[str, float] = {}
    results: Dict[int, Any] = {}
    st = {"answered": False}
    buf = {"b": b""}
    tokens: Dict[int, Any] = {}
    slow = bool(cfg.get("slow_cb"))
    T = 10.0 if slow else 1.0

    def on_stdin(data: bytes):
        buf["b"] += data
        while b"\n" in buf["b"]:
            line, buf["b"] = buf["b"].split(b"\n", 1)
            try:
                d = json.loads(line.decode("utf-8"))
            except Exception:
                continue
            who = (d.get("params") or {}).get("who")
            if d.get("method") == "tools/call" and who is not None:
                seen[who] = d.get("id")
                tokens[who] = ((d.get("params") or {}).get("_meta") or {}).get("progressToken")

    proc.on_stdin = on_stdin
    perms = list(itertools.permutations(range(k)))

    def idle(lp):
        if st["answered"] or len(seen) < k:
            return
        st["answered"] = True
        order = perms[ctl.choose(len(perms), "answer-order")]
        if slow:
            # callers are slow consumers (their progress callbacks take 10 ms each): the server sends 150 progress
            # notifications (alternating tokens) and then the answers, all in one read
            lines = [(json.dumps({"jsonrpc": "2.0", "method": "notifications/progress",
                                  "params": {"progressToken": tokens[n % k], "progress": n}}) + "\n").encode()
                     for n in range(150)]
            lines += [(json.dumps({"jsonrpc": "2.0", "id": seen[i], "result": {"for": i}}) + "\n").encode() for i in order]
            for i in order:
                delivered[str(i)] = lp.time()
            proc.stdout.feed(b"".join(lines))
            return
        grouping = ["one-chunk", "chunk-per-line", "split-mid-line", "after-150-notifications",
                    "after-a-long-line-in-two-reads"][ctl.choose(5, "grouping")]
        lines = [(json.dumps({"jsonrpc": "2.0", "id": seen[i], "result": {"for": i}}) + "\n").encode() for i in order]
        for i in order:
            delivered[str(i)] = lp.time()
        if grouping == "after-150-notifications":
            # more unread traffic than the transport's 100-slot stream holds, then the answers, all in one read
            notes = b"".join((json.dumps({"jsonrpc": "2.0", "method": "notifications/message", "params": {"n": n}}) + "\n").encode()
                             for n in range(150))
            proc.stdout.feed(notes + b"".join(lines))
        elif grouping == "after-a-long-line-in-two-reads":
            # a long line arriving in two reads (the first without a line end), then each answer as a short read of its own
            long_line = (json.dumps({"jsonrpc": "2.0", "method": "notifications/message", "params": {"data": "x" * 4000}}) + "\n").encode()
            proc.stdout.feed(long_line[:3000])
            proc.stdout.feed(long_line[3000:])
            for ln in lines:
                proc.stdout.feed(ln)
        elif grouping == "one-chunk":
            proc.stdout.feed(b"".join(lines))
        elif grouping == "chunk-per-line":
            for ln in lines:
                proc.stdout.feed(ln)
        else:
            blob = b"".join(lines)
            cut = len(lines[0]) + 5
            proc.stdout.feed(blob[:cut])
            proc.stdout.feed(blob[cut:])

    async def caller(i, read, write):
        t0 = loop.time()
        try:
            kw = {} if cfg.get("ids") == "auto" else {"message_id": f"call-{i}"}
            if slow:
                async def cb(progress, total, message):
                    await asyncio.sleep(0.01)
                kw["progress_callback"] = cb
            v = await send_message(Recorder(read, consumed, loop, i), write, "tools/call", {"who": i}, timeout=T, **kw)
            results[i] = ("result", sched.jsonable(v), loop.time(), t0)
        except TimeoutError:
            results[i] = ("timeout", None, loop.time(), t0)
        except BaseException as e:  # noqa: BLE001
            results[i] = ("exc", repr(e)[:120], loop.time(), t0)

    async def main():
        with seams.patched_open_process(lambda cmd, kw: proc):
            async with stdio_client(seams.stdio_params()) as (read, write):
                await asyncio.gather(*[asyncio.ensure_future(caller(i, read, write)) for i in range(k)])

    loop.idle_hook = idle
    status, val = loop.run_main(main())
    errors = loop.collect_errors()
    loop.abandon()
    viol: List[dict] = []
    if status != "ok":
        return {"outcome": status, "violations": [{"sig": {"class": "did-not-finish", "carrier": "stdio"},
                                                   "msg": f"cfg={cfg}: {status} {core.clean_repr(val)}"}]}

    def bad(cls, msg, **extra):
        viol.append({"sig": {"class": cls, "carrier": "stdio", **extra}, "msg": f"cfg={cfg} delivered={delivered}: {msg}"})

    summary = []
    for i in range(k):
        kind, v, t_done, t0 = results[i]
        summary.append(kind)
        if kind == "result":
            if v != {"for": i}:
                bad("cross-talk", f"caller {i} returned {v!r}")
        elif kind == "timeout":
            if str(i) in delivered:
                takers = [who for (t, who, item) in consumed if getattr(item, "id", None) == seen.get(i)
                          and getattr(item, "method", None) is None]
                loss = "never-consumed" if not takers else ("consumed-by-owner-not-returned" if i in takers
                                                            else "consumed-by-other-waiter")
                bad("lost-response", f"caller {i} timed out although the child wrote its response at {delivered[str(i)]}; "
                                     f"taken from the read stream by {takers}", loss=loss)
        else:
            bad("unexpected-exception", f"caller {i}: {v}")
    if errors:
        bad("loop-error", f"{errors[:2]}")
    return {"outcome": "/".join(summary), "violations": viol}


# ---------------------------------------------------------------------------
# per-request streams of the stdio client (new_request_stream + send_json): the library's own demultiplexer
# ---------------------------------------------------------------------------
RUN_PR = "vf.checks.c18:run_per_request"
# batch members that are not valid messages (each is dropped alone)
STRAYS = [{"jsonrpc": "2.0", "id": "stale-17"}, {}, {"jsonrpc": "2.0", "id": "x", "result": 1, "error": {"code": 1, "message": "m"}},
          [], 7, "text", None]
# what an earlier child of the same client object left unterminated on its stdout before it went away
TAILS = {"none": None, "text": b"server shutting down ...", "half-json": b'{"jsonrpc":"2.0","id":"a","resu',
         "line+text": b'{"jsonrpc":"2.0","method":"notifications/message","params":{}}\nbye', "cr": b"\r", "open-bracket": b"["}
PR_IDS = {"zero": 0, "empty": "", "str": "a", "int": 7, "digits": "7", "neg": -1, "uni": "\u017c-2"}


def run_per_request(ctl: explorer.Ctl, cfg: Dict[str, Any]) -> Dict[str, Any]:
    import asyncio
    import itertools
    import json

    import anyio as _anyio
    from chuk_mcp.protocol.messages.json_rpc_message import JSONRPCRequest
    from chuk_mcp.transports.stdio.stdio_client import StdioClient

    from .. import seams

    ids = [PR_IDS[k] for k in cfg["ids"]]
    k = len(ids)
    shape = cfg.get("result", "obj")

    def res(i):
        # results need not be JSON objects
        return {"obj": {"for": i}, "list": ["for", i], "str": f"for-{i}", "num": 100 + i, "float": i + 0.5, "true": True,
                "false": False, "zero": 0, "empty-str": "", "empty-list": [], "empty-obj": {}, "nested-list": [[i], {"for": i}]}[shape]

    loop = new_loop(horizon=30)
    proc = seams.FakeProcess()
    seen: List[Any] = []
    st = {"answered": False}
    buf = {"b": b""}
    results: Dict[int, Any] = {}
    main_stream: List[Any] = []

    def on_stdin(data: bytes):
        buf["b"] += data
        while b"\n" in buf["b"]:
            line, buf["b"] = buf["b"].split(b"\n", 1)
            try:
                d = json.loads(line.decode("utf-8"))
            except Exception:
                continue
            if d.get("method") == "tools/call":
                seen.append(d.get("id"))

    proc.on_stdin = on_stdin
    perms = list(itertools.permutations(range(k)))

    def idle(lp):
        if st["answered"] or len(seen) < k:
            return
        st["answered"] = True
        order = perms[ctl.choose(len(perms), "answer-order")]
        grouping = ctl.choose(2 + len(STRAYS) + 1 + 2, "grouping")
        answers = [{"jsonrpc": "2.0", "id": ids[i], "result": res(i)} for i in order]
        lines = [(json.dumps(a) + "\n").encode() for a in answers]
        note = (json.dumps({"jsonrpc": "2.0", "method": "notifications/message", "params": {}}) + "\n").encode()
        if grouping == 0:
            proc.stdout.feed(note + b"".join(lines))
        elif grouping == 1:
            for ln in lines:
                proc.stdout.feed(ln)
                proc.stdout.feed(note)
        elif grouping == 2:
            # all answers in one JSON-RPC batch array (no version agreed: batches are accepted)
            proc.stdout.feed((json.dumps(answers) + "\n").encode())
        elif grouping >= 3 + len(STRAYS):
            # a plain-text log line on stdout, then the answers, the read ending inside a multi-byte character (or, with
            # ASCII-only answers, in the middle); second variant: two junk lines around the first answer
            raw = [(json.dumps(a, ensure_ascii=False) + "\n").encode("utf-8") for a in answers]
            junk = b"INFO plain log line, not JSON\n"
            blob = (junk + b"".join(raw)) if grouping == 3 + len(STRAYS) else (junk + raw[0] + junk + b"".join(raw[1:]))
            cut = next((i + 1 for i, b in enumerate(blob) if b >= 0x80), len(blob) // 2)
            proc.stdout.feed(blob[:cut])
            proc.stdout.feed(blob[cut:])
        else:
            # a batch array with a member that is no valid message in front of, and between, the answers
            stray = STRAYS[grouping - 3]
            members = [stray, answers[0], stray] + answers[1:]
            st["stray"] = stray
            proc.stdout.feed((json.dumps(members) + "\n").encode())

    async def caller(i, client):
        rs = client.new_request_stream(str(ids[i]))
        await client.send_json(JSONRPCRequest(id=ids[i], method="tools/call", params={"who": i}))
        try:
            with _anyio.fail_after(1.0):
                m = await rs.receive()
            results[i] = ("result", m.model_dump(exclude_none=True))
        except TimeoutError:
            results[i] = ("timeout", None)
        except BaseException as e:  # noqa: BLE001
            results[i] = ("exc", type(e).__name__)

    tail = TAILS[cfg.get("first_tail", "none")]
    first = seams.FakeProcess()
    procs = ([first] if tail is not None else []) + [proc]

    async def main():
        with seams.patched_open_process(lambda cmd, kw: procs.pop(0)):
            client = StdioClient(seams.stdio_params())
            if tail is not None:
                # an earlier connection through the same object: the child's output ends in the middle of a line
                q = seams.Quiescence(loop)
                q.chain = idle
                async with client:
                    first.stdout.feed(tail)
                    await q.settle()
                    if cfg.get("first_dies"):
                        first.exit(1)
                        await q.settle()
                loop.idle_hook = idle
            async with client:
                read, _ = client.get_streams()
                await asyncio.gather(*[asyncio.ensure_future(caller(i, client)) for i in range(k)])
                try:
                    while True:
                        main_stream.append(read.receive_nowait().model_dump(exclude_none=True))
                except Exception:
                    pass

    loop.idle_hook = idle
    status, val = loop.run_main(main())
    errors = loop.collect_errors()
    loop.abandon()
    viol: List[dict] = []
    if status != "ok":
        return {"outcome": status, "violations": [{"sig": {"class": "did-not-finish", "part": "per-request"},
                                                   "msg": f"cfg={cfg}: {status} {core.clean_repr(val)}"}]}
    summary = []
    for i in range(k):
        kind, v = results.get(i, ("missing", None))
        summary.append(kind)
        if kind == "result":
            if not strict_eq(v.get("result"), res(i)) or type(v.get("id")) is not type(ids[i]) or v.get("id") != ids[i]:
                viol.append({"sig": {"class": "cross-talk", "part": "per-request"}, "msg": f"cfg={cfg}: caller {i} (id {ids[i]!r}) got {v}"})
        else:
            viol.append({"sig": {"class": "lost-response", "part": "per-request", "id_kind": cfg["ids"][i], **({"result": shape} if shape != "obj" else {})},
                         "msg": f"cfg={cfg}: caller {i} waiting on the request stream for id {ids[i]!r} ended with {kind}; "
                                f"main stream saw {[m.get('id') for m in main_stream]}"})
    got_ids = [m.get("id") for m in main_stream if "method" not in m]
    if isinstance(st.get("stray"), dict) and st["stray"].get("id") is not None:
        got_ids = [g for g in got_ids if g != st["stray"]["id"]]  # whether an invalid member shows up there is not this property's business
    if sorted(map(repr, got_ids)) != sorted(map(repr, ids)):
        viol.append({"sig": {"class": "main-stream-mismatch", "part": "per-request"},
                     "msg": f"cfg={cfg}: responses on the main read stream {got_ids}, sent {ids}"})
    if errors:
        viol.append({"sig": {"class": "loop-error"}, "msg": f"{errors[:2]}"})
    return {"outcome": "/".join(summary), "violations": viol}


RUN_PRM = "vf.checks.c18:run_per_request_multi"


def run_per_request_multi(ctl: explorer.Ctl, cfg: Dict[str, Any]) -> Dict[str, Any]:
    """Per-request streams with (a) several connections alive at once whose callers use the SAME ids and
    (b) callers that reuse their id for the next request as soon as the previous answer is in their hands.
    cfg: conns (1|2), ids [keys of PR_IDS], rounds, reg (permutation index of the caller start order)."""
    import asyncio
    import itertools
    import json

    import anyio as _anyio
    from chuk_mcp.protocol.messages.json_rpc_message import JSONRPCRequest
    from chuk_mcp.transports.stdio.stdio_client import StdioClient

    from .. import seams

    ids = [PR_IDS[k] for k in cfg["ids"]]
    nc = cfg["conns"]
    rounds = cfg["rounds"]
    pairs = [(c, i) for c in range(nc) for i in range(len(ids))]
    loop = new_loop(horizon=30)
    procs = [seams.FakeProcess() for _ in range(nc)]
    seen: List[List[Any]] = [[] for _ in range(nc)]
    bufs = [b"" for _ in range(nc)]
    st = {"round_answered": 0}
    results: Dict[tuple, List[Any]] = {p: [] for p in pairs}
    main_streams: List[List[Any]] = [[] for _ in range(nc)]

    def make_on_stdin(c):
        def on_stdin(data: bytes):
            bufs[c] += data
            while b"\n" in bufs[c]:
                line, bufs[c] = bufs[c].split(b"\n", 1)
                try:
                    d = json.loads(line.decode("utf-8"))
                except Exception:  # noqa: BLE001
                    continue
                if d.get("method") == "tools/call":
                    seen[c].append(d.get("id"))
        return on_stdin

    for c in range(nc):
        procs[c].on_stdin = make_on_stdin(c)
    perms = list(itertools.permutations(range(len(pairs))))

    def idle(lp):
        r = st["round_answered"]
        if r >= rounds or any(len(seen[c]) < (r + 1) * len(ids) for c in range(nc)):
            return
        st["round_answered"] = r + 1
        if r in (cfg.get("unanswered_rounds") or []):
            return  # the server never answers this round: the callers give up and ask again under the same ids
        order = perms[ctl.choose(len(perms), f"answer-order-round{r}")]
        for pi in order:
            c, i = pairs[pi]
            procs[c].stdout.feed((json.dumps({"jsonrpc": "2.0", "id": ids[i], "result": {"for": i, "conn": c, "round": r}}) + "\n").encode())

    async def caller(c, i, client):
        for r in range(rounds):
            rs = client.new_request_stream(str(ids[i]))
            await client.send_json(JSONRPCRequest(id=ids[i], method="tools/call", params={"who": i, "conn": c, "round": r}))
            try:
                with _anyio.fail_after(0.3 if r in (cfg.get("unanswered_rounds") or []) else 1.0):
                    m = await rs.receive()
                results[(c, i)].append(("result", m.model_dump(exclude_none=True)))
            except TimeoutError:
                results[(c, i)].append(("timeout", None))
                if cfg.get("abandoned") == "closed":
                    rs.close()
            except BaseException as e:  # noqa: BLE001
                results[(c, i)].append(("exc", type(e).__name__))

    async def main():
        it = iter(procs)
        with seams.patched_open_process(lambda cmd, kw: next(it)):
            async with contextlib.AsyncExitStack() as stack:
                clients = [await stack.enter_async_context(StdioClient(seams.stdio_params())) for _ in range(nc)]
                start = list(itertools.permutations(range(len(pairs))))[cfg["reg"]]
                tasks = []
                for pi in start:
                    c, i = pairs[pi]
                    tasks.append(asyncio.ensure_future(caller(c, i, clients[c])))
                await asyncio.gather(*tasks)
                for c in range(nc):
                    read, _ = clients[c].get_streams()
                    try:
                        while True:
                            main_streams[c].append(read.receive_nowait().model_dump(exclude_none=True))
                    except Exception:  # noqa: BLE001
                        pass

    loop.idle_hook = idle
    status, val = loop.run_main(main())
    errors = loop.collect_errors()
    loop.abandon()
    viol: List[dict] = []
    if status != "ok":
        return {"outcome": status, "violations": [{"sig": {"class": "did-not-finish", "part": "per-request-multi"},
                                                   "msg": f"cfg={cfg}: {status} {core.clean_repr(val)}"}]}
    summary = []
    for (c, i) in pairs:
        for r in range(rounds):
            kind, v = results[(c, i)][r] if r < len(results[(c, i)]) else ("missing", None)
            summary.append(kind[0])
            if r in (cfg.get("unanswered_rounds") or []):
                if kind != "timeout":
                    viol.append({"sig": {"class": "answer-nobody-sent", "part": "per-request"}, "msg": f"cfg={cfg}: caller {i} round {r}: {kind} {v}"})
                continue
            if kind == "result":
                want = {"for": i, "conn": c, "round": r}
                if v.get("result") != want or type(v.get("id")) is not type(ids[i]) or v.get("id") != ids[i]:
                    other_conn = isinstance(v.get("result"), dict) and v["result"].get("conn") != c
                    viol.append({"sig": {"class": "cross-talk", "part": "per-request", "from": "another-connection" if other_conn else "same-connection",
                                         "connections": nc},
                                 "msg": f"cfg={cfg}: caller {i} of connection {c}, round {r} (id {ids[i]!r}) got {v}, expected result {want}"})
            else:
                viol.append({"sig": {"class": "lost-response", "part": "per-request", "connections": nc, "round": "first" if r == 0 else "later"},
                             "msg": f"cfg={cfg}: caller {i} of connection {c}, round {r}, waiting on the request stream for id {ids[i]!r} "
                                    f"ended with {kind}; main streams saw {[[m.get('result') for m in ms] for ms in main_streams]}"})
    for c in range(nc):
        got = [m.get("result") for m in main_streams[c] if "method" not in m]
        want = [{"for": i, "conn": c, "round": r} for r in range(rounds) for i in range(len(ids))
                if r not in (cfg.get("unanswered_rounds") or [])]
        key = lambda d: json.dumps(d, sort_keys=True)
        if sorted(map(key, got)) != sorted(map(key, want)):
            viol.append({"sig": {"class": "main-stream-mismatch", "part": "per-request", "connections": nc},
                         "msg": f"cfg={cfg}: connection {c}: responses on the main read stream {got}, the child wrote {want}"})
    if errors:
        viol.append({"sig": {"class": "loop-error"}, "msg": f"{errors[:2]}"})
    return {"outcome": "".join(summary), "violations": viol}


def multi_configs(tier: str):
    import math as _m

    out = []
    idsets = [["str", "digits"], ["zero", "empty"]] if tier == "quick" else [["str", "digits"], ["zero", "empty"], ["int", "neg"], ["str", "int", "empty"]]
    for idset in idsets:
        # two connections alive, same ids on both, one round: every caller start order x every answer order
        if len(idset) == 2:
            for reg in range(_m.factorial(4)):
                out.append({"conns": 2, "ids": idset, "rounds": 1, "reg": reg})
        # one connection, ids reused for 2-3 rounds
        for rounds in ((2, 3) if len(idset) == 2 else (2,)):
            for reg in range(_m.factorial(len(idset))):
                out.append({"conns": 1, "ids": idset, "rounds": rounds, "reg": reg})
    # a request that was never answered is abandoned (stream dropped or closed), the same id is asked again and answered
    for idset in idsets[:2]:
        for ab in ("dropped", "closed"):
            for un in ([0], [0, 1]):
                out.append({"conns": 1, "ids": idset, "rounds": len(un) + 1, "reg": 0, "unanswered_rounds": un, "abandoned": ab})
    # two connections and two rounds (start order fixed per parity; answer orders all)
    for idset in idsets[:1] if tier == "quick" else [i for i in idsets if len(i) == 2]:
        for reg in (0, 23) if tier == "quick" else range(0, 24, 3):
            out.append({"conns": 2, "ids": idset, "rounds": 2, "reg": reg})
    return out


def configs_for(tier: str):
    parts = {}
    parts["k2-notes2"] = [
        {"k": 2, "T": T, "notes": 2, "rich": True, "starts": s}
        for T in ([1.0, 1.0], [0.3, 1.2], [1.2, 0.3])
        for s in ([0.0, 0.0], [0.0, 0.1])
    ]
    parts["k2-auto-ids"] = [
        {"k": 2, "T": T, "notes": 1, "rich": False, "starts": s, "ids": "auto", "write": w}
        for T in ([1.0, 1.0], [0.3, 1.2]) for s in ([0.0, 0.0], [0.0, 0.1]) for w in ("same", "clone")
    ]
    # ids that differ only in JSON type (or only after conversion to text) belong to different requests
    parts["k2-ids-equal-as-text"] = [
        {"k": 2, "T": [1.0, 1.0], "notes": 0, "rich": False, "starts": s, "id_values": iv}
        for s in ([0.0, 0.0], [0.0, 0.1]) for iv in (["7", 7], [7, "7"], ["10", 10])
    ]
    parts["k3-auto-ids"] = [
        {"k": 3, "T": [1.0, 1.0, 1.0], "notes": 0, "rich": False, "starts": [0.0, 0.0, 0.0], "ids": "auto", "write": w}
        for w in ("same", "clone")
    ]
    parts["k3-notes" + ("1" if tier == "quick" else "2")] = [
        {"k": 3, "T": T, "notes": 1 if tier == "quick" else 2, "rich": False, "starts": [0.0, 0.0, 0.0]}
        for T in ([1.0, 1.0, 1.0], [0.3, 1.0, 1.2])
    ]
    if tier == "thorough":
        parts["k4-notes0"] = [{"k": 4, "T": [1.0, 1.0, 1.0, 1.0], "notes": 0, "rich": False, "starts": [0.0] * 4},
                              {"k": 4, "T": [0.3, 1.2, 1.0, 0.7], "notes": 0, "rich": False, "starts": [0.0] * 4}]
    return parts


def run(tier: str, only=None) -> core.Result:
    res = core.Result("C18", "model_checking")
    for name, cfgs in configs_for(tier).items():
        if only and name not in only:
            continue
        out = explorer.explore(RUN, cfgs, fidelity=True)
        sched.absorb(res, name, RUN, out, cfgs)
    scfgs = [{"k": k, "ids": ids} for k in ((2, 3) if tier == "quick" else (2, 3, 4)) for ids in ("explicit", "auto")]
    scfgs += [{"k": k, "ids": "explicit", "slow_cb": True} for k in (2, 3)]
    if not only or "stdio" in only:
        out = explorer.explore(RUN_STDIO, scfgs, fidelity=True)
        sched.absorb(res, "stdio-carrier", RUN_STDIO, out, scfgs)
        sched.debug_pass(res, "stdio-carrier", RUN_STDIO, scfgs)
    import itertools as _it
    prcfgs = [{"ids": list(c)} for n in (2, 3) for c in _it.combinations(PR_IDS, n) if not ({"int", "digits"} <= set(c))
              and not ("uni" in c and n == 3)]
    prcfgs += [{"ids": ["uni", "str", "zero"]}, {"ids": ["str", "uni", "int"]}]
    prcfgs += [{"ids": idl, "result": sh} for idl in (["str", "int"], ["zero", "empty", "neg"])
               for sh in ("list", "str", "num", "float", "true", "false", "zero", "empty-str", "empty-list", "empty-obj", "nested-list")]
    prcfgs += [{"ids": idl, "first_tail": t, "first_dies": d} for idl in (["str", "int"], ["zero", "empty", "neg"])
               for t in TAILS if t != "none" for d in (False, True)]
    if not only or "per-request" in only:
        out = explorer.explore(RUN_PR, prcfgs, fidelity=True)
        sched.absorb(res, "per-request-streams", RUN_PR, out, prcfgs, min_outcomes=1)
    if not only or "per-request" in only:
        mc = multi_configs(tier)
        out = explorer.explore(RUN_PRM, mc, fidelity=True)
        sched.absorb(res, "per-request-streams-two-connections-and-id-reuse", RUN_PRM, out, mc, min_outcomes=1)
        sched.debug_pass(res, "per-request-streams-two-connections-and-id-reuse", RUN_PRM, mc, every=9)
    res.coverage["exhaustive"] = True
    res.coverage["rule"] = (
        "k concurrent send_message callers (k=2,3; thorough 4) on one stream pair; every order in which the server answers "
        "(including never answering some), every interleaving with up to 2 unrelated notifications, every placement of each "
        "action from the anchor-relative time menu (now, +1us, just before / on (both tie orders) / just after the next "
        "library timer), equal and unequal per-caller timeouts, simultaneous and staggered starts; auto-generated ids through the same and through cloned "
        "write streams; the same through the real stdio transport (scripted child): every answer order x {all answers in one chunk, "
        "one chunk per line, chunk boundary mid-line, all answers behind a burst of 150 notifications, each answer alone after a long line that came in two reads}; per-request streams: id shapes, "
        "two connections alive at once whose callers use the same ids (every caller start order x every answer order), and callers "
        "reusing their id for 2-3 back-to-back rounds (every answer order per round)"
    )
    res.assumptions = [
        "responses are delivered at most once each and only after the environment decided to send them",
        "a response delivered exactly at its caller's deadline may be returned or not",
    ]
    return res
