"""C07 - an error response always surfaces as a classified exception carrying its code.

(i)   the classification function: an independent pinned copy of the documented
      permanent / retryable code sets; set algebra against the library's table;
      ``is_retryable_error`` evaluated on every integer of the grid.
(ii)  the real ``send_message`` on the virtual loop answered with a matching
      error response: every code of the grid x every error shape x two ways of
      producing the incoming object (the library's parser, the unified message
      class's constructor).
(iii) every typed request helper discovered in the package (``send_*`` coroutine
      functions taking read/write streams), called with type-directed arguments
      against a scripted responder that answers with the error.

Oracle: the pinned sets below, nothing from the library.
"""
from __future__ import annotations

import inspect
import re
from typing import Any, Dict, List

from .. import core, explorer, sched
from .. import helpers_drive as hd

RUN = "vf.checks.c07:run_one"

# --- independent pinned copy of the documented sets (JSON-RPC 2.0 + errors.py docs) ---------
PERMANENT = {
    -32700: "PARSE_ERROR",
    -32600: "INVALID_REQUEST",
    -32601: "METHOD_NOT_FOUND",
    -32602: "INVALID_PARAMS",
    -32000: "CONNECTION_CLOSED",
    -32003: "MCP_CAPABILITY_NOT_SUPPORTED",
    -32005: "MCP_TOOL_NOT_FOUND",
    -32006: "MCP_PROMPT_NOT_FOUND",
    -32007: "MCP_AUTHORIZATION_FAILED",
    -32008: "MCP_PROTOCOL_VERSION_MISMATCH",
}
RETRYABLE = {
    -32603: "INTERNAL_ERROR",
    -32001: "REQUEST_TIMEOUT",
    -32002: "MCP_INITIALIZATION_FAILED",
    -32004: "MCP_RESOURCE_NOT_FOUND",
}
# the boolean convenience calls named by the statement
BOOL_HELPERS = {"send_ping", "send_resources_subscribe", "send_resources_unsubscribe"}

EXTRAS = sorted({s * b + d for b in (2 ** 31, 2 ** 63) for s in (1, -1) for d in (-1, 0, 1)} | {2 ** 64 - 1})
RANGE_A = (-33100, -31900)
RANGE_B = (-200, 200)


def all_codes() -> List[int]:
    return list(range(RANGE_A[0], RANGE_A[1] + 1)) + list(range(RANGE_B[0], RANGE_B[1] + 1)) + EXTRAS


def boundary_codes() -> List[int]:
    s = set()
    for c in list(PERMANENT) + list(RETRYABLE):
        s.update((c - 1, c, c + 1))
    s.update((-32099, -32100, -32098, -32768, -32769, -32767, 0, 1, -1, 200, -200, RANGE_A[0], RANGE_A[1]))
    s.update(EXTRAS)
    return sorted(s)


MSG = "srv says: café   failed"
MESSAGES = [("absent", None), ("empty", ""), ("text", MSG)]
# texts that are special to printf-style, str.format and escape processing: they must come through verbatim
SPECIAL_MESSAGES = [
    ("percent-word", "100% invalid"), ("percent-escape-uri", "file:///a%20b.txt"), ("percent-s", "%s"), ("percent-d", "%d"),
    ("percent-mapping", "%(x)s and %(code)d"), ("percent-percent", "%%"), ("lone-percent", "%"),
    ("braces-empty", "{}"), ("braces-index", "{0} {1}"), ("braces-name", "{code} {message!r}"), ("braces-unbalanced", "{ }} {"),
    ("backslashes", "C:\\dir\\new \\n \\u00e9 \\"), ("dollar-template", "$code ${message}"),
    # text no UTF-8 encoder accepts as it stands (unpaired surrogates) and other exotic code points
    ("lone-high-surrogate", "bad \ud83d text"), ("lone-low-surrogate", "\udc00"), ("reversed-surrogates", "\udc00\ud83d"),
    ("nul-ffff-astral", "nul\x00 \uffff \U0001F600\U0010FFFF \ufffe"),
]
N_PLAIN_MESSAGES = len(MESSAGES)
MESSAGES = MESSAGES + SPECIAL_MESSAGES
DATAS = [("absent", "__absent__"), ("null", None), ("string", "s"),
         ("object", {"k": None, "é": [1]}), ("list", [1, None, {"k": "v"}])]
N_PLAIN_DATAS = len(DATAS)
DATAS = DATAS + [("string-with-lone-surrogate", "x\ud83dy"), ("object-with-lone-surrogates", {"k": "\udc00", "n": ["\ud83d", None]}),
                 ("nul-and-noncharacters", ["\x00", "\uffff", "\U0010FFFF"])]
SHAPES = ([(mi, di) for mi in range(N_PLAIN_MESSAGES) for di in range(N_PLAIN_DATAS)]
          + [(mi, 0) for mi in range(N_PLAIN_MESSAGES, len(MESSAGES))]
          + [(2, di) for di in range(N_PLAIN_DATAS, len(DATAS))])


def error_obj(code: int, shape) -> Dict[str, Any]:
    mi, di = shape
    e: Dict[str, Any] = {"code": code}
    if MESSAGES[mi][1] is not None:
        e["message"] = MESSAGES[mi][1]
    if DATAS[di][1] != "__absent__":
        e["data"] = DATAS[di][1]
    return e


def shape_name(shape) -> str:
    return f"message-{MESSAGES[shape[0]][0]}/data-{DATAS[shape[1]][0]}"


def expected_class(code: int) -> str:
    return "nonretryable" if code in PERMANENT else "retryable"


def representable(shape, mode: str) -> bool:
    try:
        hd.incoming({"jsonrpc": "2.0", "id": "probe", "error": error_obj(-32000, shape)}, mode)
        return True
    except Exception:  # noqa: BLE001
        return False


# ---------------------------------------------------------------------------
def _judge_raise(o: Dict[str, Any], code: int, shape, via: str, viol: List[dict], ctx: str, msg_text: Any = "__shape__") -> str:
    """Judge one driven call that must have raised the classified exception."""
    exp = expected_class(code)

    def bad(cls, msg, **extra):
        viol.append({"sig": {"class": cls, "via": via, "expected": exp, **extra}, "msg": f"{msg}; {ctx}"})

    if o["status"] != "ok":
        bad("did-not-finish", f"call ended with {o['status']} {o.get('detail')}", status=o["status"])
        return "did-not-finish"
    if o["outcome"] == "returned":
        bad("error-completed-normally", f"returned {o['value']!r} for an error response")
        return "returned"
    info = hd.exc_info(o["exc"])
    if info["retryable"] == info["nonretryable"]:
        bad("error-not-classified", f"raised {info['cls']}: {info['str'][:120]}", got=info["cls"])
        return "unclassified"
    got = "retryable" if info["retryable"] else "nonretryable"
    if got != exp:
        bad("classification-wrong", f"code {code} raised {info['cls']}, documented sets say {exp}", got=got)
    if not (info["code_type"] == "int" and info["code"] == code):
        bad("code-not-carried", f"exception .code = {info['code']!r} ({info['code_type']}), server sent {code}")
    stated = [int(x) for x in re.findall(r"code:\s*(-?\d+)", info["str"])]
    if any(x != code for x in stated):
        bad("text-states-another-code", f"str(e) = {info['str']!r} names code {stated}, server sent {code}")
    m = MESSAGES[shape[0]][1] if msg_text == "__shape__" else msg_text
    if m is not None and m not in info["str"]:
        bad("message-not-carried", f"str(e) = {info['str']!r} lacks the server's message {m!r}")
    if o["errors"]:
        bad("loop-error", f"event loop reported {o['errors'][:2]}")
    if o["leftover"]:
        bad("leftover-tasks", f"{o['leftover']} tasks pending after the call")
    return got


def _run_sets(cfg) -> Dict[str, Any]:
    from chuk_mcp.protocol.types import errors as E

    viol = []

    def bad(what, msg):
        viol.append({"sig": {"class": "set-inconsistency", "what": what}, "msg": msg})

    table = getattr(E, "ERROR_MESSAGES", None)
    if not isinstance(table, dict):
        raise core.HarnessError("errors.py no longer has the ERROR_MESSAGES table the check reads the named codes from")
    named_tbl = set(table)
    consts = {n: v for n, v in vars(E).items()
              if n.isupper() and isinstance(v, int) and not isinstance(v, bool)
              and not n.endswith(("_START", "_END"))}
    named = named_tbl | set(consts.values())
    P, R = set(PERMANENT), set(RETRYABLE)
    if P & R:
        bad("pinned-overlap", f"pinned sets overlap: {sorted(P & R)}")
    lib_p = set(getattr(E, "NON_RETRYABLE_ERRORS", set()))
    lib_r = set(getattr(E, "RETRYABLE_ERRORS", set()))
    if lib_p & lib_r:
        bad("library-sets-overlap", f"NON_RETRYABLE_ERRORS and RETRYABLE_ERRORS share {sorted(lib_p & lib_r)}")
    if lib_p != P:
        bad("permanent-set-differs", f"NON_RETRYABLE_ERRORS {sorted(lib_p)} != documented permanent set {sorted(P)}")
    if lib_r != R:
        bad("retryable-set-differs", f"RETRYABLE_ERRORS {sorted(lib_r)} != documented retryable set {sorted(R)}")
    if named != (P | R):
        bad("named-codes-not-partitioned",
            f"named codes {sorted(named)} != permanent|retryable {sorted(P | R)}: "
            f"unclassified {sorted(named - (P | R))}, unnamed {sorted((P | R) - named)}")
    for n, v in sorted(consts.items()):
        if (v in lib_p) == (v in lib_r):
            bad("named-code-not-in-exactly-one-set", f"{n}={v} in permanent={v in lib_p} retryable={v in lib_r}")
    for c, n in {**PERMANENT, **RETRYABLE}.items():
        if consts.get(n) != c:
            bad("constant-value", f"{n} is {consts.get(n)!r}, documented {c}")
    return {"outcome": "sets", "violations": viol,
            "counters": {"named_codes": len(named), "named_constants": len(consts)},
            "named": sorted(named)}


def _run_fn(cfg) -> Dict[str, Any]:
    from chuk_mcp.protocol.types.errors import is_retryable_error

    codes = EXTRAS if cfg.get("extras") else range(cfg["lo"], cfg["hi"] + 1)
    viol = []
    n = nperm = 0
    for c in codes:
        n += 1
        exp = c not in PERMANENT
        nperm += (not exp)
        try:
            r = is_retryable_error(c)
        except BaseException as e:  # noqa: BLE001
            viol.append({"sig": {"class": "classification-not-total", "via": "is_retryable_error"},
                         "msg": f"is_retryable_error({c}) raised {e!r}"})
            continue
        if r is not True and r is not False:
            viol.append({"sig": {"class": "classification-not-boolean", "via": "is_retryable_error"},
                         "msg": f"is_retryable_error({c}) returned {r!r}"})
        elif r != exp:
            viol.append({"sig": {"class": "classification-wrong", "via": "is_retryable_error",
                                 "expected": expected_class(c)},
                         "msg": f"is_retryable_error({c}) = {r}, documented sets say {exp}"})
    return {"outcome": "fn:" + ("has-permanent" if nperm else "all-retryable"), "violations": viol[:20],
            "counters": {"fn_evaluations": n, "fn_permanent_codes": nperm},
            "block": [cfg.get("lo"), cfg.get("hi"), bool(cfg.get("extras"))]}


def _run_sm(cfg) -> Dict[str, Any]:
    from chuk_mcp.protocol.messages.send_message import send_message

    code = cfg["code"]
    viol: List[dict] = []
    counters = {"sm_calls": 0, "sm_unrepresentable": 0}
    got_all = set()
    boundary = set(boundary_codes())
    for mode in ("parsed", "constructed"):
        for shape in SHAPES:
            if mode == "constructed" and (shape[0] >= N_PLAIN_MESSAGES or shape[1] >= N_PLAIN_DATAS) and code not in boundary:
                continue  # special texts through the second route: boundary codes only
            if not representable(shape, mode):
                counters["sm_unrepresentable"] += 1
                continue
            err = error_obj(code, shape)

            def script(req, n, err=err, mode=mode):
                return [hd.incoming({"jsonrpc": "2.0", "id": req["id"], "error": err}, mode)]

            o = hd.drive(send_message, {"method": "tools/list", "params": {"a": None}}, script, timeout=2.0)
            if o["status"] == "ok" and o["requests"] != 1:
                raise core.HarnessError(f"send_message wrote {o['requests']} requests")
            counters["sm_calls"] += 1
            got_all.add(_judge_raise(o, code, shape, "send_message", viol,
                                     f"code={code} shape={shape_name(shape)} incoming={mode}"))
    return {"outcome": "sm:" + "+".join(sorted(got_all)), "violations": viol[:12], "counters": counters, "code": code}


def _run_helper(cfg) -> Dict[str, Any]:
    name = cfg["helper"]
    func = hd.resolve(name)
    sname = hd.short(name)
    viol: List[dict] = []
    counters = {"helper_calls": 0, "helper_unrepresentable": 0}
    outs = set()
    try:
        ret = inspect.signature(func).return_annotation
    except Exception:  # noqa: BLE001
        ret = None
    named_bool = sname in BOOL_HELPERS
    other_bool = (ret is bool or ret == "bool") and not named_bool
    which = cfg.get("shapes", "all")
    shapes = {"all": SHAPES, "plain": [sh for sh in SHAPES if sh[0] < N_PLAIN_MESSAGES and sh[1] < N_PLAIN_DATAS],
              "few": [(1, 0), (2, 3)]}[which]
    for code in cfg["codes"]:
        for shape in shapes:
            if not representable(shape, "parsed"):
                counters["helper_unrepresentable"] += 1
                continue
            err = error_obj(code, shape)
            prof = hd.Profile(rich=cfg["rich"], arm=cfg["arm"])
            try:
                kw = hd.build_kwargs(func, prof)
            except hd.Uncallable as e:
                raise core.HarnessError(f"discovered helper {name} cannot be called: {e}") from None

            def script(req, n, err=err):
                return [hd.incoming({"jsonrpc": "2.0", "id": req["id"], "error": err}, "parsed")]

            o = hd.drive(func, kw, script, timeout=2.0)
            if o["status"] == "ok" and o["requests"] < 1:
                raise core.HarnessError(
                    f"helper {name} finished without writing a request ({o['outcome']}: "
                    f"{o.get('exc', o.get('value'))!r}) - arguments {sorted(kw)} not accepted")
            counters["helper_calls"] += 1
            ctx = f"helper={sname} code={code} shape={shape_name(shape)} args={'rich' if cfg['rich'] else 'min'}/{cfg['arm']}"
            if named_bool:
                if o["status"] != "ok":
                    viol.append({"sig": {"class": "did-not-finish", "via": sname, "status": o["status"]},
                                 "msg": f"call ended with {o['status']}; {ctx}"})
                    outs.add("did-not-finish")
                elif o["outcome"] == "raised":
                    viol.append({"sig": {"class": "bool-helper-raised", "via": sname},
                                 "msg": f"raised {hd.exc_info(o['exc'])['cls']}: {str(o['exc'])[:120]} instead of returning False; {ctx}"})
                    outs.add("raised")
                elif o["value"] is not False:
                    viol.append({"sig": {"class": "bool-helper-did-not-report-false", "via": sname},
                                 "msg": f"returned {o['value']!r} for an error response; {ctx}"})
                    outs.add("returned-other")
                else:
                    outs.add("false")
                if o["status"] == "ok" and (o["errors"] or o["leftover"]):
                    viol.append({"sig": {"class": "loop-error", "via": sname},
                                 "msg": f"errors={o['errors'][:2]} leftover={o['leftover']}; {ctx}"})
            elif other_bool and o["status"] == "ok" and o["outcome"] == "returned" and o["value"] is False:
                outs.add("false(unnamed-bool-helper)")
            else:
                outs.add(_judge_raise(o, code, shape, sname, viol, ctx))
    return {"outcome": f"helper:{'+'.join(sorted(outs))}", "violations": viol[:12], "counters": counters,
            "helper": sname, "n_codes": len(cfg["codes"])}


def _run_baseline(cfg) -> Dict[str, Any]:
    """Success answer: the helper must not raise a classified JSON-RPC error (the error path is not vacuous)."""
    name = cfg["helper"]
    func = hd.resolve(name)
    prof = hd.Profile(rich=cfg["rich"], arm=cfg["arm"])
    try:
        kw = hd.build_kwargs(func, prof)
    except hd.Uncallable as e:
        raise core.HarnessError(f"discovered helper {name} cannot be called: {e}") from None

    def script(req, n):
        return [hd.incoming({"jsonrpc": "2.0", "id": req["id"], "result": hd.result_for(func, req)})]

    o = hd.drive(func, kw, script, timeout=2.0)
    if o["status"] != "ok" or o["requests"] < 1:
        raise core.HarnessError(f"baseline call of {name} did not work: {o['status']} requests={o.get('requests')}")
    if o["outcome"] == "raised":
        info = hd.exc_info(o["exc"])
        if info["retryable"] or info["nonretryable"]:
            raise core.HarnessError(f"baseline call of {name} raised a classified error on a success response: {info}")
        out = "baseline:raised-" + info["cls"]
    else:
        out = "baseline:returned"
    return {"outcome": out, "violations": [], "counters": {"baseline_calls": 1}, "helper": hd.short(name)}


# Messages that mention the protocol version.  send_initialize documents ONE translation: an
# INVALID_PARAMS (-32602) error with such a text becomes VersionMismatchError.  For every other code the
# error must surface as the classified exception like anywhere else - also when the text is the
# library's own default description of a message-less error (-32008: "Protocol version mismatch").
PV_MESSAGES = ["Unsupported protocol version: 2025-06-18", "PROTOCOL VERSION mismatch", "bad Protocol Version",
               "server says: protocol version not supported"]


def _run_initpv(cfg) -> Dict[str, Any]:
    name = cfg["helper"]
    func = hd.resolve(name)
    sname = hd.short(name)
    viol: List[dict] = []
    counters = {"initpv_calls": 0}
    outs = set()
    variants = [("parsed", m) for m in PV_MESSAGES] + [("constructed", None)]
    for code in cfg["codes"]:
        for mode, text in variants:
            err: Dict[str, Any] = {"code": code}
            if text is not None:
                err["message"] = text
            try:
                hd.incoming({"jsonrpc": "2.0", "id": "probe", "error": err}, mode)
            except Exception:  # noqa: BLE001
                counters["initpv_unrepresentable"] = counters.get("initpv_unrepresentable", 0) + 1
                continue
            kw = hd.build_kwargs(func, hd.Profile())

            def script(req, n, err=err, mode=mode):
                return [hd.incoming({"jsonrpc": "2.0", "id": req["id"], "error": err}, mode)]

            o = hd.drive(func, kw, script, timeout=2.0)
            if o["status"] == "ok" and o["requests"] < 1:
                raise core.HarnessError(f"helper {name} finished without writing a request")
            counters["initpv_calls"] += 1
            ctx = (f"helper={sname} code={code} message={text!r} incoming={mode}"
                   + ("" if text is not None else " (no message: the library's default text for the code is used)"))
            if code == -32602 and text is not None:
                cls = hd.exc_info(o["exc"])["cls"] if o.get("outcome") == "raised" else str(o.get("outcome"))
                counters["recorded:documented-translation(-32602 + protocol version text):" + cls] = \
                    counters.get("recorded:documented-translation(-32602 + protocol version text):" + cls, 0) + 1
                outs.add("documented-translation")
                continue
            outs.add(_judge_raise(o, code, (0, 0), sname, viol, ctx, msg_text=text))
    return {"outcome": "initpv:" + "+".join(sorted(outs)), "violations": viol[:12], "counters": counters,
            "helper": sname, "n_codes": len(cfg["codes"])}


def _run_record(cfg) -> Dict[str, Any]:
    """Recorded, not judged: send_initialize documents a third exception (VersionMismatchError)
    for an INVALID_PARAMS error whose message mentions the protocol version."""
    func = hd.resolve(cfg["helper"])
    err = {"code": -32602, "message": "Unsupported protocol version: 2025-06-18"}

    def script(req, n):
        return [hd.incoming({"jsonrpc": "2.0", "id": req["id"], "error": err})]

    o = hd.drive(func, hd.build_kwargs(func, hd.Profile()), script, timeout=2.0)
    cls = hd.exc_info(o["exc"])["cls"] if o.get("outcome") == "raised" else str(o.get("outcome"))
    return {"outcome": "recorded:" + cls, "violations": [], "counters": {"recorded:" + hd.short(cfg["helper"]) + ":" + cls: 1}}


# ---------------------------------------------------------------------------
# state carried between calls: the documented sets are module-level objects
# ---------------------------------------------------------------------------
def _module_state_problems() -> List[str]:
    """How the errors module's code tables differ from the pinned sets right now ([] = intact)."""
    from chuk_mcp.protocol.types import errors as E

    out = []
    P, R = set(PERMANENT), set(RETRYABLE)
    lp, lr = getattr(E, "NON_RETRYABLE_ERRORS", None), getattr(E, "RETRYABLE_ERRORS", None)
    if lp is None or lr is None:
        return out  # the set-algebra part reports a missing table
    if set(lp) != P:
        out.append(f"NON_RETRYABLE_ERRORS is now {sorted(lp)} (documented {sorted(P)})")
    if set(lr) != R:
        out.append(f"RETRYABLE_ERRORS is now {sorted(lr)} (documented {sorted(R)})")
    if set(lp) & set(lr):
        out.append(f"the two sets share {sorted(set(lp) & set(lr))}")
    tbl = getattr(E, "ERROR_MESSAGES", None)
    if isinstance(tbl, dict) and set(tbl) != (P | R):
        out.append(f"ERROR_MESSAGES keys are now {sorted(tbl)}")
    return out


def _restore_module_state() -> None:
    """After a contamination has been REPORTED, put the tables back so that later executions in this
    worker start from the documented state again (keeps the exploration deterministic)."""
    from chuk_mcp.protocol.types import errors as E

    for name, want in (("NON_RETRYABLE_ERRORS", set(PERMANENT)), ("RETRYABLE_ERRORS", set(RETRYABLE))):
        cur = getattr(E, name, None)
        if isinstance(cur, set) and cur != want:
            cur.clear()
            cur.update(want)


def _state_guard(where: str, viol: List[dict], **sig) -> bool:
    probs = _module_state_problems()
    if probs:
        viol.append({"sig": {"class": "documented-sets-changed-at-runtime", **sig},
                     "msg": f"{where}: " + "; ".join(probs)})
        _restore_module_state()
        return False
    return True


def discover_errors_api() -> Dict[str, List[str]]:
    """Public functions, exception classes and container constants of the errors module (introspection)."""
    from chuk_mcp.protocol.types import errors as E

    fns, classes, consts = [], [], []
    for n, o in sorted(vars(E).items()):
        if n.startswith("_"):
            continue
        if inspect.isfunction(o) and o.__module__ == E.__name__:
            fns.append(n)
        elif inspect.isclass(o) and o.__module__ == E.__name__:
            classes.append(n)
            for n2, o2 in sorted(vars(o).items()):
                if not n2.startswith("_") and isinstance(o2, (classmethod, staticmethod)):
                    fns.append(f"{n}.{n2}")
        elif isinstance(o, (set, frozenset, dict, list)) and n.isupper():
            consts.append(n)
    return {"functions": fns, "classes": classes, "constants": consts}


ORDER_CODES = [-32603, -32600, -32000, -32004, 0, -1, 2 ** 63]


def _call_api(name: str) -> int:
    """Call one public callable of the errors module with type-directed arguments for each probe code.
    Returns the number of calls; exceptions the callable raises itself are its own business here."""
    from chuk_mcp.protocol.types import errors as E

    obj: Any = E
    for part in name.split("."):
        obj = getattr(obj, part)
    n = 0
    for code in ORDER_CODES:
        fixed = {"code": code, "error": {"code": code, "message": "m", "data": {"requested": "x", "supported": ["y"]}}}
        sig_params = inspect.signature(obj).parameters
        try:
            kw = hd.build_kwargs(obj, hd.Profile(rich=True), skip=(), fixed={k: v for k, v in fixed.items() if k in sig_params})
        except hd.Uncallable as e:
            raise core.HarnessError(f"public callable errors.{name} cannot be called with type-directed arguments: {e}") from None
        try:
            r = obj(**kw)
            n += 1
            if isinstance(r, BaseException):
                str(r)
                for m in ("to_json_rpc_error",):
                    if hasattr(r, m):
                        getattr(r, m)()
        except Exception:  # noqa: BLE001
            n += 1
        if "code" not in sig_params and "error" not in sig_params:
            break
    return n


def _classification_intact(viol: List[dict], after: str, counters: Dict[str, int]) -> None:
    from chuk_mcp.protocol.messages.send_message import send_message
    from chuk_mcp.protocol.types.errors import is_retryable_error

    _state_guard(f"after calling {after}", viol, after=after.split("(")[0])
    for c in boundary_codes():
        try:
            r = is_retryable_error(c)
        except BaseException as e:  # noqa: BLE001
            r = repr(e)
        if r is not (c not in PERMANENT):
            viol.append({"sig": {"class": "classification-wrong", "via": "is_retryable_error", "expected": expected_class(c),
                                 "order": "after-other-call"},
                         "msg": f"after calling {after}: is_retryable_error({c}) = {r!r}"})
            break
    for c in list(PERMANENT) + list(RETRYABLE):
        err = {"code": c, "message": MSG}

        def script(req, n, err=err):
            return [hd.incoming({"jsonrpc": "2.0", "id": req["id"], "error": err})]

        o = hd.drive(send_message, {"method": "tools/list"}, script, timeout=2.0)
        counters["order_sm_calls"] = counters.get("order_sm_calls", 0) + 1
        sub: List[dict] = []
        _judge_raise(o, c, (2, 0), "send_message", sub, f"after calling {after}: code={c}")
        for v in sub:
            v["sig"] = {**v["sig"], "order": "after-other-call"}
        viol.extend(sub[:2])


def _run_order(cfg) -> Dict[str, Any]:
    f, g = cfg["first"], cfg["second"]
    viol: List[dict] = []
    counters: Dict[str, int] = {"order_pairs": 1}
    counters["order_api_calls"] = _call_api(f)
    _classification_intact(viol, f, counters)
    counters["order_api_calls"] += _call_api(g)
    _classification_intact(viol, f"{f} then {g}", counters)
    _restore_module_state()
    return {"outcome": "order:" + ("intact" if not viol else "changed") + (":same" if f == g else ":pair"),
            "violations": viol[:10], "counters": counters, "pair": [f, g]}


def run_one(ctl: explorer.Ctl, cfg: Dict[str, Any]) -> Dict[str, Any]:
    pre: List[dict] = []
    _state_guard("at the start of an execution (left behind by an earlier call in this process)", pre, after="earlier-execution")
    obs = _run_part(ctl, cfg)
    post: List[dict] = []
    _state_guard(f"at the end of part {cfg.get('part')}", post, after="part:" + str(cfg.get("part")))
    if pre or post:
        obs = dict(obs)
        obs["violations"] = pre + list(obs.get("violations") or []) + post
    for v in obs.get("violations") or []:
        # texts of the alphabet contain unpaired surrogates: keep every report printable
        v["msg"] = str(v.get("msg", "")).encode("utf-8", "backslashreplace").decode("utf-8")
        for k, x in list((v.get("sig") or {}).items()):
            if isinstance(x, str):
                v["sig"][k] = x.encode("utf-8", "backslashreplace").decode("utf-8")
    return obs


# ---------------------------------------------------------------------------
# two calls in flight at the same time / one after the other, sharing the caller's params dict
# ---------------------------------------------------------------------------
PAIR_CODES = [-32601, -32603, 0, -32000]
PAIR_PARAMS = [{}, {"a": None, "n": [1]}, {"_meta": {"x": 1}, "k": "v"}]
PAIR_ANSWERS = ([("E", a, "E", b) for a in range(len(PAIR_CODES)) for b in range(len(PAIR_CODES))]
                + [("E", a, "R", None) for a in range(len(PAIR_CODES))] + [("R", None, "E", b) for b in range(len(PAIR_CODES))])


def _run_pair(cfg) -> Dict[str, Any]:
    import asyncio
    import copy
    import math

    import anyio
    from chuk_mcp.protocol.messages.send_message import send_message

    from .. import seams
    from ..vloop import new_loop

    ka, ca, kb, cb_ = PAIR_ANSWERS[cfg["answers"]]
    answers = [(ka, None if ca is None else PAIR_CODES[ca]), (kb, None if cb_ is None else PAIR_CODES[cb_])]
    use_cb = cfg["callbacks"]  # [bool, bool]
    base = PAIR_PARAMS[cfg["params"]]
    shared = copy.deepcopy(base)
    plist = [shared, shared] if cfg["sharing"] == "shared" else [copy.deepcopy(base), copy.deepcopy(base)]
    mode = cfg["mode"]  # "A-first" | "B-first" (concurrent, order of the answers) | "sequential"
    loop = new_loop(horizon=60)
    q = seams.Quiescence(loop)
    outs: List[Any] = [None, None]
    state: Dict[str, Any] = {"reqs": [None, None], "send_r": [None, None]}

    with sched.patched_uuid():
        async def main():
            async def progress(p, t, m):
                return None

            async def one(i):
                send_w, recv_w = anyio.create_memory_object_stream(math.inf)
                send_r, recv_r = anyio.create_memory_object_stream(math.inf)
                state["send_r"][i] = send_r

                async def watch():
                    async for msg in recv_w:
                        w = hd.dump(msg)
                        if isinstance(w, dict) and "method" in w and w.get("id") is not None and state["reqs"][i] is None:
                            state["reqs"][i] = w

                wt = asyncio.ensure_future(watch())
                kw: Dict[str, Any] = {"timeout": 5.0}
                if use_cb[i]:
                    kw["progress_callback"] = progress
                try:
                    r = await send_message(recv_r, send_w, "tools/call", plist[i], **kw)
                    outs[i] = ("returned", r)
                except BaseException as e:  # noqa: BLE001
                    if isinstance(e, (KeyboardInterrupt, SystemExit)):
                        raise
                    hd._strip_tracebacks(e)
                    outs[i] = ("raised", e)
                send_w.close()
                try:
                    await asyncio.wait_for(wt, 5)
                except BaseException:  # noqa: BLE001
                    pass

            def answer(i):
                req = state["reqs"][i]
                if req is None:
                    return
                kind, code = answers[i]
                if kind == "E":
                    wire = {"jsonrpc": "2.0", "id": req["id"], "error": {"code": code, "message": MSG}}
                else:
                    wire = {"jsonrpc": "2.0", "id": req["id"], "result": {"ok": i}}
                state["send_r"][i].send_nowait(hd.incoming(wire))

            if mode == "sequential":
                for i in (0, 1):
                    t = asyncio.ensure_future(one(i))
                    await q.settle()
                    answer(i)
                    await q.settle()
                    await asyncio.wait_for(t, 20)
            else:
                ts = [asyncio.ensure_future(one(0))]
                await q.settle()
                ts.append(asyncio.ensure_future(one(1)))
                await q.settle()
                for i in ((0, 1) if mode == "A-first" else (1, 0)):
                    answer(i)
                    await q.settle()
                await asyncio.wait_for(asyncio.gather(*ts), 20)

        status, val = loop.run_main(main())
        errors = loop.collect_errors()
        loop.abandon()
    viol: List[dict] = []
    where = (f"two send_message calls ({mode}), params dict {cfg['sharing']} between them (initially {base}), "
             f"progress callbacks {use_cb}, answers {answers}")
    scen = {"scenario": "two-calls", "sharing": cfg["sharing"], "mode": "sequential" if mode == "sequential" else "concurrent"}
    if status != "ok":
        viol.append({"sig": {"class": "did-not-finish", **scen, "status": status}, "msg": f"{status}: {val!r}; {where}"})
        return {"outcome": "pair:" + status, "violations": viol, "counters": {"pair_scenarios": 1}}
    got = []
    for i, (kind, code) in enumerate(answers):
        o = {"status": "ok", "errors": [], "leftover": 0}
        if outs[i] is None or state["reqs"][i] is None:
            raise core.HarnessError(f"call #{i} did not write a request or did not finish ({where})")
        o["outcome"] = outs[i][0]
        o["value" if outs[i][0] == "returned" else "exc"] = outs[i][1]
        ctx = f"call #{'AB'[i]}; {where}"
        if kind == "E":
            sub: List[dict] = []
            got.append(_judge_raise(o, code, (2, 0), "send_message", sub, ctx))
            for v in sub:
                v["sig"] = {**v["sig"], **scen}
            viol.extend(sub)
        else:
            if outs[i][0] != "returned" or outs[i][1] != {"ok": i}:
                what = repr(outs[i][1])[:120]
                viol.append({"sig": {"class": "result-not-returned", **scen,
                                     "got": outs[i][0] if outs[i][0] == "returned" else type(outs[i][1]).__name__},
                             "msg": f"a call answered with a result {outs[i][0]} {what}; {ctx}"})
            got.append("result")
    if errors:
        viol.append({"sig": {"class": "loop-error", **scen}, "msg": f"{errors[:2]}; {where}"})
    return {"outcome": "pair:" + "+".join(got), "violations": viol[:10], "counters": {"pair_scenarios": 1, "pair_calls": 2}}


# ---------------------------------------------------------------------------
# boolean helpers against a peer whose answers differ from request to request
# ---------------------------------------------------------------------------
SEQ_SECOND = [("result", None), ("error", -32601), ("error", -32603), ("silence", None)]


def _run_boolseq(cfg) -> Dict[str, Any]:
    name = cfg["helper"]
    func = hd.resolve(name)
    sname = hd.short(name)
    viol: List[dict] = []
    counters = {"boolseq_calls": 0}
    outs = set()
    firsts = [("error", c) for c in cfg["codes"]] + ([("result", None)] if cfg.get("with_result_first") else [])
    for first in firsts:
        for second in SEQ_SECOND:
            plan = [first, second]

            def script(req, n, plan=plan):
                kind, code = plan[n] if n < len(plan) else ("silence", None)
                if kind == "silence":
                    return []
                if kind == "error":
                    return [hd.incoming({"jsonrpc": "2.0", "id": req["id"], "error": {"code": code, "message": MSG}})]
                return [hd.incoming({"jsonrpc": "2.0", "id": req["id"], "result": {}})]

            o = hd.drive(func, hd.build_kwargs(func, hd.Profile()), script, timeout=2.0)
            counters["boolseq_calls"] += 1
            ctx = f"helper={sname}; the peer answers request #1 with {first}, a request #2 (if any) with {second}"
            sig = {"via": sname, "scenario": "answers-differ-per-request", "first": first[0],
                   "first-code": "retryable" if first[1] is not None and first[1] not in PERMANENT else
                   ("permanent" if first[1] is not None else "-")}
            if o["status"] != "ok":
                viol.append({"sig": {"class": "did-not-finish", **sig, "status": o["status"]}, "msg": f"{o['status']}; {ctx}"})
                outs.add(o["status"])
                continue
            want = first[0] == "result"
            if o["outcome"] == "raised":
                viol.append({"sig": {"class": "bool-helper-raised", **sig},
                             "msg": f"raised {hd.exc_info(o['exc'])['cls']}: {str(o['exc'])[:100]!r}; {ctx}"})
                outs.add("raised")
            elif o["value"] is not want:
                viol.append({"sig": {"class": "bool-helper-did-not-report-first-answer", **sig, "second": second[0]},
                             "msg": f"returned {o['value']!r}, the answer to its request was {first} (expected {want}); {ctx}"})
                outs.add("wrong")
            else:
                outs.add(str(want))
            if o["requests"] != 1:
                viol.append({"sig": {"class": "request-count", **sig, "requests": min(o["requests"], 3)},
                             "msg": f"{o['requests']} requests written for one call; {ctx}"})
            if o["errors"] or o["leftover"]:
                viol.append({"sig": {"class": "loop-error", **sig}, "msg": f"errors={o['errors'][:2]} leftover={o['leftover']}; {ctx}"})
    return {"outcome": "boolseq:" + "+".join(sorted(outs)), "violations": viol[:12], "counters": counters, "helper": sname}


# ---------------------------------------------------------------------------
# the same error answer over every carrier: memory streams are not the only inbound path
# ---------------------------------------------------------------------------
NULL_COMPANIONS = [{}, {"result": None}, {"result": None, "params": None}, {"params": None}, {"method": None, "result": None}]
CARRIERS = ["stdio", "http-json-body", "http-sse-body", "sse-event-stream", "sse-immediate-json"]


def _run_carrier(cfg) -> Dict[str, Any]:
    import json

    import httpx
    from chuk_mcp.protocol.messages.send_message import send_message

    from .. import seams
    from ..seams_http import ScriptedStream, patched_httpx
    from ..vloop import new_loop

    carrier = CARRIERS[cfg["carrier"]]
    code = cfg["code"]
    shapes = [sh for sh in ({"all": SHAPES, "few": [(1, 0), (2, 0), (2, 3), (3, 0), (5, 0)]}[cfg["shapes"]]) if representable(sh, "parsed")]
    # texts no JSON encoder puts on a real wire are kept to the in-memory parts
    shapes = [sh for sh in shapes if _wire_safe(error_obj(code, sh))]
    loop = new_loop(horizon=600)
    q = seams.Quiescence(loop)
    results: List[tuple] = []
    state: Dict[str, Any] = {"err": None, "extra": {}}

    def response_for(req_id):
        return {"jsonrpc": "2.0", "id": req_id, "error": state["err"], **state["extra"]}

    async def calls(read, write):
        for i, sh in enumerate(shapes):
            # serialisers that do not omit empty members: the error response also carries explicit nulls
            for extra in (NULL_COMPANIONS if i < 3 else NULL_COMPANIONS[:1]):
                state["err"] = error_obj(code, sh)
                state["extra"] = dict(extra)
                try:
                    r = await send_message(read, write, "tools/list", {"a": None}, timeout=3.0)
                    results.append((sh, "returned", r, extra))
                except BaseException as e:  # noqa: BLE001
                    if isinstance(e, (KeyboardInterrupt, SystemExit)):
                        raise
                    hd._strip_tracebacks(e)
                    results.append((sh, "raised", e, extra))
                await q.settle()

    async def main():
        if carrier == "stdio":
            from chuk_mcp.transports.stdio.stdio_client import StdioClient

            proc = seams.FakeProcess()

            def on_stdin(data: bytes):
                for raw in data.split(b"\n"):
                    if raw.strip():
                        msg = json.loads(raw)
                        if msg.get("method") and msg.get("id") is not None:
                            proc.stdout.feed((json.dumps(response_for(msg["id"])) + "\n").encode())

            proc.on_stdin = on_stdin
            with seams.patched_open_process(lambda cmd, kw: proc):
                async with StdioClient(seams.stdio_params()) as client:
                    read, write = client.get_streams()
                    await calls(read, write)
            return
        if carrier.startswith("http-"):
            from chuk_mcp.transports.http.http_client import http_client
            from chuk_mcp.transports.http.parameters import StreamableHTTPParameters

            def handler(rec):
                body = rec.json()
                if not isinstance(body, dict) or body.get("id") is None:
                    return httpx.Response(202, content=b"")
                payload = json.dumps(response_for(body["id"]))
                if carrier == "http-json-body":
                    return httpx.Response(200, headers={"content-type": "application/json"}, content=payload.encode())
                return httpx.Response(200, headers={"content-type": "text/event-stream"},
                                      content=("event: message\ndata: " + payload + "\n\n").encode())

            with patched_httpx(handler):
                async with http_client(StreamableHTTPParameters(url="http://mcp.test/mcp", timeout=5.0)) as (read, write):
                    await calls(read, write)
            return
        from chuk_mcp.transports.sse.parameters import SSEParameters
        from chuk_mcp.transports.sse.sse_client import sse_client

        stream = ScriptedStream()
        stream.feed(b"event: endpoint\ndata: /messages/?session_id=abc\n\n")

        def handler(rec):
            if rec.method == "GET":
                return httpx.Response(200, headers={"content-type": "text/event-stream"}, stream=stream)
            body = rec.json()
            if not isinstance(body, dict) or body.get("id") is None:
                return httpx.Response(202, content=b"")
            payload = json.dumps(response_for(body["id"]))
            if carrier == "sse-immediate-json":
                return httpx.Response(200, headers={"content-type": "application/json"}, content=payload.encode())
            stream.feed(("event: message\ndata: " + payload + "\n\n").encode())
            return httpx.Response(202, content=b"")

        with patched_httpx(handler):
            async with sse_client(SSEParameters(url="http://sse.test", timeout=5.0)) as (read, write):
                await calls(read, write)

    with sched.patched_uuid():
        status, val = loop.run_main(main())
    errors = loop.collect_errors()
    loop.abandon()
    viol: List[dict] = []
    counters = {"carrier_calls": 0}
    if status != "ok":
        viol.append({"sig": {"class": "did-not-finish", "carrier": carrier, "status": status},
                     "msg": f"{status}: {val!r}; carrier={carrier} code={code}"})
        return {"outcome": "carrier:" + status, "violations": viol, "counters": counters}
    outs = set()
    for sh, kind, x, extra in results:
        counters["carrier_calls"] += 1
        o = {"status": "ok", "errors": [], "leftover": 0, "outcome": kind, ("value" if kind == "returned" else "exc"): x}
        sub: List[dict] = []
        comp = "+".join(sorted(extra)) or "none"
        outs.add(_judge_raise(o, code, sh, "send_message", sub,
                              f"carrier={carrier} code={code} shape={shape_name(sh)} explicit null members beside the error: {comp}"))
        for v in sub:
            v["sig"] = {**v["sig"], "carrier": carrier, "message": MESSAGES[sh[0]][0] if sh[0] < N_PLAIN_MESSAGES else "special",
                        "null-companions": comp}
        viol.extend(sub[:3])
    if errors:
        viol.append({"sig": {"class": "loop-error", "carrier": carrier}, "msg": f"{errors[:2]}; carrier={carrier} code={code}"})
    return {"outcome": f"carrier:{carrier}:" + "+".join(sorted(outs)), "violations": viol[:12], "counters": counters, "code": code}


def _wire_safe(x: Any) -> bool:
    import json

    try:
        json.dumps(x).encode("utf-8")
        json.dumps(x, ensure_ascii=False).encode("utf-8")
        return True
    except Exception:  # noqa: BLE001
        return False


# ---------------------------------------------------------------------------
# two calls of one helper on ONE connection: request ids, and a late answer to the first call
# ---------------------------------------------------------------------------
def _two_calls(func, kw, plan):
    """plan(i, request) -> list of incoming objects for call i's request (may be []); after call 1 returned,
    plan('late', request1) objects are put on the read stream and stay unread until call 2.
    Returns (status, [(outcome, value)], [request wires], errors)."""
    import asyncio
    import math

    import anyio

    from .. import seams
    from ..vloop import new_loop

    loop = new_loop(horizon=120)
    q = seams.Quiescence(loop)
    reqs: List[Any] = []
    outs: List[Any] = []

    with sched.patched_uuid():
        async def main():
            send_w, recv_w = anyio.create_memory_object_stream(math.inf)
            send_r, recv_r = anyio.create_memory_object_stream(math.inf)
            state = {"call": 0}

            async def responder():
                async for msg in recv_w:
                    w = hd.dump(msg)
                    if isinstance(w, dict) and "method" in w and w.get("id") is not None:
                        reqs.append((state["call"], w))
                        for obj in plan(state["call"], w) or []:
                            send_r.send_nowait(obj)

            rt = asyncio.ensure_future(responder())
            params = inspect.signature(func).parameters
            for i in (0, 1):
                state["call"] = i
                call = dict(kw)
                call["read_stream"], call["write_stream"] = recv_r, send_w
                if "timeout" in params:
                    call["timeout"] = 0.3 if i == 0 else 2.0
                try:
                    outs.append(("returned", await func(**call)))
                except BaseException as e:  # noqa: BLE001
                    if isinstance(e, (KeyboardInterrupt, SystemExit)):
                        raise
                    hd._strip_tracebacks(e)
                    outs.append(("raised", e))
                await q.settle()
                if i == 0:
                    first = [w for (c, w) in reqs if c == 0]
                    if first:
                        for obj in plan("late", first[0]) or []:
                            send_r.send_nowait(obj)
                    await q.settle()
            send_w.close()
            try:
                await asyncio.wait_for(rt, 5)
            except BaseException:  # noqa: BLE001
                pass

        status, val = loop.run_main(main())
        errors = loop.collect_errors()
        loop.abandon()
    return status, val, outs, reqs, errors


def _run_twice(cfg) -> Dict[str, Any]:
    name = cfg["helper"]
    func = hd.resolve(name)
    sname = hd.short(name)
    viol: List[dict] = []
    counters = {"twice_scenarios": 0, "twice_calls": 0}
    outs_seen = set()
    try:
        kw = hd.build_kwargs(func, hd.Profile())
    except hd.Uncallable as e:
        raise core.HarnessError(f"discovered helper {name} cannot be called: {e}") from None
    is_bool = sname in BOOL_HELPERS
    for code in cfg["codes"]:
        # call 1: never answered in time; its (successful) answer arrives afterwards and stays unread.  call 2: answered with the error.
        def plan(i, req, code=code):
            if i == 0:
                return []
            if i == "late":
                return [hd.incoming({"jsonrpc": "2.0", "id": req["id"], "result": hd.result_for(func, req)})]
            return [hd.incoming({"jsonrpc": "2.0", "id": req["id"], "error": {"code": code, "message": MSG}})]

        status, val, outs, reqs, errors = _two_calls(func, kw, plan)
        counters["twice_scenarios"] += 1
        counters["twice_calls"] += len(outs)
        ctx = (f"helper={sname}: call 1 (timeout 0.3 s) gets no answer in time, its successful answer arrives afterwards; "
               f"call 2 on the same streams is answered with error {code}")
        scen = {"via": sname, "scenario": "late-answer-to-an-earlier-call"}
        if status != "ok" or len(outs) != 2:
            viol.append({"sig": {"class": "did-not-finish", **scen, "status": status}, "msg": f"{status}: {val!r}; {ctx}"})
            continue
        ids = [w["id"] for (_c, w) in reqs]
        if len(ids) != len(set(map(repr, ids))):
            viol.append({"sig": {"class": "request-id-reused", "via": sname},
                         "msg": f"two calls wrote requests with the SAME id ({len(ids)} requests, {len(set(map(repr, ids)))} distinct ids; "
                                f"the value is left out: an id fixed at import time differs from process to process); {ctx}"})
        per_call = [sum(1 for (c, _w) in reqs if c == i) for i in (0, 1)]
        if per_call != [1, 1]:
            viol.append({"sig": {"class": "request-count", **scen, "requests": min(max(per_call), 3)},
                         "msg": f"requests written per call {per_call}; {ctx}"})
        # call 1: a timeout (boolean helpers: False)
        k1, v1 = outs[0]
        if is_bool:
            if k1 != "returned" or v1 is not False:
                viol.append({"sig": {"class": "bool-helper-did-not-report-false", **scen, "call": 1},
                             "msg": f"call 1 {k1} {v1!r} although nothing arrived before its deadline; {ctx}"})
        elif not (k1 == "raised" and isinstance(v1, TimeoutError)):
            viol.append({"sig": {"class": "unanswered-call-did-not-time-out", **scen},
                         "msg": f"call 1 {k1} {v1!r} although nothing arrived before its deadline; {ctx}"})
        # call 2: its own answer is the error
        k2, v2 = outs[1]
        o = {"status": "ok", "errors": [], "leftover": 0, "outcome": k2, ("value" if k2 == "returned" else "exc"): v2}
        if is_bool:
            if k2 != "returned" or v2 is not False:
                viol.append({"sig": {"class": "bool-helper-did-not-report-false", **scen, "call": 2},
                             "msg": f"call 2 {k2} {v2!r} although ITS request was answered with error {code}; {ctx}"})
            outs_seen.add(str(v2) if k2 == "returned" else "raised")
        else:
            sub: List[dict] = []
            outs_seen.add(_judge_raise(o, code, (2, 0), sname, sub, ctx))
            for v in sub:
                v["sig"] = {**v["sig"], "scenario": "late-answer-to-an-earlier-call"}
            viol.extend(sub)
        if errors:
            viol.append({"sig": {"class": "loop-error", **scen}, "msg": f"{errors[:2]}; {ctx}"})
    return {"outcome": "twice:" + "+".join(sorted(outs_seen)), "violations": viol[:12], "counters": counters, "helper": sname}


# ---------------------------------------------------------------------------
# the error answer arrives BEHIND other traffic (thresholds around the poll loop and stream buffers)
# ---------------------------------------------------------------------------
BEHIND_K = [0, 1, 2, 99, 100, 101, 250]
BEHIND_KINDS = ["notifications", "responses-to-other-ids", "errors-for-other-ids-with-another-code", "server-requests", "mixed"]


def _run_behind(cfg) -> Dict[str, Any]:
    from chuk_mcp.protocol.messages.send_message import send_message

    code = cfg["code"]
    viol: List[dict] = []
    counters = {"behind_calls": 0}
    outs = set()
    other_code = -32603 if code in PERMANENT else -32601  # a code of the OTHER class
    for kind in BEHIND_KINDS:
        for k in BEHIND_K:
            def distractor(i, kind=kind):
                kk = kind if kind != "mixed" else BEHIND_KINDS[i % 4]
                if kk == "notifications":
                    return {"jsonrpc": "2.0", "method": "notifications/message", "params": {"i": i, "error": {"code": other_code}}}
                if kk == "responses-to-other-ids":
                    return {"jsonrpc": "2.0", "id": f"other-{i}", "result": {"i": i}}
                if kk == "errors-for-other-ids-with-another-code":
                    return {"jsonrpc": "2.0", "id": f"other-{i}", "error": {"code": other_code, "message": "not yours"}}
                return {"jsonrpc": "2.0", "id": f"srv-{i}", "method": "sampling/createMessage", "params": {"i": i}}

            def script(req, n, k=k):
                front = [hd.incoming(distractor(i)) for i in range(k)]
                return front + [hd.incoming({"jsonrpc": "2.0", "id": req["id"], "error": {"code": code, "message": MSG}}),
                                hd.incoming(distractor(k + 1))]

            o = hd.drive(send_message, {"method": "tools/list"}, script, timeout=5.0)
            counters["behind_calls"] += 1
            sub: List[dict] = []
            outs.add(_judge_raise(o, code, (2, 0), "send_message", sub,
                                  f"code={code}: the error response arrives behind {k} messages of kind {kind}"))
            for v in sub:
                v["sig"] = {**v["sig"], "scenario": "answer-behind-other-traffic", "traffic": kind,
                            "behind": "0" if k == 0 else ("<100" if k < 100 else ">=100")}
            viol.extend(sub[:2])
    return {"outcome": "behind:" + "+".join(sorted(outs)), "violations": viol[:12], "counters": counters, "code": code}


def _run_part(ctl: explorer.Ctl, cfg: Dict[str, Any]) -> Dict[str, Any]:
    part = cfg["part"]
    if part == "behind":
        return _run_behind(cfg)
    if part == "carrier":
        return _run_carrier(cfg)
    if part == "twice":
        return _run_twice(cfg)
    if part == "boolseq":
        return _run_boolseq(cfg)
    if part == "pair":
        return _run_pair(cfg)
    if part == "order":
        return _run_order(cfg)
    if part == "sets":
        return _run_sets(cfg)
    if part == "fn":
        return _run_fn(cfg)
    if part == "sm":
        return _run_sm(cfg)
    if part == "helper":
        return _run_helper(cfg)
    if part == "baseline":
        return _run_baseline(cfg)
    if part == "initpv":
        return _run_initpv(cfg)
    if part == "record":
        return _run_record(cfg)
    raise core.HarnessError(f"unknown part {part}")


# ---------------------------------------------------------------------------
def _pick(part, cfgs, note=None):
    """First, middle and last case of a part's enumeration, written out."""
    out = []
    for i in sorted({0, len(cfgs) // 2, len(cfgs) - 1}):
        d = {"part": part, "index": i, "case": cfgs[i]}
        if note:
            d["note"] = note
        out.append(d)
    return out


def _chunks(xs, n):
    return [xs[i:i + n] for i in range(0, len(xs), n)]


def run(tier: str, only=None) -> core.Result:
    res = core.Result("C07", "exploration")
    disc = hd.discover()
    for e in disc["import_errors"]:
        res.harness_errors.append(f"module could not be imported while discovering helpers: {e}")
    req_helpers = [h for h in disc["helpers"] if h["kind"] == hd.REQUEST]
    notif_helpers = [h for h in disc["helpers"] if h["kind"] == hd.NOTIFY]
    for h in disc["helpers"]:
        if h["kind"] == "unknown":
            res.harness_errors.append(f"discovered coroutine {h['name']}({', '.join(h['params'])}) takes no write_stream: "
                                      f"the driver does not know how to call it")
    profiles = [(False, 0), (True, 0), (True, 1)]
    for h in req_helpers:
        f = hd.resolve(h["name"])
        for rich, arm in profiles:
            try:
                hd.build_kwargs(f, hd.Profile(rich=rich, arm=arm))
            except hd.Uncallable as e:
                res.harness_errors.append(f"discovered helper {h['name']} cannot be called with type-directed arguments: {e}")
                break
    missing = BOOL_HELPERS - {hd.short(h["name"]) for h in req_helpers}
    if missing:
        res.harness_errors.append(f"boolean convenience calls named by the property not found in the package: {sorted(missing)}")
    if res.harness_errors:
        res.coverage.update({"evaluations": 0, "distinct_nontrivial": 0, "rule": "discovery failed", "samples": []})
        return res

    # (i) sets + function
    cfgs = [{"part": "sets"}]
    for lo, hi in (RANGE_A, RANGE_B):
        for a in range(lo, hi + 1, 100):
            cfgs.append({"part": "fn", "lo": a, "hi": min(hi, a + 99)})
    cfgs.append({"part": "fn", "extras": True})
    out = explorer.explore(RUN, cfgs)
    sched.absorb(res, "i-sets-and-function", RUN, out, cfgs)
    samples = _pick("i-sets-and-function", cfgs)

    # (i') every public callable of the errors module, in every order of pairs, classification re-checked after each call
    api = discover_errors_api()
    callables = api["functions"] + api["classes"]
    ocfgs = [{"part": "order", "first": f, "second": g} for f in callables for g in callables]
    out = explorer.explore(RUN, ocfgs)
    sched.absorb(res, "i-call-order-pairs", RUN, out, ocfgs, min_outcomes=1)
    samples += _pick("i-call-order-pairs", ocfgs)
    sched.debug_pass(res, "i-call-order-pairs", RUN, ocfgs, every=7)

    # (ii) send_message x every code
    codes = all_codes()
    cfgs = [{"part": "sm", "code": c} for c in codes]
    out = explorer.explore(RUN, cfgs)
    sched.absorb(res, "ii-send_message-all-codes", RUN, out, cfgs)
    sched.debug_pass(res, "ii-send_message-all-codes", RUN, cfgs, every=41)
    samples += _pick("ii-send_message-all-codes", cfgs, note=f"each x {len(SHAPES)} shapes x 2 incoming routes")

    # (ii') two calls in flight / in sequence, sharing the caller's params dict or not
    pcfgs = [{"part": "pair", "sharing": sh, "callbacks": [a, b], "answers": ai, "mode": mode, "params": pi}
             for sh in ("shared", "separate") for a in (False, True) for b in (False, True)
             for ai in range(len(PAIR_ANSWERS)) for mode in ("A-first", "B-first", "sequential") for pi in range(len(PAIR_PARAMS))]
    out = explorer.explore(RUN, pcfgs)
    sched.absorb(res, "ii-two-calls-sharing-params", RUN, out, pcfgs)
    samples += _pick("ii-two-calls-sharing-params", pcfgs)
    sched.debug_pass(res, "ii-two-calls-sharing-params", RUN, pcfgs, every=17)

    # (ii+) the answer arrives behind other traffic
    bh = sorted(set(PERMANENT) | set(RETRYABLE) | {0, -1, 2 ** 63})
    bhcfgs = [{"part": "behind", "code": c} for c in bh]
    out_bh = explorer.explore(RUN, bhcfgs)
    sched.absorb(res, "ii-answer-behind-other-traffic", RUN, out_bh, bhcfgs)
    samples += _pick("ii-answer-behind-other-traffic", bhcfgs)
    sched.debug_pass(res, "ii-answer-behind-other-traffic", RUN, bhcfgs, every=6)

    # (ii'') the same error answers through the real inbound paths of the three transports
    # byte carriers: the quantifier's 64-bit values; an integer outside [-2^63, 2^64-1] is not a 64-bit code (recorded as an assumption)
    ccodes = [c for c in (boundary_codes() if tier == "quick" else codes) if -(2 ** 63) <= c <= 2 ** 64 - 1]
    named = set(PERMANENT) | set(RETRYABLE) | {0, -1}
    ccfgs = [{"part": "carrier", "carrier": ci, "code": c, "shapes": ("all" if (c in named or tier == "thorough" and c % 50 == 0) else "few")}
             for ci in range(len(CARRIERS)) for c in ccodes]
    out_c = explorer.explore(RUN, ccfgs)
    sched.absorb(res, "ii-every-carrier", RUN, out_c, ccfgs)
    samples += _pick("ii-every-carrier", ccfgs)
    sched.debug_pass(res, "ii-every-carrier", RUN, ccfgs, every=(9 if tier == "quick" else 199))

    # (iii) every typed request helper
    hcodes = boundary_codes() if tier == "quick" else codes
    cfgs = []
    for h in req_helpers:
        for rich, arm in profiles:
            cfgs.append({"part": "baseline", "helper": h["name"], "rich": rich, "arm": arm})
    for h in req_helpers:
        if hd.short(h["name"]) in ("send_initialize", "send_initialize_with_client_tracking"):
            cfgs.append({"part": "record", "helper": h["name"]})
    out = explorer.explore(RUN, cfgs)
    sched.absorb(res, "iii-helpers-baseline", RUN, out, cfgs, min_outcomes=1)
    cfgs = []
    for h in req_helpers:
        for rich, arm in (profiles if tier == "quick" else profiles[:2]):
            for block in _chunks(hcodes, 4 if tier == "quick" else 8):
                cfgs.append({"part": "helper", "helper": h["name"], "rich": rich, "arm": arm, "codes": block,
                             "shapes": "all" if (rich, arm) == (False, 0) else "plain"})
    if tier == "quick":
        # the three boolean convenience calls get every code of the grid in both tiers
        for h in req_helpers:
            if hd.short(h["name"]) in BOOL_HELPERS:
                for block in _chunks(codes, 32):
                    cfgs.append({"part": "helper", "helper": h["name"], "rich": False, "arm": 0, "codes": block, "shapes": "few"})
    out = explorer.explore(RUN, cfgs)
    sched.absorb(res, "iii-helpers-error-answer", RUN, out, cfgs)
    sched.debug_pass(res, "iii-helpers-error-answer", RUN, cfgs, every=(29 if tier == "quick" else 211))
    # every helper twice on one connection: distinct request ids, and a late answer to call 1 must not decide call 2
    tcodes = sorted(set(PERMANENT) | set(RETRYABLE) | {0, -1, 1, -32099, 2 ** 63})
    tcfgs = [{"part": "twice", "helper": h["name"], "codes": (block if hd.short(h["name"]) in BOOL_HELPERS else block[:2])}
             for h in req_helpers for bi, block in enumerate(_chunks(tcodes, 5)) if hd.short(h["name"]) in BOOL_HELPERS or bi == 0]
    out_t = explorer.explore(RUN, tcfgs)
    sched.absorb(res, "iii-two-calls-on-one-connection", RUN, out_t, tcfgs)
    samples += _pick("iii-two-calls-on-one-connection", tcfgs)
    sched.debug_pass(res, "iii-two-calls-on-one-connection", RUN, tcfgs, every=3)
    # boolean helpers: the peer's answers differ per request
    bcodes = sorted(set(PERMANENT) | set(RETRYABLE) | {0, -1, 1, -32099, 2 ** 63})
    bcfgs = [{"part": "boolseq", "helper": h["name"], "codes": block, "with_result_first": i == 0}
             for h in req_helpers if hd.short(h["name"]) in BOOL_HELPERS for i, block in enumerate(_chunks(bcodes, 4))]
    out_b = explorer.explore(RUN, bcfgs)
    sched.absorb(res, "iii-boolean-helpers-answers-differ-per-request", RUN, out_b, bcfgs)
    from . import c07_ctx
    c07_ctx.add_part(res, tier)
    samples += _pick("iii-boolean-helpers-answers-differ-per-request", bcfgs)
    sched.debug_pass(res, "iii-boolean-helpers-answers-differ-per-request", RUN, bcfgs, every=2)
    # initialize helpers: texts that mention the protocol version, every code of the grid
    init_helpers = [h for h in req_helpers if "initialize" in hd.short(h["name"])]
    if init_helpers:
        pv_cfgs = [{"part": "initpv", "helper": h["name"], "codes": block}
                   for h in init_helpers for block in _chunks(sorted(set(codes) | {-32008, -32602}), 16)]
        out_pv = explorer.explore(RUN, pv_cfgs)
        sched.absorb(res, "iii-initialize-protocol-version-texts", RUN, out_pv, pv_cfgs)
        samples += _pick("iii-initialize-protocol-version-texts", pv_cfgs, note=f"each code x {len(PV_MESSAGES)} texts + message-less")
    samples += _pick("iii-helpers-error-answer", cfgs, note=f"each code x {len(SHAPES)} shapes")

    # measured counts
    cnt: Dict[str, int] = {}
    dbg_exec = 0
    for pname, p in res.parts.items():
        if pname.endswith("+debug-logging"):
            dbg_exec += p["executions"]  # re-runs of cases already counted: kept out of the headline numbers
            continue
        for k, v in p["counters"].items():
            cnt[k] = cnt.get(k, 0) + v
    cov = res.coverage
    cov["samples"] = samples  # chosen by position in the enumeration, so identical from run to run
    cov["debug_logging_reruns"] = dbg_exec
    cov["errors_module_api"] = api
    cov["call_order_pairs"] = cnt.get("order_pairs", 0)
    cov["two_call_scenarios"] = cnt.get("pair_scenarios", 0)
    cov["carriers"] = CARRIERS
    calls = cnt.get("behind_calls", 0) + cnt.get("carrier_calls", 0) + cnt.get("twice_calls", 0) + cnt.get("boolseq_calls", 0) + cnt.get("pair_calls", 0) + cnt.get("order_sm_calls", 0) + cnt.get("sm_calls", 0) + cnt.get("helper_calls", 0) + cnt.get("baseline_calls", 0) + cnt.get("initpv_calls", 0)
    cov["evaluations"] = cnt.get("fn_evaluations", 0) + calls
    cov["driven_calls"] = calls
    cov["function_evaluations"] = cnt.get("fn_evaluations", 0)
    cov["unrepresentable_error_shapes_skipped"] = cnt.get("sm_unrepresentable", 0) + cnt.get("helper_unrepresentable", 0)
    cov["codes_in_grid"] = len(codes)
    cov["codes_per_helper"] = len(hcodes)
    cov["codes_per_boolean_helper"] = len(codes)
    cov["error_shapes"] = [shape_name(s) for s in SHAPES]
    cov["request_helpers_driven"] = [hd.short(h["name"]) for h in req_helpers]
    cov["notification_only_helpers_listed_not_driven"] = [h["name"] for h in notif_helpers]
    cov["send_methods_on_classes_not_request_helpers"] = disc["methods"]
    cov["recorded_not_judged"] = {k: v for k, v in cnt.items() if k.startswith("recorded:")}
    cov["exhaustive"] = True
    cov["rule"] = (
        "codes = every integer in -33100..-31900 and -200..200 plus +-2^31, +-2^63 (each -1/0/+1) and 2^64-1; "
        "shapes = message {absent, empty, text with U+00E9/U+2028} x data {absent, null, string, object with null, list}, plus 13 messages "
        "with percent signs (%s, %d, %(x)s, %%, 100% ..., %20), braces ({}, {0}, {code}, unbalanced), backslashes, $-templates, unpaired surrogates (high, low, reversed), NUL / U+FFFF / U+FFFE / U+10FFFF (data absent), and data holding "
        "unpaired surrogates or NUL/noncharacters; (these special shapes "
        "through the constructor route and with optional-argument profiles only for the boundary codes / plain messages); "
        "(i) is_retryable_error on every code; every public function / exception class of the errors module (introspection) called with 7 probe codes "
        "in every ordered pair (f, g) - after each call the module's tables must still equal the documented sets, is_retryable_error must agree on the "
        "boundary codes and send_message must classify all 14 named codes; the tables are also compared at the start and end of every execution; (ii) send_message on every code x shape x incoming object built by "
        "{parse_message, JSONRPCMessage(...)}; two send_message calls on separate stream pairs, in flight together (answers in both orders) or one "
        "after the other, with one params dict object shared between them or separate dicts (3 initial dicts incl. one with _meta), progress "
        "callbacks on none/one/both, answered with error x error over 4 codes or error + result: each call must raise its own classified error / "
        "return its own result; the error answer arriving behind 0/1/2/99/100/101/250 other messages (notifications, responses and ERRORS WITH A CODE OF THE OTHER CLASS "
        "for other ids, server requests, mixed) for the 17 named/special codes: the call must raise ITS error; send_message through the REAL inbound paths of every carrier - stdio (scripted child), Streamable HTTP with a JSON body and with an "
        "SSE body, legacy SSE with the answer on the event stream and as an immediate JSON body (scripted httpx layer) - x "
        + ("boundary codes" if tier == "quick" else "every code") + " x every wire-representable shape for the named codes (5 shapes incl. the EMPTY message for the others): "
        "class, code and message must be the same as over memory streams, also when the error response carries explicit null companions "
        "(result: null, params: null, method: null - serialisers that do not omit empty members); every helper called twice on one connection (call 1 times out, its successful answer arrives "
        "late and stays unread, call 2 is answered with an error over 19 codes for the boolean helpers): the two calls must write different request ids and call 2 must "
        "report ITS answer; (iii) every discovered request helper x argument profiles "
        "{required only, all optionals, second Union arm} x "
        + ("boundary codes (named codes +-1, range edges, 0, +-1, +-200, 64-bit extremes)" if tier == "quick" else "every code of the grid")
        + " x shape; ping / resources_subscribe / resources_unsubscribe x every code of the grid in both tiers (quick: 2 shapes per code), and against a peer whose answers differ per request (first answer error over 19 codes or result; a "
        "second request, if the helper writes one, would get result / error -32601 / error -32603 / silence): the helper must report the FIRST answer and write exactly one request"
        + "; the initialize helpers additionally x every code x 4 messages mentioning 'protocol version' (different casings) and a message-less "
        "error through the constructor route (judged for every code but -32602)"
        + ".  str(e) may not name a code other than the one sent.  distinct_nontrivial = distinct observation digests of the blocks (a block = one code, or one helper x profile x <=8 codes); "
        "shapes the chosen route rejects are counted as unrepresentable and skipped"
    )
    res.assumptions = [
        "the documented permanent/retryable sets are the ones pinned in this file (JSON-RPC 2.0 names + errors.py docstrings)",
        "error objects without 'message' are not accepted by parse_message; they reach send_message only through the unified JSONRPCMessage constructor",
        "error codes are JSON integers; bool / float / string codes are outside the quantifier",
        "error messages are JSON strings (JSON-RPC 2.0): the empty string is a message and is in the grid; 0 / false / [] in place of the message are not error objects and are outside the statement",
        "over the byte carriers only codes that fit 64 bits ([-2^63, 2^64-1]) are driven: -2^63-1 is parsed as a float by the orjson-backed readers "
        "(stdio, SSE bodies) and stays an integer through httpx's json(); integers beyond 64 bits are outside the quantifier ('64-bit values') and remain in the in-memory parts",
        "shapes whose text cannot be encoded as UTF-8 (unpaired surrogates) cannot travel over a byte carrier and are kept to the in-memory parts",
        "send_initialize documents a third exception: a -32602 error whose message mentions 'protocol version' is translated to "
        "VersionMismatchError (recorded under recorded_not_judged); for every other code such a text must still give the classified exception",
        "a helper annotated '-> bool' other than ping/subscribe/unsubscribe may either return False or raise the classified error",
        "module-level state: a change of the documented sets at run time is reported (documented-sets-changed-at-runtime) and then undone by the harness "
        "so that later executions of the same worker start from the documented state",
        "a slice of every part is re-run with the library's logging enabled at DEBUG (parts named +debug-logging)",
        "the 64-bit part of the quantifier is replaced by the deterministic extremes +-2^31, +-2^63 (+-1) and 2^64-1",
    ]
    return res
