"""C08 - server dispatch: one response per request, none per notification, never raises.

Engine: E-INPUT.  Driver: a real ``MCPServer`` (fresh for every case) with a
registered tool, a registered resource and two ``register_method`` handlers whose
behaviour is scripted by the case; every input dict is first parsed with the
library's ``parse_message`` and then handed to ``ProtocolHandler.handle_message``.

Space: full product  methods x ids x params shapes x handler behaviours.
One explorer cfg is one (method, id, handler behaviour) *block*; the block
iterates every params shape and reports per-case counts through counters.
Failing cases are re-executed one by one in a second pass (vf/twopass.py), so a
replay file is a single input: cfg {"m","i","p","b"} = indices into the tables.

Oracle (independent of the library, envelope rules from ``vf.jsonrpc_ref``):
  * nothing ever escapes ``handle_message``;
  * message with an id  => a 2-tuple whose first member is ONE response object
    that carries the same id (value and type), is a valid JSON-RPC result/error
    and whose outcome is in the set the statement allows for the case;
  * message without id  => first member is ``None``.
Inputs ``parse_message`` rejects, and inputs it accepts although they are not
JSON-RPC requests / notifications by the reference grammar (``id: null``,
``id: true``, ``id: 1.0``), are counted and not judged.
"""
from __future__ import annotations

import itertools
import json
from typing import Any, Dict, List, Optional, Tuple

from .. import core, explorer, gen, sched, twopass
from ..jsonrpc_ref import classify, strict_eq
from ..vloop import new_loop

RUN = "vf.checks.c08:run_one"

# ---------------------------------------------------------------------------
# alphabet
# ---------------------------------------------------------------------------
TOOL = "tool"
RES = "res://a"
CUSTOM_REQ = "custom/method"
CUSTOM_NOTE = "notifications/custom"
CORE_REQ = ("initialize", "ping")
CORE_NOTE = ("notifications/initialized",)
SERVER_DEFAULT = ("tools/list", "tools/call", "resources/list", "resources/read")
REGISTERED = set(CORE_REQ) | set(CORE_NOTE) | set(SERVER_DEFAULT) | {CUSTOM_REQ, CUSTOM_NOTE}

UNKNOWN_METHODS = [
    "unknown/method", "tools/call/", "Tools/Call", "ping ", " ping", "notifications/unknown", "notifications/",
    "é \U0001F600", "x" * 300, "rpc.discover", "nul\x00", "",
]


def _standard_methods() -> List[str]:
    """Every value of the library's MessageMethod enum, found by introspection."""
    from chuk_mcp.protocol.messages.message_method import MessageMethod

    return [m.value for m in MessageMethod]


def methods() -> List[str]:
    out: List[str] = []
    for m in _standard_methods() + [CUSTOM_REQ, CUSTOM_NOTE] + UNKNOWN_METHODS:
        if m not in out:
            out.append(m)
    return out


class _Absent:
    def __repr__(self):
        return "<absent>"


_ABSENT = _Absent()  # marker inside the module tables only (cfgs carry indices); never sent
# ids: absent + the shared id set + values that are not JSON-RPC ids (counted, not judged)
IDS: List[Any] = [_ABSENT] + list(gen.IDS) + [None, True, 1.5, 1.0, [1], {"a": 1}]

NAMES: List[Any] = [TOOL, "nope", "", "Tool", 123, None, [TOOL], {"a": 1}, True, 1.5]
ARGS: List[Any] = [_ABSENT, {}, {"x": None}, {"x": 1, "y": "é "}, None, [1], "str", 0,
                   {"unexpected_kw": 1}]
EXTRAS: List[Dict[str, Any]] = [{}, {"_meta": {"progressToken": "p"}, "zz": [None]}]
URIS: List[Any] = [RES, "res://missing", "", "RES://A", 123, None, [RES], {"a": 1}]


def params_table() -> List[Any]:
    """Every params value of the alphabet (``_ABSENT`` = member not present)."""
    out: List[Any] = [_ABSENT, None, {}, [], [1], "s", 0]
    for n, a, e in itertools.product(NAMES, ARGS, EXTRAS):
        p: Dict[str, Any] = {"name": n}
        if a is not _ABSENT:
            p["arguments"] = a
        p.update(e)
        out.append(p)
    for a, e in itertools.product(ARGS[1:], EXTRAS):  # arguments without a name
        out.append({"arguments": a, **e})
    for u, e in itertools.product(URIS, EXTRAS):
        out.append({"uri": u, **e})
    out.append({"name": TOOL, "uri": RES})
    out.append({"name": "nope", "uri": "res://missing", "arguments": {}})
    out.append({"protocolVersion": "2025-06-18", "capabilities": {}, "clientInfo": {"name": "c", "version": "1"}})
    out.append({"protocolVersion": 12})
    out.append({"clientInfo": "str"})
    out.append({"clientInfo": None, "protocolVersion": None})
    out.append({"requestId": 1, "reason": "x"})
    out.append({"progressToken": "t", "progress": 1, "total": None})
    out.append({"": {"": []}})
    return out


# handler behaviours: (name, kind) - kind in returns / raises / maybe (returns a value the
# formatter may or may not be able to turn into text: result or -32603 both allowed)
BEHAVIOURS: List[Tuple[str, str]] = [
    ("return-str", "returns"),
    ("return-dict", "returns"),
    ("return-list", "returns"),
    ("return-none", "returns"),
    ("return-object", "returns"),
    ("return-unserialisable-dict", "maybe"),
    ("raise-exception", "raises"),
    ("raise-subclass-nonascii", "raises"),
    ("yield-then-return", "returns"),
    ("yield-then-raise", "raises"),
    # exception classes a dispatcher might itself catch for its own purposes (lookup misses, bad params ...)
    ("raise-KeyError", "raises"),
    ("raise-KeyError-naming-the-registered-key", "raises"),
    ("raise-LookupError", "raises"),
    ("raise-IndexError", "raises"),
    ("raise-ValueError", "raises"),
    ("raise-TypeError", "raises"),
    ("raise-AttributeError", "raises"),
    ("raise-RuntimeError", "raises"),
    ("raise-AssertionError", "raises"),
    ("raise-OSError", "raises"),
    ("raise-NotImplementedError", "raises"),
    ("raise-UnicodeDecodeError", "raises"),
    ("yield-then-raise-KeyError", "raises"),
    # "returns nonsense": a register_method handler RETURNS (does not raise) something that is not a (response, session)
    # pair.  For tool / resource handlers the same values are just arbitrary return values.  None of the values is a
    # 2-element sequence (that would read as a pair; what is in it is the handler's responsibility).
    ("nonsense-return-None", "nonsense"),
    ("nonsense-return-bare-response-object", "nonsense"),
    ("nonsense-return-3-tuple", "nonsense"),
    ("nonsense-return-1-tuple", "nonsense"),
    ("nonsense-return-empty-tuple", "nonsense"),
    ("nonsense-return-int", "nonsense"),
    ("nonsense-return-string", "nonsense"),
    ("nonsense-return-dict", "nonsense"),
    ("nonsense-return-list-of-3", "nonsense"),
    ("nonsense-return-opaque-object", "nonsense"),
    ("yield-then-nonsense-return-None", "nonsense"),
    # exception TEXTS: what str(exc) gives (a dispatcher that formats or trims the text must cope with all of them)
    ("raise-text:empty:AssertionError", "raises"),
    ("raise-text:empty:TimeoutError", "raises"),
    ("raise-text:empty:ValueError", "raises"),
    ("raise-text:empty:anyio.ClosedResourceError", "raises"),
    ("raise-text:empty:KeyError", "raises"),
    ("raise-text:multi-line", "raises"),
    ("raise-text:only-newlines", "raises"),
    ("raise-text:leading-newline", "raises"),
    ("raise-text:unicode-line-separators", "raises"),
    ("raise-text:very-long", "raises"),
    ("raise-text:percent-and-brace-forms", "raises"),
    ("raise-text:nul-and-controls", "raises"),
    ("raise-text:str-itself-raises", "raises-badstr"),
    ("yield-then-raise-text:empty", "raises"),
    # exceptions that CARRY a `code` attribute (protocol errors, HTTP errors, application errors): a failing handler is
    # answered -32603 whatever the exception calls its own code
    ("raise-with-code:int:-32601", "raises"),
    ("raise-with-code:int:-32602", "raises"),
    ("raise-with-code:int:-32600", "raises"),
    ("raise-with-code:int:404", "raises"),
    ("raise-with-code:int:0", "raises"),
    ("raise-with-code:str", "raises"),
    ("raise-with-code:digit-str", "raises"),
    ("raise-with-code:none", "raises"),
    ("raise-with-code:float", "raises"),
    ("raise-with-code:bool", "raises"),
    ("raise-with-code:list", "raises"),
    ("raise-with-code:library-NonRetryableError:-32601", "raises"),
    ("raise-with-code:library-RetryableError", "raises"),
    ("raise-with-code:urllib-HTTPError:404", "raises"),
    ("raise-with-code:property-that-raises", "raises"),
]
# methods whose dispatch reaches no scripted handler are run with these two behaviours only: a behaviour can only show
# once its handler is reached (the harness fails if a scripted handler is reached there after all)
REDUCED_BEHAVIOURS = [0, 6]

METHODS: List[str] = []   # filled lazily (needs the library on sys.path)
PARAMS: List[Any] = params_table()
PER_SIG = 3   # failing cases re-executed (and reported) per distinct signature
BEHAVIOUR_SENSITIVE = {"tools/call", "resources/read", CUSTOM_REQ, CUSTOM_NOTE}


def _methods() -> List[str]:
    if not METHODS:
        METHODS.extend(methods())
    return METHODS


class _Opaque:
    def __repr__(self):
        return "<opaque>"


class _HandlerFailure(Exception):
    pass


class _Coded(Exception):
    def __init__(self, text, code):
        super().__init__(text)
        self.code = code


class _CodeRaises(Exception):
    @property
    def code(self):
        raise RuntimeError("no code")


class _BadStr(Exception):
    """An exception whose text cannot be produced."""

    def __str__(self):
        raise RuntimeError("this exception has no text")


async def _behave(b: int, key: str = ""):
    import anyio

    name = BEHAVIOURS[b][0]
    if name.startswith("yield-"):
        await anyio.sleep(0)
    if name == "return-str":
        return "text é"
    if name == "return-dict":
        return {"k": [1, None, "é"]}
    if name == "return-list":
        return ["a", {"b": 1}, ["c", None], 5]
    if name == "return-none":
        return None
    if name == "return-object":
        return _Opaque()
    if name == "return-unserialisable-dict":
        return {"k": _Opaque()}
    if name == "raise-exception":
        raise Exception("boom")
    if name.startswith("raise-with-code:"):
        what = name.split(":", 1)[1]
        if what.startswith("int:"):
            raise _Coded("coded failure", int(what[4:]))
        if what.startswith("library-NonRetryableError"):
            from chuk_mcp.protocol.types.errors import NonRetryableError

            raise NonRetryableError("method not found downstream", -32601)
        if what == "library-RetryableError":
            from chuk_mcp.protocol.types.errors import RetryableError

            raise RetryableError("try again", -32000)
        if what.startswith("urllib-HTTPError"):
            import urllib.error

            raise urllib.error.HTTPError("http://x.test/", 404, "Not Found", None, None)
        if what == "property-that-raises":
            raise _CodeRaises("coded failure")
        raise _Coded("coded failure", {"str": "token_expired", "digit-str": "-32601", "none": None, "float": -32603.5,
                                       "bool": True, "list": [-32603]}[what])
    if "raise-text:" in name:
        what = name.split("raise-text:")[1]
        if what.startswith("empty"):
            cls = what.split(":")[1] if ":" in what else "ValueError"
            if cls == "anyio.ClosedResourceError":
                raise anyio.ClosedResourceError()
            raise {"AssertionError": AssertionError, "TimeoutError": TimeoutError, "ValueError": ValueError,
                   "KeyError": KeyError}[cls]()
        if what == "multi-line":
            raise ValueError("2 validation errors\n  field a: missing\n\n  field b: wrong type\n")
        if what == "only-newlines":
            raise ValueError("\n\n\n")
        if what == "leading-newline":
            raise RuntimeError("\nheadline on the second line")
        if what == "unicode-line-separators":
            raise RuntimeError("\u2028\u2029\u0085\x0b\x0c\x1c tail")
        if what == "very-long":
            raise RuntimeError("x" * 100_000 + " é")
        if what == "percent-and-brace-forms":
            raise RuntimeError("100% %s %d %(name)s {} {0} {name} {{}} %")
        if what == "nul-and-controls":
            raise RuntimeError("nul\x00 bell\x07 esc\x1b[31m del\x7f")
        if what == "str-itself-raises":
            raise _BadStr()
    if name == "raise-subclass-nonascii":
        raise _HandlerFailure("é \U0001F600 failed")
    if name == "yield-then-return":
        return "late"
    if name == "yield-then-raise":
        raise ValueError("late boom")
    if name.endswith("nonsense-return-None"):
        return None
    if name == "nonsense-return-bare-response-object":
        from chuk_mcp.protocol.messages.json_rpc_message import create_response

        return create_response(4711, {"bare": True})
    if name == "nonsense-return-3-tuple":
        return (None, None, None)
    if name == "nonsense-return-1-tuple":
        return (None,)
    if name == "nonsense-return-empty-tuple":
        return ()
    if name == "nonsense-return-int":
        return 7
    if name == "nonsense-return-string":
        return "nonsense"
    if name == "nonsense-return-dict":
        return {"jsonrpc": "2.0", "id": 1, "result": {}}
    if name == "nonsense-return-list-of-3":
        return [1, 2, 3]
    if name == "nonsense-return-opaque-object":
        return _Opaque()
    if name == "raise-KeyError-naming-the-registered-key":
        raise KeyError(key)
    if name in ("raise-KeyError", "yield-then-raise-KeyError"):
        raise KeyError("some-inner-key")
    if name == "raise-UnicodeDecodeError":
        raise UnicodeDecodeError("utf-8", b"\xff", 0, 1, "invalid start byte")
    if name.startswith("raise-"):
        cls = {"LookupError": LookupError, "IndexError": IndexError, "ValueError": ValueError, "TypeError": TypeError,
               "AttributeError": AttributeError, "RuntimeError": RuntimeError, "AssertionError": AssertionError,
               "OSError": OSError, "NotImplementedError": NotImplementedError}.get(name[6:])
        if cls is not None:
            raise cls(f"{name[6:]} from the handler")
    raise core.HarnessError(f"unknown behaviour {name}")


def build_server(b: int):
    from chuk_mcp.server.server import MCPServer

    srv = MCPServer("vf-c08", "0.0.1")
    reached = {"n": 0}

    async def tool(x=None, y=None):
        reached["n"] += 1
        return await _behave(b, TOOL)

    async def resource():
        reached["n"] += 1
        return await _behave(b, RES)

    async def custom(message, session_id):
        """A register_method handler that honours the handler contract: a
        (response, session) tuple; nothing for a message without id."""
        reached["n"] += 1
        value = await _behave(b, getattr(message, "method", ""))
        if BEHAVIOURS[b][1] == "nonsense":
            return value            # breaks the (response, session) contract by RETURNING
        if getattr(message, "id", None) is None:
            return None, None
        return srv.protocol_handler.create_response(message.id, {"value": repr(value)}), None

    srv.register_tool(TOOL, tool, {"type": "object", "properties": {"x": {}, "y": {}}}, "scripted tool")
    srv.register_resource(RES, resource, name="a", description="scripted resource")
    srv.protocol_handler.register_method(CUSTOM_REQ, custom)
    srv.protocol_handler.register_method(CUSTOM_NOTE, custom)
    return srv, reached


# ---------------------------------------------------------------------------
# reference
# ---------------------------------------------------------------------------
ANY_RESPONSE = None  # any valid result / error


def method_kind(m: str) -> Tuple[str, str]:
    """(path, method_kind) in the harness's vocabulary."""
    if m == "":
        return "empty-method", "empty-string"
    if m in CORE_REQ:
        return "registered", "core-request"
    if m in CORE_NOTE:
        return "registered", "core-notification"
    if m in SERVER_DEFAULT:
        return "registered", "server-default"
    if m == CUSTOM_REQ:
        return "registered", "custom-request"
    if m == CUSTOM_NOTE:
        return "registered", "custom-notification"
    if m in _standard_methods():
        return "unregistered", ("unregistered-standard-notification" if m.startswith("notifications/")
                                else "unregistered-standard-request")
    return "unregistered", "unregistered-other"


def _by_behaviour(b: int):
    kind = BEHAVIOURS[b][1]
    if kind == "returns":
        return {"R"}
    if kind in ("raises", "raises-badstr"):
        return {"E-32603"}
    return {"R", "E-32603"}


_MISSING = object()


def expected(m: str, params: Any, b: int):
    """(case_kind, allowed outcomes) for a message that carries an id.
    ``params`` is the params value or ``_ABSENT``."""
    if m == "":
        return "empty-method", {"E-32600", "E-32601"}
    if m not in REGISTERED:
        return "unregistered-method", {"E-32601"}
    pr = params if isinstance(params, dict) else {}
    plain = params is _ABSENT or params is None or params == {}
    if m in CORE_NOTE:
        return "request-form-of-core-notification", ANY_RESPONSE
    if m in ("ping", "tools/list", "resources/list"):
        return ("no-params-method:plain", {"R"}) if plain else ("no-params-method:extra-params", {"R", "E-32602"})
    if m == "initialize":
        if isinstance(pr.get("protocolVersion"), str) and isinstance(pr.get("clientInfo"), dict):
            return "initialize:well-formed", {"R"}
        return "initialize:incomplete-params", {"R", "E-32602", "E-32603"}
    if m in (CUSTOM_REQ, CUSTOM_NOTE):
        if BEHAVIOURS[b][1] == "nonsense":
            # the statement: exactly one response carrying the id, result or error (which one is not stated)
            return "custom-handler:returns-nonsense", ANY_RESPONSE
        return "custom-handler:" + BEHAVIOURS[b][1], _by_behaviour(b)
    if m == "tools/call":
        name = pr.get("name", _MISSING)
        if isinstance(name, str):
            if name != TOOL:
                return "unknown-tool", {"E-32602"}
            args = pr.get("arguments", _MISSING)
            if args is _MISSING or (isinstance(args, dict) and set(args) <= {"x", "y"}):
                return "registered-tool:" + BEHAVIOURS[b][1], _by_behaviour(b)
            return "registered-tool:ill-typed-arguments", {"R", "E-32602", "E-32603"}
        return "ill-typed-or-missing-tool-name", {"E-32602", "E-32603"}
    if m == "resources/read":
        uri = pr.get("uri", _MISSING)
        if isinstance(uri, str):
            if uri != RES:
                return "unknown-resource", {"E-32602"}
            kind = BEHAVIOURS[b][1]
            return "registered-resource:" + kind, ({"E-32603"} if kind in ("raises", "raises-badstr") else {"R", "E-32603"} if kind in ("maybe", "nonsense") else {"R"})
        return "ill-typed-or-missing-uri", {"E-32602", "E-32603"}
    raise core.HarnessError(f"no expectation for {m}")


def id_kind(i: Any) -> str:
    if isinstance(i, bool):
        return "bool"
    if isinstance(i, int):
        return "int-zero" if i == 0 else "int-negative" if i < 0 else "int-big" if i >= 2**31 else "int"
    if isinstance(i, str):
        return "str-empty" if i == "" else "str-digits" if i.lstrip("-").isdigit() else "str"
    return type(i).__name__


def build_input(mi: int, ii: int, pi: int) -> Dict[str, Any]:
    d: Dict[str, Any] = {"jsonrpc": "2.0", "method": _methods()[mi]}
    i = IDS[ii]
    if i is not _ABSENT:
        d["id"] = i
    p = PARAMS[pi]
    if p is not _ABSENT:
        d["params"] = p
    return d


# ---------------------------------------------------------------------------
# one block = one (method, id, behaviour), every params shape  (with "p": that single case)
# ---------------------------------------------------------------------------
def run_one(ctl: explorer.Ctl, cfg: Dict[str, Any]) -> Dict[str, Any]:
    from chuk_mcp.protocol.messages.json_rpc_message import parse_message

    if cfg.get("part") == "overlap":
        return run_overlap(ctl, cfg)
    if cfg.get("part") == "servers":
        return run_servers(ctl, cfg)
    if cfg.get("part") == "dispatch-sequence":
        return run_dispatch_sequence(ctl, cfg)
    if cfg.get("part") == "session-dispatch":
        return run_session_dispatch(ctl, cfg)
    if cfg.get("part") == "long-text":
        return run_long_text(ctl, cfg)
    if cfg.get("part") == "registration-form":
        return run_registration_form(ctl, cfg)
    if cfg.get("part") == "dropped-server":
        return run_dropped_server(ctl, cfg)
    mi, ii = cfg["m"], cfg["i"]
    m = _methods()[mi]
    path, mkind = method_kind(m)
    counters: Dict[str, int] = {}
    first: Dict[str, Dict[str, Any]] = {}   # sig-json -> {"sig","msg","n"}
    outcomes_seen = set()

    def count(k, n=1):
        counters[k] = counters.get(k, 0) + n

    cur = {"p": None}

    def bad(sig: Dict[str, Any], msg: str, wire, b):
        key = json.dumps(sig, sort_keys=True)
        e = first.get(key)
        if e is None:
            first[key] = {"sig": sig, "n": 1, "p": cur["p"], "b": b,
                          "msg": f"{msg}; input={json.dumps(wire, ensure_ascii=True)} handler-behaviour={BEHAVIOURS[b][0]}"}
        else:
            e["n"] += 1
        count("violating-judgements")

    only_p = cfg.get("p")
    only_b = cfg.get("b")
    single = only_p is not None and only_b is not None
    ps = cfg.get("ps")          # optional subset of params indices (debug-logging slice)

    async def block():
        for pi in range(len(PARAMS)):
            if only_p is not None and pi != only_p:
                continue
            if ps is not None and pi not in ps:
                continue
            cur["p"] = pi
            wire = build_input(mi, ii, pi)
            ref_kind, _ = classify(wire)
            for b in range(len(BEHAVIOURS)):
                if only_b is not None and b != only_b:
                    continue
                count("cases")
                try:
                    msg = parse_message(json.loads(json.dumps(wire)))
                except Exception:  # noqa: BLE001 - the library's well-formedness filter
                    count("rejected-by-parse_message")
                    continue
                if ref_kind not in ("request", "notification"):
                    count("accepted-by-parse_message-but-not-jsonrpc:not-judged")
                    continue
                count("judged")
                if m in BEHAVIOUR_SENSITIVE or b == 0:
                    count("judged-distinct")
                if m not in BEHAVIOUR_SENSITIVE:
                    count("cases-on-reduced-behaviour-axis")
                srv, reached = build_server(b)
                try:
                    ret = await srv.protocol_handler.handle_message(msg)
                    exc = None
                except Exception as e:  # noqa: BLE001 - the property: nothing escapes
                    ret, exc = None, e
                if reached["n"]:
                    count("scripted-handler-reached")
                    if m not in BEHAVIOUR_SENSITIVE:
                        raise core.HarnessError(f"a scripted handler was reached through method {m!r}: the behaviour axis "
                                                f"must not be reduced for it")
                has_id = ref_kind == "request"
                who = "request" if has_id else "notification"
                if exc is not None:
                    outcomes_seen.add(who + ":raised")
                    count(f"{who}:raised")
                    bad({"class": f"{who}-raised", "path": path, "method_kind": mkind, "detail": type(exc).__name__},
                        f"handle_message raised {type(exc).__name__}: {str(exc)[:120]!r}", wire, b)
                    continue
                if not (isinstance(ret, tuple) and len(ret) == 2):
                    outcomes_seen.add(who + ":bad-return-shape")
                    bad({"class": "bad-return-shape", "path": path, "method_kind": mkind},
                        f"handle_message returned {ret!r} instead of (response, session_id)", wire, b)
                    continue
                resp = ret[0]
                if not has_id:
                    if resp is None:
                        outcomes_seen.add("notification:none")
                        count("notification:none")
                        continue
                    d = _dump(resp)
                    tok = _token(d)
                    outcomes_seen.add("notification:" + tok)
                    count("notification:got-response")
                    bad({"class": "notification-got-response", "path": path, "method_kind": mkind, "detail": tok},
                        f"a message without id was answered with {d!r}", wire, b)
                    continue
                # ---- request ----
                case_kind, allowed = expected(m, PARAMS[pi], b)
                if resp is None:
                    outcomes_seen.add("request:none")
                    count("request:none")
                    bad({"class": "request-got-no-response", "path": path, "method_kind": mkind},
                        "a request with an id got no response (None)", wire, b)
                    continue
                if isinstance(resp, (list, tuple)):
                    outcomes_seen.add("request:several")
                    bad({"class": "request-got-several-responses", "path": path, "method_kind": mkind},
                        f"a request got {len(resp)} responses", wire, b)
                    continue
                d = _dump(resp)
                kind, why = classify(d) if isinstance(d, dict) else (None, "not an object")
                if kind not in ("result", "error"):
                    outcomes_seen.add("request:invalid-envelope")
                    bad({"class": "invalid-response-envelope", "path": path, "method_kind": mkind, "detail": why},
                        f"response {d!r} is not a valid JSON-RPC response ({why})", wire, b)
                    continue
                try:
                    json.dumps(d)
                except Exception as e:  # noqa: BLE001
                    bad({"class": "response-not-serialisable", "path": path, "method_kind": mkind},
                        f"response {d!r} cannot be written as JSON: {e!r}", wire, b)
                    continue
                tok = _token(d)
                outcomes_seen.add("request:" + tok)
                count("request:" + tok)
                rid = wire["id"]
                if not strict_eq(d.get("id"), rid):
                    how = "type" if d.get("id") == rid else "value"
                    bad({"class": "wrong-response-id", "id_kind": id_kind(rid), "how": how, "path": path},
                        f"response id {d.get('id')!r} ({type(d.get('id')).__name__}) for request id {rid!r} "
                        f"({type(rid).__name__})", wire, b)
                if allowed is not ANY_RESPONSE and tok not in allowed:
                    bad({"class": "wrong-outcome", "case": case_kind, "got": tok,
                         "allowed": "|".join(sorted(allowed))},
                        f"case '{case_kind}' must end in one of {sorted(allowed)}, got {tok}: {d!r}", wire, b)
                else:
                    count("request:outcome-as-stated")
                count("case:" + case_kind)

    loop = new_loop(horizon=5)
    status, val = loop.run_main(block())
    errors = loop.collect_errors()
    loop.abandon()
    if status != "ok":
        raise core.HarnessError(f"block {cfg} did not complete: {status} {core.clean_repr(val)}")
    if errors:
        raise core.HarnessError(f"block {cfg}: event loop reported {errors[:2]}")
    if single:
        # one case (second pass / replay file): the violation is reported here
        viol = [{"sig": e["sig"], "msg": e["msg"]} for e in first.values()]
        return {"outcome": ",".join(sorted(outcomes_seen)) or "nothing-judged", "method": m, "id": _show_id(IDS[ii]),
                "input": build_input(mi, ii, only_p), "behaviour": BEHAVIOURS[only_b][0], "violations": viol,
                "counters": {"single-cases": 1}}
    # block: failing cases are handed to the second pass through counters
    # (first failing case of each signature in this block, see vf/twopass.py)
    for key, e in first.items():
        count("sig:" + key, e["n"])
        rank = ((mi * len(IDS) + ii) * len(PARAMS) + e["p"]) * len(BEHAVIOURS) + e["b"]
        one = {"m": mi, "i": ii, "p": e["p"], "b": e["b"]}
        if cfg.get("_log"):
            one["_log"] = cfg["_log"]      # the failing case must be re-executed under the same logging configuration
        count(twopass.fail_key(e["sig"], rank, one))
    return {
        "outcome": ",".join(sorted(outcomes_seen)) or "nothing-judged",
        "method": m,
        "id": _show_id(IDS[ii]),
        "failing_signatures": sorted(first),
        "violations": [],
        "counters": counters,
    }


def _show_id(i):
    return repr(i)[:40]


# ---------------------------------------------------------------------------
# overlapping dispatches on ONE server (E-SCHED): k concurrent handle_message calls, every handler waits for a
# harness-controlled gate and then returns or raises; every interleaving of {start i, release i} (start i before
# release i) is chosen with ctl.choose
# ---------------------------------------------------------------------------
OV_MSG = ["request-id-int-1", "request-id-str-2", "notification"]
OV_IDS: List[Any] = [1, "2", None]
OV_TARGET = ["tool", "resource", "custom-method"]
OV_BEH = ["returns", "raises-KeyError", "raises-RuntimeError"]
GATED_TOOL = "gated"
GATED_CUSTOM = "custom/gated"


def run_overlap(ctl: explorer.Ctl, cfg: Dict[str, Any]) -> Dict[str, Any]:
    import asyncio

    from chuk_mcp.protocol.messages.json_rpc_message import parse_message
    from chuk_mcp.server.server import MCPServer

    from .. import seams

    calls = cfg["calls"]
    k = len(calls)
    loop = new_loop(horizon=5)
    q = seams.Quiescence(loop)
    srv = MCPServer("vf-c08-overlap", "0.0.1")
    gates: List[Any] = [None] * k
    reached = [0] * k
    finished_order: List[int] = []

    async def behave(i):
        reached[i] += 1
        await gates[i]
        beh = OV_BEH[calls[i][2]]
        if beh == "raises-KeyError":
            raise KeyError(f"call-{i}")
        if beh == "raises-RuntimeError":
            raise RuntimeError(f"call-{i} failed")
        return f"value-of-call-{i}"

    async def tool(who=None):
        return await behave(who)

    def make_res(i):
        async def res():
            return await behave(i)
        return res

    async def custom(message, session_id):
        value = await behave(message.params["who"])
        if getattr(message, "id", None) is None:
            return None, None
        return srv.protocol_handler.create_response(message.id, {"value": value}), None

    srv.register_tool(GATED_TOOL, tool, {"type": "object"}, "gated tool")
    for i in range(k):
        srv.register_resource(f"res://gated/{i}", make_res(i), name=f"g{i}")
    srv.protocol_handler.register_method(GATED_CUSTOM, custom)

    def wire_of(i):
        mk, tg, _ = calls[i]
        w: Dict[str, Any] = {"jsonrpc": "2.0"}
        if OV_IDS[mk] is not None:
            w["id"] = OV_IDS[mk]
        if OV_TARGET[tg] == "tool":
            w["method"], w["params"] = "tools/call", {"name": GATED_TOOL, "arguments": {"who": i}}
        elif OV_TARGET[tg] == "resource":
            w["method"], w["params"] = "resources/read", {"uri": f"res://gated/{i}"}
        else:
            w["method"], w["params"] = GATED_CUSTOM, {"who": i}
        return w

    wires = [wire_of(i) for i in range(k)]
    results: List[Any] = [None] * k
    order: List[str] = []

    async def one(i):
        try:
            ret = await srv.protocol_handler.handle_message(parse_message(json.loads(json.dumps(wires[i]))))
            results[i] = ("returned", ret)
        except Exception as e:  # noqa: BLE001 - the property: nothing escapes
            results[i] = ("raised", e)
        finished_order.append(i)

    async def main():
        started = [False] * k
        released = [False] * k
        tasks = []
        for i in range(k):
            gates[i] = loop.create_future()
        while True:
            menu = [("start", i) for i in range(k) if not started[i]] + \
                   [("release", i) for i in range(k) if started[i] and not released[i]]
            if not menu:
                break
            act, i = menu[ctl.choose(len(menu), "action")] if len(menu) > 1 else menu[0]
            order.append(f"{act}{i}")
            if act == "start":
                started[i] = True
                tasks.append(asyncio.ensure_future(one(i)))
            else:
                released[i] = True
                gates[i].set_result(None)
            await q.settle()
        await asyncio.gather(*tasks)

    status, val = loop.run_main(main())
    errors = loop.collect_errors()
    loop.abandon()
    if status != "ok":
        raise core.HarnessError(f"overlap {cfg} did not complete: {status} {core.clean_repr(val)}")
    if sum(reached) == 0:
        raise core.HarnessError("seam missing: no gated handler was reached")
    viol: List[dict] = []
    toks = []
    # did another dispatch begin or end while this call's handler was suspended?
    for i in range(k):
        mk, tg, bh = calls[i]
        own_id = OV_IDS[mk]
        raises = OV_BEH[bh] != "returns"
        pos_s, pos_r = order.index(f"start{i}"), order.index(f"release{i}")
        overlapped = any(pos_s < order.index(f"{a}{j}") < pos_r for j in range(k) if j != i for a in ("start", "release"))
        ctx = {"message": OV_MSG[mk], "handler": OV_TARGET[tg], "others_ran_while_suspended": overlapped}

        def bad(cls, msg, **extra):
            viol.append({"sig": {"class": cls, **ctx, **extra},
                         "msg": f"call {i} ({wires[i]}) of {wires} in order {order}: {msg}"})

        how, ret = results[i]
        if how == "raised":
            toks.append("raised")
            bad("overlapped-dispatch-raised", f"handle_message raised {type(ret).__name__}: {str(ret)[:100]}",
                detail=type(ret).__name__)
            continue
        if not (isinstance(ret, tuple) and len(ret) == 2):
            toks.append("bad-shape")
            bad("bad-return-shape", f"returned {ret!r}")
            continue
        resp = ret[0]
        if own_id is None:
            if resp is None:
                toks.append("none")
            else:
                d = _dump(resp)
                toks.append("note-answered")
                bad("notification-got-response", f"a message without id was answered with {d!r}", detail=_token(d),
                    id_is_of_another_call=isinstance(d, dict) and any(strict_eq(d.get("id"), OV_IDS[calls[j][0]])
                                                                      for j in range(k) if j != i))
            continue
        if resp is None:
            toks.append("no-response")
            bad("request-got-no-response", "a request with an id got no response")
            continue
        d = _dump(resp)
        kind, why = classify(d) if isinstance(d, dict) else (None, "not an object")
        if kind not in ("result", "error"):
            toks.append("invalid")
            bad("invalid-response-envelope", f"{d!r}: {why}")
            continue
        tok = _token(d)
        toks.append(tok)
        if not strict_eq(d.get("id"), own_id):
            other = any(strict_eq(d.get("id"), OV_IDS[calls[j][0]]) for j in range(k) if j != i)
            bad("wrong-response-id", f"own handler {OV_BEH[bh]}: response carries id {d.get('id')!r}, the request's id is {own_id!r}",
                carries="id-of-another-in-flight-call" if other else "other")
        want = "E-32603" if raises else "R"
        if tok != want:
            bad("wrong-outcome", f"own handler {OV_BEH[bh]}: expected {want}, got {tok}: {d!r}", got=tok,
                own_handler=OV_BEH[bh])
    if errors:
        viol.append({"sig": {"class": "loop-error"}, "msg": f"{errors[:2]}"})
    return {"outcome": "/".join(toks), "order": order, "finished": finished_order, "violations": viol,
            "counters": {"overlap-executions": 1, "calls-judged": k,
                         "executions-with-a-dispatch-during-a-suspension": int(any(
                             order.index(f"start{i}") + 1 != order.index(f"release{i}") for i in range(k)))}}


# ---------------------------------------------------------------------------
# several server objects alive at once, built with different registrations: each is judged by ITS OWN registrations
# ---------------------------------------------------------------------------
# profile -> what gets registered on the object (tool name -> behaviour, resource uri -> behaviour, custom methods)
PROFILES: List[Dict[str, Any]] = [
    {"kind": "MCPServer", "tools": {"alpha": "returns", "gamma": "returns"}, "resources": {"res://one": "returns"},
     "methods": {"custom/a": "returns"}},
    {"kind": "MCPServer", "tools": {"alpha": "returns", "beta": "raises"}, "resources": {"res://two": "raises"},
     "methods": {"custom/b": "returns", "custom/a": "raises"}},
    {"kind": "MCPServer", "tools": {}, "resources": {}, "methods": {}},
    {"kind": "ProtocolHandler", "tools": None, "resources": None, "methods": {"custom/b": "returns"}},
]
SENTINEL_METHOD = "custom/registered-only-on-a-throw-away-object"
SERVER_MODES = ["probe-after-all-built", "probe-while-building", "register-after-all-built"]
PROBES: List[Dict[str, Any]] = (
    [{"method": "tools/call", "params": {"name": n}} for n in ("alpha", "beta", "gamma", "nope")] +
    [{"method": "resources/read", "params": {"uri": u}} for u in ("res://one", "res://two", "res://none")] +
    [{"method": m} for m in ("tools/list", "resources/list", "custom/a", "custom/b", "custom/none", "ping", SENTINEL_METHOD)]
)


def run_servers(ctl: explorer.Ctl, cfg: Dict[str, Any]) -> Dict[str, Any]:
    from chuk_mcp.protocol.messages.json_rpc_message import parse_message
    from chuk_mcp.protocol.types.capabilities import ServerCapabilities
    from chuk_mcp.protocol.types.info import ServerInfo
    from chuk_mcp.server.protocol_handler import ProtocolHandler
    from chuk_mcp.server.server import MCPServer

    profs = [PROFILES[i] for i in cfg["profiles"]]
    mode = SERVER_MODES[cfg["mode"]]
    n = len(profs)
    viol: List[dict] = []
    toks: List[str] = []
    counters = {"server-sets": 1, "probes-judged": 0}
    objs: List[Any] = [None] * n     # (handler, profile, tag)

    def construct(j):
        p = profs[j]
        if p["kind"] == "MCPServer":
            srv = MCPServer(f"vf-c08-s{j}", "0.0.1")
            objs[j] = [srv.protocol_handler, srv]
        else:
            ph = ProtocolHandler(ServerInfo(name=f"vf-c08-s{j}", version="0.0.1"), ServerCapabilities())
            objs[j] = [ph, None]

    def register(j):
        p = profs[j]
        handler, srv = objs[j]
        tag = f"server#{j}"

        def make(behaviour, what):
            async def tool_or_resource(**kw):
                if behaviour == "raises":
                    raise KeyError(f"{what}@{tag} failed")
                return f"{what}@{tag}"
            return tool_or_resource

        def make_method(behaviour, what):
            async def method(message, session_id):
                if behaviour == "raises":
                    raise RuntimeError(f"{what}@{tag} failed")
                if getattr(message, "id", None) is None:
                    return None, None
                return handler.create_response(message.id, {"by": f"{what}@{tag}"}), None
            return method

        for name, beh in (p["tools"] or {}).items():
            srv.register_tool(name, make(beh, name), {"type": "object"}, name)
        for uri, beh in (p["resources"] or {}).items():
            srv.register_resource(uri, make(beh, uri), name=uri[-3:])
        for meth, beh in p["methods"].items():
            handler.register_method(meth, make_method(beh, meth))

    def want(j, probe):
        """(allowed outcome, text that must appear in a result) by server j's OWN registrations."""
        p, tag = profs[j], f"server#{j}"
        m = probe["method"]
        if m == "ping":
            return "R", None
        if m.startswith("custom/"):
            if m not in p["methods"]:
                return "E-32601", None
            return ("E-32603", None) if p["methods"][m] == "raises" else ("R", f"{m}@{tag}")
        if p["kind"] != "MCPServer":
            return "E-32601", None          # a bare ProtocolHandler has no tools/* or resources/* methods
        if m == "tools/list":
            return "R", sorted(p["tools"])
        if m == "resources/list":
            return "R", sorted(p["resources"])
        key = probe["params"].get("name") if m == "tools/call" else probe["params"].get("uri")
        table = p["tools"] if m == "tools/call" else p["resources"]
        if key not in table:
            return "E-32602", None
        return ("E-32603", None) if table[key] == "raises" else ("R", f"{key}@{tag}")

    async def probe_all(upto, round_name, order):
        """Send every probe (request form and notification form) to every server built so far."""
        for j in order:
            if j >= upto:
                continue
            handler = objs[j][0]
            position = "newest" if j == upto - 1 else "older"
            for pi, probe in enumerate(PROBES):
                for rid in (5, None):
                    wire = {"jsonrpc": "2.0", **probe}
                    if rid is not None:
                        wire["id"] = rid
                    counters["probes-judged"] += 1
                    fam = probe["method"] if not probe["method"].startswith("custom/") else (
                        "custom-method:throw-away-only" if probe["method"] == SENTINEL_METHOD else "custom-method")
                    ctx = {"probe": fam, "server_position": position}

                    def bad(cls, msg, **extra):
                        viol.append({"sig": {"class": cls, **ctx, **extra},
                                     "msg": f"{round_name}: server #{j} of {[p['kind'] for p in profs]} (own registrations "
                                            f"{ {k: profs[j][k] for k in ('tools', 'resources', 'methods')} }) got {wire}: {msg}"})

                    try:
                        ret = await handler.handle_message(parse_message(json.loads(json.dumps(wire))))
                    except Exception as e:  # noqa: BLE001
                        toks.append("raised")
                        bad("dispatch-raised", f"raised {type(e).__name__}: {str(e)[:100]}", detail=type(e).__name__)
                        continue
                    if not (isinstance(ret, tuple) and len(ret) == 2):
                        toks.append("bad-shape")
                        bad("bad-return-shape", f"returned {ret!r}")
                        continue
                    resp = ret[0]
                    if rid is None:
                        if resp is not None:
                            toks.append("note-answered")
                            bad("notification-got-response", f"answered with {_dump(resp)!r}")
                        continue
                    if resp is None:
                        toks.append("no-response")
                        bad("request-got-no-response", "no response")
                        continue
                    d = _dump(resp)
                    kind, why = classify(d) if isinstance(d, dict) else (None, "not an object")
                    if kind not in ("result", "error") or not strict_eq(d.get("id"), rid):
                        toks.append("invalid")
                        bad("invalid-response-envelope", f"{d!r}: {why}")
                        continue
                    tok = _token(d)
                    toks.append(tok)
                    exp, text = want(j, probe)
                    if tok != exp:
                        bad("answered-by-foreign-registrations" if n > 1 else "wrong-outcome",
                            f"by its own registrations the answer is {exp}, it answered {tok}: {d!r}", expected=exp, got=tok)
                    elif text is not None:
                        blob = json.dumps(d.get("result"), sort_keys=True)
                        if isinstance(text, list):
                            listed = sorted(x.get("name") if probe["method"] == "tools/list" else x.get("uri")
                                            for x in (d["result"].get("tools") or d["result"].get("resources") or []))
                            if listed != text:
                                bad("answered-by-foreign-registrations", f"lists {listed}, its own registrations are {text}",
                                    expected="own-listing", got="other-listing")
                        elif text not in blob:
                            bad("answered-by-foreign-registrations",
                                f"the result {blob} does not come from its own handler ({text})", expected="own-handler-result",
                                got="another-objects-handler-result")

    def throw_away():
        """An object built and fully registered BEFORE the judged ones and then dropped: nothing of it may show on them.
        (It registers every name the profiles use, so that whatever earlier executions left behind in this process - if
        registrations leak at all - is overwritten and every execution starts from the same situation.)"""
        srv = MCPServer("vf-c08-throw-away", "0.0.1")

        async def h(**kw):
            return "from-the-throw-away-object"

        async def m(message, session_id):
            if getattr(message, "id", None) is None:
                return None, None
            return srv.protocol_handler.create_response(message.id, {"by": "the-throw-away-object"}), None

        for name in ("alpha", "beta", "gamma"):
            srv.register_tool(name, h, {"type": "object"}, name)
        for uri in ("res://one", "res://two"):
            srv.register_resource(uri, h)
        for meth in ("custom/a", "custom/b", SENTINEL_METHOD):
            srv.protocol_handler.register_method(meth, m)

    async def main():
        throw_away()
        idx = list(range(n))
        if mode == "probe-after-all-built":
            for j in idx:
                construct(j)
                register(j)
            await probe_all(n, "all built, oldest first", idx)
            await probe_all(n, "all built, newest first", idx[::-1])
        elif mode == "probe-while-building":
            for j in idx:
                construct(j)
                register(j)
                await probe_all(j + 1, f"after building #{j}, newest first", idx[::-1])
        else:
            for j in idx:
                construct(j)
            for j in idx[::-1]:
                register(j)
            await probe_all(n, "registered after all were built", idx)

    loop = new_loop(horizon=5)
    status, val = loop.run_main(main())
    errors = loop.collect_errors()
    loop.abandon()
    if status != "ok":
        raise core.HarnessError(f"servers {cfg} did not complete: {status} {val!r}")
    if errors:
        raise core.HarnessError(f"servers {cfg}: event loop reported {errors[:2]}")
    # one violation per signature in the observation (the first), the number of judgements in the counters
    firsts: Dict[str, dict] = {}
    for v in viol:
        firsts.setdefault(json.dumps(v["sig"], sort_keys=True), v)
    counters["violating-probe-judgements"] = len(viol)
    tally: Dict[str, int] = {}
    for t in toks:
        tally[t] = tally.get(t, 0) + 1
    return {"outcome": "+".join(f"{k}x{v}" for k, v in sorted(tally.items())), "mode": mode,
            "kinds": [p["kind"] for p in profs], "violations": list(firsts.values()), "counters": counters}


def servers_configs() -> List[Dict[str, Any]]:
    out = []
    for k in (1, 2, 3):
        for profs in itertools.product(range(len(PROFILES)), repeat=k):
            for mode in range(len(SERVER_MODES)):
                out.append({"part": "servers", "profiles": list(profs), "mode": mode})
    return out


def debug_slice_configs(ms: List[str]) -> List[Dict[str, Any]]:
    """A reduced but representative slice of the block grid, run with the library's logging enabled at DEBUG:
    every method x id absent / int / str x params absent / null / {} / [] / registered and unknown name / uri x a few behaviours."""
    def pidx(v):
        for i, p in enumerate(PARAMS):
            if type(p) is type(v) and p == v:
                return i
        raise core.HarnessError(f"params table lost {v!r}")

    ps = [0, pidx(None), pidx({}), pidx([]), pidx({"name": TOOL}), pidx({"name": "nope"}), pidx({"uri": RES}),
          pidx({"uri": "res://missing"})]
    ids = [0, IDS.index(0), IDS.index("a")]
    bnames = [b[0] for b in BEHAVIOURS]
    bs = [0, bnames.index("raise-exception"), bnames.index("yield-then-raise"), bnames.index("nonsense-return-None")]
    return [{"m": mi, "i": ii, "b": b, "ps": ps, "_log": "debug"} for mi in range(len(ms)) for ii in ids
            for b in (bs if ms[mi] in BEHAVIOUR_SENSITIVE else REDUCED_BEHAVIOURS)]


# ---------------------------------------------------------------------------
# sequences of dispatches on ONE server: every response is snapshotted at once and dumped again after the whole sequence
# ---------------------------------------------------------------------------
SEQ_ITEMS = ["tools/list", "resources/list", "ping", "tools/call:t1", "resources/read:res://a", "initialize", "custom/method",
             "unknown/method", "tools/call:unknown", "REGISTER-TOOL", "REGISTER-RESOURCE"]
SEQ_SMALL = [0, 1, 2, 6, 9, 10]          # items of the length-4 sequences in the quick tier
SEQ_IDS: List[Any] = [0, "b", 7, ""]


def run_dispatch_sequence(ctl: explorer.Ctl, cfg: Dict[str, Any]) -> Dict[str, Any]:
    import asyncio

    from chuk_mcp.protocol.messages.json_rpc_message import parse_message
    from chuk_mcp.server.server import MCPServer

    items = [SEQ_ITEMS[i] for i in cfg["items"]]
    mode = cfg["mode"]
    srv = MCPServer("vf-c08-seq", "0.0.1")
    tools = ["t1"]
    resources = ["res://a"]

    def make(text):
        async def h(**kw):
            return text
        return h

    async def custom(message, session_id):
        if getattr(message, "id", None) is None:
            return None, None
        return srv.protocol_handler.create_response(message.id, {"value": "custom"}), None

    srv.register_tool("t1", make("t1-result"), {"type": "object"}, "t1")
    srv.register_resource("res://a", make("a-content"), name="a")
    srv.protocol_handler.register_method("custom/method", custom)
    viol: List[dict] = []
    held: List[Dict[str, Any]] = []     # per dispatch: position, item, id, response object, snapshot, expectation
    toks: List[str] = []

    def bad(cls, msg, **extra):
        viol.append({"sig": {"class": cls, "mode": mode, **extra}, "msg": f"{mode} sequence {items} ids {SEQ_IDS}: {msg}"})

    def snap(resp):
        try:
            return json.dumps(resp.model_dump(), sort_keys=True, default=repr)
        except Exception as e:  # noqa: BLE001
            return f"<undumpable {type(e).__name__}>"

    def register(pos, item):
        if item == "REGISTER-TOOL":
            name = f"t-new-{pos}"
            srv.register_tool(name, make(name), {"type": "object"}, name)
            tools.append(name)
        else:
            uri = f"res://new-{pos}"
            srv.register_resource(uri, make(uri), name=f"n{pos}")
            resources.append(uri)

    def wire_of(pos, item):
        w: Dict[str, Any] = {"jsonrpc": "2.0", "id": SEQ_IDS[pos]}
        meth, _, arg = item.partition(":")
        w["method"] = meth
        if meth == "tools/call":
            w["params"] = {"name": arg, "arguments": {}}
        elif meth == "resources/read":
            w["params"] = {"uri": arg}
        elif meth == "initialize":
            w["params"] = {"protocolVersion": "2025-06-18", "capabilities": {}, "clientInfo": {"name": f"c{pos}", "version": "1"}}
        return w

    def expectation(item):
        """(outcome, names a listing must show) by what is registered NOW."""
        if item == "tools/list":
            return "R", ("tools", "name", sorted(tools))
        if item == "resources/list":
            return "R", ("resources", "uri", sorted(resources))
        if item == "unknown/method":
            return "E-32601", None
        if item == "tools/call:unknown":
            return "E-32602", None
        return "R", None

    async def dispatch(pos, item):
        exp = expectation(item)
        wire = wire_of(pos, item)
        try:
            ret = await srv.protocol_handler.handle_message(parse_message(json.loads(json.dumps(wire))))
        except Exception as e:  # noqa: BLE001
            bad("dispatch-raised", f"dispatch #{pos} ({item}) raised {type(e).__name__}: {str(e)[:100]}", item=item.split(":")[0])
            toks.append("raised")
            return
        if not (isinstance(ret, tuple) and len(ret) == 2) or ret[0] is None:
            bad("request-got-no-response", f"dispatch #{pos} ({item}) returned {ret!r}", item=item.split(":")[0])
            toks.append("none")
            return
        held.append({"pos": pos, "item": item, "id": SEQ_IDS[pos], "resp": ret[0], "snap": snap(ret[0]), "exp": exp})

    async def main():
        if mode == "gather":
            for pos, item in enumerate(items):
                if item.startswith("REGISTER"):
                    register(pos, item)
            await asyncio.gather(*[dispatch(pos, item) for pos, item in enumerate(items) if not item.startswith("REGISTER")])
            held.sort(key=lambda h: h["pos"])
        else:
            for pos, item in enumerate(items):
                if item.startswith("REGISTER"):
                    register(pos, item)
                else:
                    await dispatch(pos, item)

    loop = new_loop(horizon=5)
    status, val = loop.run_main(main())
    errors = loop.collect_errors()
    loop.abandon()
    if status != "ok":
        raise core.HarnessError(f"dispatch sequence {cfg} did not complete: {status} {val!r}")
    if errors:
        raise core.HarnessError(f"dispatch sequence {cfg}: event loop reported {errors[:2]}")
    # (1) each response by the C08 rule, judged on its SNAPSHOT (what a server loop writing at once would have written)
    for h in held:
        d = json.loads(h["snap"]) if h["snap"].startswith("{") else None
        d = {k: v for k, v in d.items() if v is not None or k == "result"} if isinstance(d, dict) else d
        kind, why = classify(d) if isinstance(d, dict) else (None, "not dumpable")
        fam = h["item"].split(":")[0]
        if kind not in ("result", "error"):
            bad("invalid-response-envelope", f"dispatch #{h['pos']} ({h['item']}): {h['snap'][:200]} ({why})", item=fam)
            toks.append("invalid")
            continue
        tok = _token(d)
        toks.append(tok)
        if not strict_eq(d.get("id"), h["id"]):
            bad("wrong-response-id", f"dispatch #{h['pos']} ({h['item']}) id {h['id']!r} was answered with id {d.get('id')!r}", item=fam)
        want, listing = h["exp"]
        if tok != want:
            bad("wrong-outcome", f"dispatch #{h['pos']} ({h['item']}): expected {want}, got {tok}: {h['snap'][:200]}", item=fam, got=tok)
        elif listing is not None:
            member, key, names = listing
            got_names = sorted(x.get(key) for x in (d["result"].get(member) or []))
            if got_names != names:
                bad("stale-or-wrong-listing", f"dispatch #{h['pos']} ({h['item']}) listed {got_names}; registered at that moment: {names}",
                    item=fam)
    # (2) the response objects the caller still holds: same text as when they were returned, and all different objects
    for i, a in enumerate(held):
        now = snap(a["resp"])
        if now != a["snap"]:
            was, isnow = json.loads(a["snap"]), json.loads(now)
            member = "id" if was.get("id") != isnow.get("id") else "payload"
            bad("held-response-changed", f"the response to dispatch #{a['pos']} ({a['item']}) was {a['snap'][:160]} when returned and is "
                                         f"{now[:160]} after the later dispatches", item=a["item"].split(":")[0], member=member)
        for b_ in held[i + 1:]:
            if a["resp"] is b_["resp"]:
                bad("same-response-object-returned-twice", f"dispatches #{a['pos']} and #{b_['pos']} ({a['item']}, {b_['item']}) "
                                                           f"returned the very same object", item=a["item"].split(":")[0])
    return {"outcome": "/".join(toks), "items": items, "violations": viol,
            "counters": {"dispatch-sequences": 1, "dispatches-judged": len(held)}}


def dispatch_sequence_configs(tier: str) -> List[Dict[str, Any]]:
    out = []
    n = len(SEQ_ITEMS)
    for L in (2, 3, 4):
        pool = range(n) if (L < 4 or tier == "thorough") else SEQ_SMALL
        for combo in itertools.product(pool, repeat=L):
            if all(SEQ_ITEMS[i].startswith("REGISTER") for i in combo):
                continue
            for mode in ("sequential", "gather"):
                out.append({"part": "dispatch-sequence", "items": list(combo), "mode": mode})
    return out


# ---------------------------------------------------------------------------
# messages dispatched WITH the session id of a session whose initialize carried clientInfo / capabilities of any JSON shape
# ---------------------------------------------------------------------------
class _Missing:
    pass


SHAPES: List[Any] = [{"name": "c", "version": "1"}, {}, {"name": None}, {"name": ["x"], "version": 1}, None, "a string",
                     ["a", "list"], 17, 1.5, True, _Missing]
SESSION_FOLLOWUPS = ["tools/call:returns", "tools/call:raises", "tools/call:unknown", "resources/read:raises",
                     "custom/method:returns", "custom/method:raises", "custom/method:raises-empty-text", "unknown/method", "ping",
                     "tools/list", "initialize-again"]


def run_session_dispatch(ctl: explorer.Ctl, cfg: Dict[str, Any]) -> Dict[str, Any]:
    from chuk_mcp.protocol.messages.json_rpc_message import parse_message
    from chuk_mcp.server.server import MCPServer

    ci, caps = SHAPES[cfg["ci"]], SHAPES[cfg["caps"]]
    srv = MCPServer("vf-c08-session", "0.0.1")

    def h(behaviour):
        async def fn(**kw):
            if behaviour == "raises":
                raise KeyError("handler failed")
            return "fine"
        return fn

    def m(behaviour):
        async def fn(message, session_id):
            if behaviour == "raises":
                raise RuntimeError("custom handler failed")
            if behaviour == "raises-empty-text":
                raise AssertionError()
            if getattr(message, "id", None) is None:
                return None, None
            return srv.protocol_handler.create_response(message.id, {"ok": True}), None
        return fn

    srv.register_tool("good", h("returns"), {"type": "object"}, "good")
    srv.register_tool("bad", h("raises"), {"type": "object"}, "bad")
    srv.register_resource("res://bad", h("raises"), name="bad")
    for beh in ("returns", "raises", "raises-empty-text"):
        srv.protocol_handler.register_method(f"custom/{beh}", m(beh))
    viol: List[dict] = []
    toks: List[str] = []
    shape_name = lambda x: "missing" if x is _Missing else ("null" if x is None else type(x).__name__ + (  # noqa: E731
        ":empty" if x == {} else ":name-not-a-string" if isinstance(x, dict) and not isinstance(x.get("name"), str) else ""))
    ctx = {"clientInfo": shape_name(ci), "capabilities": "object" if isinstance(caps, dict) else "not-an-object"}

    def bad(cls, msg, **extra):
        viol.append({"sig": {"class": cls, **ctx, **extra},
                     "msg": f"session created by initialize with clientInfo={None if ci is _Missing else ci!r} "
                            f"({ctx['clientInfo']}) capabilities={'<missing>' if caps is _Missing else repr(caps)}: {msg}"})

    async def main():
        params: Dict[str, Any] = {"protocolVersion": "2025-06-18"}
        if ci is not _Missing:
            params["clientInfo"] = ci
        if caps is not _Missing:
            params["capabilities"] = caps
        init = {"jsonrpc": "2.0", "id": "init", "method": "initialize", "params": params}
        sid = None
        try:
            ret = await srv.protocol_handler.handle_message(parse_message(json.loads(json.dumps(init))))
            if isinstance(ret, tuple) and len(ret) == 2 and ret[0] is not None:
                d = _dump(ret[0])
                if classify(d)[0] not in ("result", "error") or not strict_eq(d.get("id"), "init"):
                    bad("invalid-response-envelope", f"initialize answered {d!r}", step="initialize")
                toks.append("init:" + _token(d))
                sid = ret[1] if isinstance(ret[1], str) else None
            else:
                bad("request-got-no-response", f"initialize returned {ret!r}", step="initialize")
        except Exception as e:  # noqa: BLE001
            bad("request-raised", f"initialize raised {type(e).__name__}: {str(e)[:100]}", step="initialize", detail=type(e).__name__)
        for fu in SESSION_FOLLOWUPS:
            meth, _, arg = fu.partition(":")
            for rid in (9, None):
                wire: Dict[str, Any] = {"jsonrpc": "2.0", "method": meth}
                want = "R"
                if meth == "tools/call":
                    wire["params"] = {"name": {"returns": "good", "raises": "bad", "unknown": "nope"}[arg], "arguments": {}}
                    want = {"returns": "R", "raises": "E-32603", "unknown": "E-32602"}[arg]
                elif meth == "resources/read":
                    wire["params"] = {"uri": "res://bad"}
                    want = "E-32603"
                elif meth == "custom/method":
                    wire["method"] = f"custom/{arg}"
                    want = "R" if arg == "returns" else "E-32603"
                elif meth == "unknown/method":
                    want = "E-32601"
                elif meth == "initialize-again":
                    wire["method"] = "initialize"
                    wire["params"] = {"protocolVersion": "2025-06-18", "clientInfo": {"name": "again"}, "capabilities": {}}
                if rid is not None:
                    wire["id"] = rid
                step = fu + ("" if rid is not None else " (notification)")
                try:
                    ret = await srv.protocol_handler.handle_message(parse_message(json.loads(json.dumps(wire))), sid)
                except Exception as e:  # noqa: BLE001
                    toks.append("raised")
                    bad("notification-raised" if rid is None else "request-raised",
                        f"with the session id, {wire} made handle_message raise {type(e).__name__}: {str(e)[:100]}",
                        step=fu, detail=type(e).__name__)
                    continue
                if not (isinstance(ret, tuple) and len(ret) == 2):
                    bad("bad-return-shape", f"{wire}: returned {ret!r}", step=fu)
                    continue
                if rid is None:
                    if ret[0] is not None:
                        bad("notification-got-response", f"{wire}: answered {_dump(ret[0])!r}", step=fu)
                    continue
                if ret[0] is None:
                    bad("request-got-no-response", f"{wire}: no response", step=fu)
                    continue
                d = _dump(ret[0])
                if classify(d)[0] not in ("result", "error") or not strict_eq(d.get("id"), rid):
                    bad("invalid-response-envelope", f"{wire}: {d!r}", step=fu)
                    continue
                tok = _token(d)
                toks.append(tok)
                if tok != want:
                    bad("wrong-outcome", f"{wire}: expected {want}, got {tok}: {d!r}", step=fu, got=tok)

    loop = new_loop(horizon=5)
    status, val = loop.run_main(main())
    errors = loop.collect_errors()
    loop.abandon()
    if status != "ok":
        raise core.HarnessError(f"session dispatch {cfg} did not complete: {status} {val!r}")
    if errors:
        raise core.HarnessError(f"session dispatch {cfg}: event loop reported {errors[:2]}")
    firsts: Dict[str, dict] = {}
    for v in viol:
        firsts.setdefault(json.dumps(v["sig"], sort_keys=True), v)
    tally: Dict[str, int] = {}
    for t in toks:
        tally[t] = tally.get(t, 0) + 1
    return {"outcome": "+".join(f"{k}x{v}" for k, v in sorted(tally.items())), "violations": list(firsts.values()),
            "counters": {"session-dispatch-executions": 1, "session-dispatches-judged": 2 * len(SESSION_FOLLOWUPS) + 1}}


def session_dispatch_configs() -> List[Dict[str, Any]]:
    return [{"part": "session-dispatch", "ci": a, "caps": b} for a in range(len(SHAPES)) for b in range(len(SHAPES))]


# ---------------------------------------------------------------------------
# long non-ASCII names / exception texts: whatever length the error text reaches, dispatch answers as usual
# ---------------------------------------------------------------------------
LONG_PATHS = ["unknown-method", "unknown-tool", "unknown-resource", "tool-raises", "resource-raises", "custom-raises"]
LONG_CHARS = {"2-byte": "\u00e9", "3-byte": "\u20ac", "4-byte": "\U0001F600"}
LONG_TARGETS = [2 ** n for n in range(6, 17)]         # 64 .. 65536 bytes
LONG_DELTAS = list(range(-28, 5))                      # the error text = a prefix of <= 24 bytes + the name / text


def long_text(char: str, target: int, delta: int, lead: int) -> str:
    """`lead` ASCII bytes, then the character repeated up to about target+delta bytes in all."""
    w = len(char.encode("utf-8"))
    n = max(1, (target + delta - lead) // w)
    return "a" * lead + char * n


def run_long_text(ctl: explorer.Ctl, cfg: Dict[str, Any]) -> Dict[str, Any]:
    from chuk_mcp.protocol.messages.json_rpc_message import parse_message
    from chuk_mcp.server.server import MCPServer

    path, cname, target = LONG_PATHS[cfg["path"]], cfg["char"], cfg["T"]
    char = LONG_CHARS[cname]
    counters: Dict[str, int] = {}
    first: Dict[str, Dict[str, Any]] = {}

    def count(k, n=1):
        counters[k] = counters.get(k, 0) + n

    want = {"unknown-method": "E-32601", "unknown-tool": "E-32602", "unknown-resource": "E-32602"}.get(path, "E-32603")
    combos = [(d, lead) for d in LONG_DELTAS for lead in range(4)]
    if cfg.get("one") is not None:
        combos = [tuple(cfg["one"][:2])]

    async def main():
        for delta, lead in combos:
            text = long_text(char, target, delta, lead)
            for note in ((False, True) if cfg.get("one") is None else (bool(cfg["one"][2]),)):
                srv = MCPServer("vf-c08-long", "0.0.1")

                async def tool(**kw):
                    raise RuntimeError(text)

                async def custom(message, session_id):
                    raise ValueError(text)

                srv.register_tool("t", tool, {"type": "object"}, "t")
                srv.register_resource("res://r", tool, name="r")
                srv.protocol_handler.register_method("custom/raises", custom)
                wire: Dict[str, Any] = {"jsonrpc": "2.0"}
                if path == "unknown-method":
                    wire["method"] = "x/" + text
                elif path == "unknown-tool":
                    wire.update(method="tools/call", params={"name": text, "arguments": {}})
                elif path == "unknown-resource":
                    wire.update(method="resources/read", params={"uri": "res://" + text})
                elif path == "tool-raises":
                    wire.update(method="tools/call", params={"name": "t", "arguments": {}})
                elif path == "resource-raises":
                    wire.update(method="resources/read", params={"uri": "res://r"})
                else:
                    wire["method"] = "custom/raises"
                if not note:
                    wire["id"] = 3
                count("cases")

                def bad(cls, msg, **extra):
                    sig = {"class": cls, "path": path, "characters": cname, "message": "notification" if note else "request", **extra}
                    key = json.dumps(sig, sort_keys=True)
                    e = first.get(key)
                    if e is None:
                        first[key] = {"sig": sig, "n": 1, "one": [delta, lead, int(note)],
                                      "msg": f"{path} with a text of {len(text.encode('utf-8'))} bytes ({lead} ASCII bytes, then "
                                             f"{cname} characters; target {target}{delta:+d}): {msg}"}
                    else:
                        e["n"] += 1
                    count("violating-judgements")

                try:
                    ret = await srv.protocol_handler.handle_message(parse_message(wire))
                except Exception as e:  # noqa: BLE001
                    bad("notification-raised" if note else "request-raised",
                        f"handle_message raised {type(e).__name__}: {str(e)[:100]}", detail=type(e).__name__)
                    continue
                if not (isinstance(ret, tuple) and len(ret) == 2):
                    bad("bad-return-shape", f"returned {type(ret).__name__}")
                    continue
                if note:
                    if ret[0] is not None:
                        bad("notification-got-response", "a notification was answered")
                    continue
                if ret[0] is None:
                    bad("request-got-no-response", "no response")
                    continue
                d = _dump(ret[0])
                try:
                    json.dumps(d).encode("utf-8")
                    ok_env = classify(d)[0] in ("result", "error") and strict_eq(d.get("id"), 3)
                except Exception:  # noqa: BLE001
                    ok_env = False
                if not ok_env:
                    bad("invalid-response-envelope", f"{str(d)[:160]}")
                    continue
                tok = _token(d)
                count("request:" + tok)
                if tok != want:
                    bad("wrong-outcome", f"expected {want}, got {tok}: {str(d.get('error'))[:160]}", got=tok)

    loop = new_loop(horizon=5)
    status, val = loop.run_main(main())
    errors = loop.collect_errors()
    loop.abandon()
    if status != "ok":
        raise core.HarnessError(f"long text {cfg} did not complete: {status} {val!r}")
    if errors:
        raise core.HarnessError(f"long text {cfg}: event loop reported {errors[:2]}")
    if cfg.get("one") is not None:
        return {"outcome": "single", "violations": [{"sig": e["sig"], "msg": e["msg"]} for e in first.values()],
                "counters": {"single-cases": 1}}
    for key, e in first.items():
        count("sig:" + key, e["n"])
        rank = ((cfg["path"] * 4 + list(LONG_CHARS).index(cname)) * 10**6 + target) * 1000 + (e["one"][0] + 50) * 10 + e["one"][1]
        count(twopass.fail_key(e["sig"], rank, dict(cfg, one=e["one"])))
    return {"outcome": f"{path}:{want}", "violations": [], "counters": counters}


def long_text_configs() -> List[Dict[str, Any]]:
    return [{"part": "long-text", "path": p, "char": c, "T": t} for p in range(len(LONG_PATHS)) for c in LONG_CHARS
            for t in LONG_TARGETS]


# ---------------------------------------------------------------------------
# the FORM in which a register_method handler is registered: anything that returns an awaitable when called
# ---------------------------------------------------------------------------
REG_FORMS = ["coroutine-function", "object-with-async-__call__", "async-def-behind-a-plain-def-decorator", "lambda-forwarding",
             "functools.partial-of-an-async-function", "bound-async-method", "functools.partial-of-a-bound-async-method",
             "AsyncMock-with-side_effect", "staticmethod-taken-from-the-class",
             # the owner of the bound method is a temporary: nothing but the registration refers to it, and the garbage
             # collector runs before the message is dispatched
             "bound-async-method-of-a-temporary-owner", "functools.partial-of-a-method-of-a-temporary-owner"]
REG_BEHAVIOURS = ["return-str", "return-dict", "raise-exception", "raise-text:empty:AssertionError", "yield-then-return",
                  "yield-then-raise", "nonsense-return-None", "raise-KeyError"]


def run_registration_form(ctl: explorer.Ctl, cfg: Dict[str, Any]) -> Dict[str, Any]:
    import functools
    from unittest import mock

    from chuk_mcp.protocol.messages.json_rpc_message import parse_message
    from chuk_mcp.server.server import MCPServer

    form = REG_FORMS[cfg["form"]]
    bnames = [b[0] for b in BEHAVIOURS]
    b = bnames.index(REG_BEHAVIOURS[cfg["beh"]])
    kind = BEHAVIOURS[b][1]
    viol: List[dict] = []
    toks: List[str] = []

    def bad(cls, msg, **extra):
        viol.append({"sig": {"class": cls, "registered_as": form, "handler": kind, **extra},
                     "msg": f"register_method handler registered as {form}, behaviour {BEHAVIOURS[b][0]}: {msg}"})

    async def main():
        for rid in (0, "a", None):
            srv = MCPServer("vf-c08-forms", "0.0.1")
            ran = {"n": 0}

            async def body(message, session_id, tag="x"):
                ran["n"] += 1
                value = await _behave(b, "custom/method")
                if kind == "nonsense":
                    return value
                if getattr(message, "id", None) is None:
                    return None, None
                return srv.protocol_handler.create_response(message.id, {"value": repr(value), "by": tag}), None

            class Callable_:
                async def __call__(self, message, session_id):
                    return await body(message, session_id)

                async def method(self, message, session_id):
                    return await body(message, session_id)

                @staticmethod
                async def static(message, session_id):
                    return await body(message, session_id)

            def plain_decorator(fn):
                @functools.wraps(fn)
                def wrapper(*a, **kw):          # a plain def: returns the coroutine of the wrapped async def
                    return fn(*a, **kw)
                return wrapper

            obj = Callable_()
            handler = {
                "coroutine-function": body,
                "object-with-async-__call__": obj,
                "async-def-behind-a-plain-def-decorator": plain_decorator(body),
                "lambda-forwarding": (lambda message, session_id: body(message, session_id)),
                "functools.partial-of-an-async-function": functools.partial(body, tag="partial"),
                "bound-async-method": obj.method,
                "functools.partial-of-a-bound-async-method": functools.partial(obj.method),
                "AsyncMock-with-side_effect": mock.AsyncMock(side_effect=body),
                "staticmethod-taken-from-the-class": Callable_.static,
                "bound-async-method-of-a-temporary-owner": Callable_().method,
                "functools.partial-of-a-method-of-a-temporary-owner": functools.partial(Callable_().method),
            }[form]
            srv.protocol_handler.register_method("custom/method", handler)
            del handler, obj
            import gc

            gc.collect()
            wire: Dict[str, Any] = {"jsonrpc": "2.0", "method": "custom/method", "params": {"k": 1}}
            if rid is not None:
                wire["id"] = rid
            who = "notification" if rid is None else "request"
            try:
                ret = await srv.protocol_handler.handle_message(parse_message(json.loads(json.dumps(wire))))
            except Exception as e:  # noqa: BLE001
                toks.append("raised")
                bad(f"{who}-raised", f"{wire}: handle_message raised {type(e).__name__}: {str(e)[:100]}", detail=type(e).__name__)
                continue
            if ran["n"] != 1:
                bad("registered-handler-did-not-run", f"{wire}: the handler body ran {ran['n']} times", message=who)
            if not (isinstance(ret, tuple) and len(ret) == 2):
                bad("bad-return-shape", f"{wire}: {ret!r}")
                continue
            if rid is None:
                if ret[0] is not None:
                    bad("notification-got-response", f"{wire}: {_dump(ret[0])!r}")
                toks.append("none")
                continue
            if ret[0] is None:
                bad("request-got-no-response", f"{wire}: no response")
                continue
            d = _dump(ret[0])
            if classify(d)[0] not in ("result", "error") or not strict_eq(d.get("id"), rid):
                bad("invalid-response-envelope", f"{wire}: {d!r}")
                continue
            tok = _token(d)
            toks.append(tok)
            allowed = ANY_RESPONSE if kind == "nonsense" else _by_behaviour(b)
            if allowed is not ANY_RESPONSE and tok not in allowed:
                bad("wrong-outcome", f"{wire}: expected {sorted(allowed)}, got {tok}: {d!r}", got=tok)

    loop = new_loop(horizon=5)
    status, val = loop.run_main(main())
    errors = loop.collect_errors()
    loop.abandon()
    if status != "ok":
        raise core.HarnessError(f"registration form {cfg} did not complete: {status} {val!r}")
    if errors:
        raise core.HarnessError(f"registration form {cfg}: event loop reported {errors[:2]}")
    firsts: Dict[str, dict] = {}
    for v in viol:
        firsts.setdefault(json.dumps(v["sig"], sort_keys=True), v)
    return {"outcome": "/".join(toks), "violations": list(firsts.values()), "counters": {"registration-form-dispatches": 3}}


def run_dropped_server(ctl: explorer.Ctl, cfg: Dict[str, Any]) -> Dict[str, Any]:
    """A factory hands out only MCPServer(...).protocol_handler: the server object itself is a temporary.  Everything
    registered through it must keep answering after a garbage collection."""
    import gc

    from chuk_mcp.protocol.messages.json_rpc_message import parse_message
    from chuk_mcp.server.server import MCPServer

    class Plugin:
        async def handle(self, message, session_id):
            return self.handler.create_response(message.id, {"by": "plugin"}), None

    def factory():
        srv = MCPServer("vf-c08-dropped", "0.0.1")

        async def t(**kw):
            return "tool-result"

        srv.register_tool("t", t, {"type": "object"}, "t")
        srv.register_resource("res://r", t, name="r")
        plugin = Plugin()
        plugin.handler = srv.protocol_handler
        srv.protocol_handler.register_method("plugin/op", plugin.handle)
        return srv.protocol_handler

    viol: List[dict] = []
    toks: List[str] = []

    async def main():
        ph = factory()
        for _ in range(cfg["collections"]):
            gc.collect()
        probes = [("tools/list", None, "R"), ("tools/call", {"name": "t", "arguments": {}}, "R"), ("resources/list", None, "R"),
                  ("resources/read", {"uri": "res://r"}, "R"), ("plugin/op", None, "R"), ("ping", None, "R"),
                  ("tools/call", {"name": "nope"}, "E-32602"), ("no/such", None, "E-32601")]
        for meth, params, want in probes:
            wire: Dict[str, Any] = {"jsonrpc": "2.0", "id": 4, "method": meth}
            if params is not None:
                wire["params"] = params
            try:
                ret = await ph.handle_message(parse_message(wire))
                d = _dump(ret[0]) if isinstance(ret, tuple) and len(ret) == 2 and ret[0] is not None else None
            except Exception as e:  # noqa: BLE001
                viol.append({"sig": {"class": "request-raised", "method": meth, "owner": "dropped", "detail": type(e).__name__},
                             "msg": f"{wire}: raised {type(e).__name__}: {str(e)[:100]}"})
                continue
            tok = _token(d) if isinstance(d, dict) and classify(d)[0] in ("result", "error") and strict_eq(d.get("id"), 4) else "invalid"
            toks.append(tok)
            if tok != want:
                viol.append({"sig": {"class": "wrong-outcome", "method": meth, "owner": "dropped-server-or-plugin-object", "got": tok},
                             "msg": f"only the protocol handler of a temporary MCPServer is kept, {cfg['collections']} garbage "
                                    f"collection(s) ran: {wire} expected {want}, got {tok}: {d!r}"})

    loop = new_loop(horizon=5)
    status, val = loop.run_main(main())
    errors = loop.collect_errors()
    loop.abandon()
    if status != "ok":
        raise core.HarnessError(f"dropped server {cfg} did not complete: {status} {val!r}")
    if errors:
        raise core.HarnessError(f"dropped server {cfg}: event loop reported {errors[:2]}")
    return {"outcome": "/".join(toks), "violations": viol, "counters": {"registration-form-dispatches": 8}}


def registration_form_configs() -> List[Dict[str, Any]]:
    return [{"part": "registration-form", "form": f, "beh": k} for f in range(len(REG_FORMS)) for k in range(len(REG_BEHAVIOURS))] + \
        [{"part": "dropped-server", "collections": n} for n in (0, 1, 3)]


def overlap_configs(tier: str) -> List[Dict[str, Any]]:
    out = []
    # two calls: every ordered pair of messages with distinct ids (two notifications allowed) x targets x behaviours
    # (two requests may also carry the SAME id: different connections number their requests alike, and without sessions
    # nothing else tells them apart - each must still get its own response)
    pairs = [(a, b) for a in range(3) for b in range(3)]
    for (a, b) in pairs:
        for ta, tb, ba, bb in itertools.product(range(3), range(3), range(3), range(3)):
            out.append({"part": "overlap", "calls": [[a, ta, ba], [b, tb, bb]]})
    # three calls: the three messages in every order x behaviours; targets: all the same (quick) / every combination
    for perm in list(itertools.permutations(range(3))) + [(0, 0, 2), (0, 2, 0), (1, 0, 1), (0, 0, 0)]:
        for bs in itertools.product(range(3), repeat=3):
            tgs = [(t, t, t) for t in range(3)] if tier == "quick" else list(itertools.product(range(3), repeat=3))
            for ts in tgs:
                out.append({"part": "overlap", "calls": [[perm[j], ts[j], bs[j]] for j in range(3)]})
    return out


def _dump(resp) -> Any:
    try:
        return resp.model_dump(exclude_none=True)
    except Exception:  # noqa: BLE001
        return repr(resp)


def _token(d: Any) -> str:
    if isinstance(d, dict) and isinstance(d.get("error"), dict):
        return f"E{d['error'].get('code')}"
    if isinstance(d, dict) and "result" in d:
        return "R"
    return "?"


def _check_tables():
    for name, table in (("methods", _methods()), ("ids", IDS), ("params", PARAMS)):
        keys = [json.dumps(x, sort_keys=True, default=repr) + type(x).__name__ for x in table]
        if len(set(keys)) != len(keys):
            dup = [k for k in keys if keys.count(k) > 1][:2]
            raise core.HarnessError(f"alphabet table '{name}' has duplicates {dup}: cases would not be distinct")


def run(tier: str, only=None) -> core.Result:
    res = core.Result("C08", "exploration")
    _check_tables()
    ms = _methods()
    cfgs = [{"m": mi, "i": ii, "b": b} for mi in range(len(ms)) for ii in range(len(IDS))
            for b in (range(len(BEHAVIOURS)) if ms[mi] in BEHAVIOUR_SENSITIVE else REDUCED_BEHAVIOURS)]
    out = explorer.explore(RUN, cfgs)
    part = "methods-x-ids-x-params-x-behaviours"
    sched.absorb(res, part, RUN, out, cfgs)
    c = res.parts[part]["counters"]
    # second pass: per signature the first PER_SIG failing cases (enumeration order) are re-executed one by one;
    # those single-case executions carry the violations (replay files are one input each)
    dcfgs = debug_slice_configs(ms)
    outd = explorer.explore(RUN, dcfgs)
    sched.absorb(res, "block-slice+debug-logging", RUN, outd, dcfgs)
    twopass.second_pass(res, RUN, [part, "block-slice+debug-logging"], per_sig=PER_SIG)
    c = res.parts[part]["counters"]
    dc = res.parts["block-slice+debug-logging"]["counters"]
    n_sens = sum(1 for x in ms if x in BEHAVIOUR_SENSITIVE)
    space = (n_sens * len(BEHAVIOURS) + (len(ms) - n_sens) * len(REDUCED_BEHAVIOURS)) * len(IDS) * len(PARAMS)
    if c.get("cases", 0) != space and not out["errors"]:
        res.harness_errors.append(f"enumeration incomplete: {c.get('cases', 0)} cases run, product is {space}")
    if not c.get("scripted-handler-reached") and not out["errors"]:
        res.harness_errors.append("seam missing: no scripted tool/resource/custom handler was ever reached")
    ocfgs = overlap_configs(tier)
    out3 = explorer.explore(RUN, ocfgs)
    sched.absorb(res, "overlapping-dispatches", RUN, out3, ocfgs)
    sched.debug_pass(res, "overlapping-dispatches", RUN, ocfgs, every=7)
    scfgs = servers_configs()
    outs = explorer.explore(RUN, scfgs)
    sched.absorb(res, "several-servers-alive", RUN, outs, scfgs)
    sched.debug_pass(res, "several-servers-alive", RUN, scfgs, every=5)
    qcfgs = dispatch_sequence_configs(tier)
    outq = explorer.explore(RUN, qcfgs)
    sched.absorb(res, "dispatch-sequences-held-responses", RUN, outq, qcfgs)
    sched.debug_pass(res, "dispatch-sequences-held-responses", RUN, qcfgs, every=11)
    dq = res.parts["dispatch-sequences-held-responses"]
    res.coverage["dispatch_sequences"] = dq["executions"]
    res.coverage["dispatch_sequence_dispatches_judged"] = dq["counters"].get("dispatches-judged", 0)
    sdc = session_dispatch_configs()
    outsd = explorer.explore(RUN, sdc)
    sched.absorb(res, "dispatch-with-a-session-of-any-clientInfo-shape", RUN, outsd, sdc, min_outcomes=1)
    sched.debug_pass(res, "dispatch-with-a-session-of-any-clientInfo-shape", RUN, sdc, every=3)
    ltc = long_text_configs()
    outlt = explorer.explore(RUN, ltc)
    sched.absorb(res, "long-non-ascii-error-texts", RUN, outlt, ltc)
    twopass.second_pass(res, RUN, ["long-non-ascii-error-texts"], per_sig=2, name="failing-long-texts-one-by-one")
    lt = res.parts["long-non-ascii-error-texts"]["counters"]
    sd = res.parts["dispatch-with-a-session-of-any-clientInfo-shape"]["counters"]
    res.coverage["session_dispatch_judged"] = sd.get("session-dispatches-judged", 0)
    res.coverage["long_text_cases"] = lt.get("cases", 0)
    rfc = registration_form_configs()
    outrf = explorer.explore(RUN, rfc)
    sched.absorb(res, "register_method-handler-forms", RUN, outrf, rfc)
    sched.debug_pass(res, "register_method-handler-forms", RUN, rfc, every=2)
    res.coverage["registration_form_dispatches"] = res.parts["register_method-handler-forms"]["counters"].get(
        "registration-form-dispatches", 0)
    sv = res.parts["several-servers-alive"]
    res.coverage["server_sets"] = sv["executions"]
    res.coverage["server_set_probes_judged"] = sv["counters"].get("probes-judged", 0)
    res.coverage["debug_logging_cases"] = dc.get("cases", 0)
    res.coverage["debug_logging_executions"] = sum(p["executions"] for k, p in res.parts.items() if k.endswith("+debug-logging"))
    oc = res.parts["overlapping-dispatches"]
    res.coverage["overlap_configurations"] = len(ocfgs)
    res.coverage["overlap_executions"] = oc["executions"]
    res.coverage["overlap_executions_with_a_dispatch_during_a_suspension"] = oc["counters"].get(
        "executions-with-a-dispatch-during-a-suspension", 0)
    res.coverage["evaluations"] = (c.get("cases", 0) + dc.get("cases", 0) + oc["executions"]
                                   + sv["counters"].get("probes-judged", 0) + dq["counters"].get("dispatches-judged", 0)
                                   + sd.get("session-dispatches-judged", 0) + lt.get("cases", 0))
    res.coverage["distinct_nontrivial"] = (c.get("judged-distinct", 0) + oc["distinct_observations"] + sv["distinct_observations"]
                                           + dq["distinct_observations"])
    res.coverage["judged"] = c.get("judged", 0)
    res.coverage["violating_judgements"] = c.get("violating-judgements", 0)
    res.coverage["violating_judgements_by_signature"] = {k[4:]: v for k, v in sorted(c.items()) if k.startswith("sig:")}
    res.coverage["rejected_by_parse_message"] = c.get("rejected-by-parse_message", 0)
    res.coverage["accepted_but_not_jsonrpc_not_judged"] = c.get("accepted-by-parse_message-but-not-jsonrpc:not-judged", 0)
    res.coverage["dimensions"] = {"methods": len(ms), "ids": len(IDS), "params": len(PARAMS),
                                  "behaviours": len(BEHAVIOURS), "behaviour_sensitive_methods": n_sens,
                                  "behaviours_for_other_methods": len(REDUCED_BEHAVIOURS), "cases": space}
    res.coverage["exhaustive"] = True
    res.coverage["samples"] = [
        {"input": build_input(ms.index("notifications/cancelled"), 0, 0), "behaviour": BEHAVIOURS[0][0]},
        {"input": build_input(ms.index("tools/call"), 1, 9), "behaviour": BEHAVIOURS[6][0]},
        {"input": build_input(ms.index("resources/read"), 9, len(PARAMS) - 12), "behaviour": BEHAVIOURS[4][0]},
    ]
    res.coverage["rule"] = (
        "full product of methods (every MessageMethod value found by introspection, two register_method names, "
        "unknown strings incl. Unicode, 300 chars, NUL, empty) x ids (absent, 17 int/str boundary ids, 6 non-ids) x "
        "params (absent, null, {}, non-objects, name x arguments x extra members, uri x extra members, initialize / "
        "notification shaped) x handler behaviours (return str/dict/list/None/object/unserialisable; raise Exception, a subclass "
        "with non-ASCII text, KeyError (also naming the registered tool / uri / method), LookupError, IndexError, ValueError, "
        "TypeError, AttributeError, RuntimeError, AssertionError, OSError, NotImplementedError, UnicodeDecodeError; exceptions whose "
        "text is empty (AssertionError, TimeoutError, ValueError, KeyError, anyio.ClosedResourceError), multi-line, only newlines, "
        "starts with a newline, holds U+2028/U+2029/U+0085/VT/FF, is 100 000 characters, holds %- and {}-forms, NUL and "
        "controls, or cannot be produced (__str__ raises); return "
        "something that is not a (response, session) pair: None, bare response object, 0/1/3-tuple, int, str, dict, list, object; "
        "with and without a suspension first) for tool, resource and register_method handlers alike; methods whose dispatch reaches no "
        "scripted handler run with two behaviours only (checked: no scripted handler is reached there); each case on a fresh "
        "MCPServer.  "
        "evaluations = cases run; judged = accepted by parse_message AND a request/notification by the reference "
        "grammar; distinct_nontrivial = judged cases, the behaviour axis counted once for methods whose dispatch "
        "reaches no scripted handler.  Overlap part: 2 or 3 concurrent handle_message calls on ONE MCPServer (messages: request "
        "id 1, request id '2', notification; targets: tool / resource / register_method handler; each handler awaits a "
        "harness-owned future, then returns, raises KeyError or raises RuntimeError), every interleaving of start i / release i "
        "with start i before release i, run to quiescence after each step on the virtual loop; each call judged by the same rule "
        "(own id, none for the notification, -32603 iff its own handler raised).  Several-servers part: every ordered tuple of 1..3 "
        "objects over 4 registration profiles (two MCPServers with overlapping / different tools, resources and register_method "
        "names, handlers tagged per object, some raising; an MCPServer with nothing registered; a bare ProtocolHandler) x 3 "
        "build/probe orders; 13 probes in request and notification form to every object, each judged by ITS OWN registrations "
        "(outcome, and that a result comes from its own handler / lists its own names).  Dispatch sequences: every sequence of 2..3 (thorough 4; quick: length 4 over "
        "6 items) items over {tools/list, resources/list, ping, tools/call, resources/read, initialize, custom method, unknown method, "
        "unknown tool, register a tool, register a resource} on ONE server with ids 0, 'b', 7, '' by position, run one after the "
        "other and with asyncio.gather: each response is judged on a snapshot taken at once (own id, outcome, listings show what is "
        "registered at that moment), every response object is kept and dumped again after the whole sequence (must be unchanged) "
        "and no object is returned twice.  Session-carrying dispatch: initialize with clientInfo x capabilities each over 11 JSON shapes "
        "(objects, {}, name null / list, null, string, list, int, float, bool, missing), then 11 follow-ups (tool returns / raises / "
        "unknown, resource raises, custom returns / raises / raises with empty text, unknown method, ping, tools/list, a second "
        "initialize) as request and notification dispatched WITH the session id.  Long texts: unknown method / tool / resource names "
        "and exception texts of tool, resource and custom handlers whose error text reaches 2^6..2^16 bytes -28..+4, built from 2-, "
        "3- and 4-byte characters after 0..3 ASCII bytes (every alignment), as request and notification.  Registration forms: the register_method handler registered as a coroutine function, an object with "
        "async __call__, an async def behind a plain-def decorator, a forwarding lambda, functools.partial of an async function / of a "
        "bound async method, a bound async method, an AsyncMock, a staticmethod, a bound method / partial of a method of a TEMPORARY owner (garbage "
        "collection before dispatch; also a factory that keeps only MCPServer(...).protocol_handler) x 8 behaviours x request ids 0 / 'a' / notification: "
        "the body runs exactly once and the usual outcome follows.  Debug-logging passes: a slice of the "
        "block grid (every method x id absent/int/str x 8 params shapes x up to 4 behaviours), every 7th overlap configuration "
        "and every 5th server set re-run with the root logger at DEBUG (log-statement arguments are evaluated)"
    )
    res.assumptions = [
        "well-formed = accepted by the library's parse_message and a request/notification by the JSON-RPC reference grammar "
        "(ids null/bool/float and non-object params are counted, not judged)",
        "for an empty method string with an id both -32600 and -32601 are accepted",
        "ill-typed or missing tool names / resource uris: -32602 and -32603 both accepted; ill-typed 'arguments' for a "
        "registered tool: result, -32602 or -32603 accepted; extra params on ping / tools/list / resources/list: result or -32602",
        "initialize with incomplete params: result, -32602 or -32603 accepted (the version rule is C04's subject)",
        "a request-form call of notifications/initialized must get exactly one valid response of any kind",
        "register_method handlers either honour their contract, raise Exception, or RETURN something that is not a pair (None, a bare "
        "response object, 0/1/3-tuples, int, str, dict, list, object): then a request must still get exactly one valid response with "
        "its id (any result or error) and a notification None.  Outside the alphabet: a returned 2-element sequence (read as the "
        "pair, its content is the handler's responsibility - the suite pins (None, None) for an id-bearing request as 'no "
        "response'), BaseException, exceptions whose __str__ fails",
        "the nonsense return values, when returned by a tool / resource handler, are ordinary arbitrary results: result or -32603",
        "the session_id argument of handle_message is None throughout (sessions are C19's subject)",
        "a register_method handler is any callable that returns an awaitable of the (response, session) pair when called with "
        "(message, session_id); plain synchronous functions are not in the alphabet",
        "two server objects built separately are independent: what is registered on one is not registered on another",
        "overlap part: in-flight requests may share an id (each is judged by its own call's return value); a handler released before it is started (i.e. one that does "
        "not suspend) is the block part's subject; virtual loop schedules ready callbacks FIFO like stock asyncio",
    ]
    return res
