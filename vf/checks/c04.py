"""C04 - a library server never acknowledges a protocol version it does not support.

Engine: E-INPUT (version grid, block cfgs) + E-SCHED pairing on the virtual loop.

Part "grid"/"misc": a fresh real ``ProtocolHandler`` per case receives one
``initialize`` request (built as a wire dict, parsed by the library's
``parse_message``) for every requested ``protocolVersion`` of the grid, with and
without ``clientInfo``.  Oracle: the answered version is in the library's
supported set; it equals the request when the request is supported; the session
stored under the returned session id carries exactly the answered version.

Part "pairing": the real client ``send_initialize`` talks through anyio memory
streams (wire dicts in between, as a transport would carry them) to the real
``ProtocolHandler`` for every client supported-list x preferred version.  The
handshake must end with a version in (client list ∩ server supported) or with
``VersionMismatchError``.
"""
from __future__ import annotations

import calendar
import itertools
import json
import math
import re
from typing import Any, Dict, List, Optional

from .. import core, explorer, sched, twopass
from ..jsonrpc_ref import classify, strict_eq
from ..vloop import new_loop

RUN = "vf.checks.c04:run_one"


class _Absent:
    def __repr__(self):
        return "<absent>"


ABSENT = _Absent()

# --- requested versions that are not plain dddd-dd-dd grid points -----------------
MALFORMED: List[str] = [
    "", " ", "latest", "draft", "DRAFT-2025-v2", "2025", "2025-06", "2025-6-18", "2025-06-8", "25-06-18",
    "2025-06-18\n", "\n2025-06-18", " 2025-06-18", "2025-06-18 ", "2025-06-18\x00", "2025-06-18\t",
    "2025-06-181", "02025-06-18", "2025-06-18-", "-2025-06-18", "2025-06-18-00", "2025/06/18", "2025.06.18",
    "20250618", "2025_06_18", "2025-06-18T00:00:00Z", "2025-06-18Z", "v2025-06-18", "2025-06-18" * 2,
    "2025-06-18,2025-03-26",
    "2025\u201306\u201318",          # en dashes
    "2025\u221206\u221218",          # minus signs
    "\uff12\uff10\uff12\uff15-06-18",                                      # full-width year
    "\uff12\uff10\uff12\uff15-\uff10\uff16-\uff11\uff18",                # all digits full-width (matches \d)
    "\u0662\u0660\u0662\u0665-\u0660\u0666-\u0661\u0668",                # Arabic-Indic digits (matches \d)
    "2025-06-1\u0668",
    "2025-06-18\u00a0", "2025-06-18\ufeff", "\ufeff2025-06-18", "2025-06-18\u2028",
    "2O25-06-18", "2025-O6-18", "2025-06-I8", "2024-11-05 ", "2024-11-5", "2025-03-26\r\n", "null", "None",
    "1.0", "2.0", "true", "x" * 300,
]
NON_STRINGS: List[Any] = [
    None, True, False, 0, 1, 12, 20250618, -1, 2**63, 1.5, 2025.0618, 0.0,
    [], ["2025-06-18"], ["2025-06-18", "2025-03-26"], {}, {"version": "2025-06-18"}, [[]],
]
CLIENT_INFOS: List[Any] = [ABSENT, {"name": "vf-client", "version": "0.1"}]
# params envelope shapes that all mean "no protocolVersion requested"
ABSENT_SHAPES = ["no-params", "params-null", "params-empty", "params-without-version"]

PAIR_U = ["2025-06-18", "2025-03-26", "2024-11-05", "2099-01-01", "1999-12-31", "bogus"]

DATE_RE = re.compile(r"[0-9]{4}-[0-9]{2}-[0-9]{2}")  # ASCII digits only (independent of the library)


def supported_set() -> List[str]:
    from chuk_mcp.protocol.types.versioning import SUPPORTED_VERSIONS

    s = list(SUPPORTED_VERSIONS)
    if not s or not all(isinstance(v, str) and DATE_RE.fullmatch(v) for v in s):
        raise core.HarnessError(f"library supported set is not a list of dates: {s!r}")
    return s


def request_kind(v: Any, supported: List[str]) -> str:
    if v is ABSENT:
        return "absent"
    if not isinstance(v, str):
        return "non-string:" + ("null" if v is None else type(v).__name__)
    if v in supported:
        return "supported"
    if DATE_RE.fullmatch(v):
        y, m, d = int(v[:4]), int(v[5:7]), int(v[8:10])
        if 1 <= m <= 12 and y >= 1 and 1 <= d <= calendar.monthrange(y, m)[1]:
            return "calendar-date"
        return "date-shaped-not-calendar"
    return "malformed-string"


_DIGIT_ZEROS = {"full-width": 0xFF10, "arabic-indic": 0x0660, "extended-arabic-indic": 0x06F0, "devanagari": 0x0966}


def _digits(s: str, zero: int) -> str:
    return "".join(chr(zero + ord(ch) - 48) if "0" <= ch <= "9" else ch for ch in s)


def lookalikes(supported: List[str]) -> List[str]:
    """For EVERY supported date: strings that a lenient parser (strip, split('-'), int()) turns into the same
    (year, month, day) but that are not the supported string."""
    out: List[str] = []
    for s in supported:
        y, m, d = s.split("-")
        cand = [s + "\n", s + "\r\n", "\n" + s, " " + s, s + " ", " " + s + " ", "\t" + s + "\t", s + "\x0b", s + "\u00a0",
                s + "\u2028", s + "\u3000",
                "+" + s, f"{y}-+{int(m)}-{d}", f"{y}-{m}-+{int(d)}", f" {y} - {m} - {d} ",
                f"{int(y)}-{int(m)}-{int(d)}", "0" + s, f"{y}-0{m}-0{d}", f"{y[0]}_{y[1:]}-{m}-{d}"]
        for zero in _DIGIT_ZEROS.values():
            cand.append(_digits(s, zero))
            cand.append(s[:-1] + _digits(s[-1], zero))          # only the last digit foreign
            cand.append(_digits(y, zero) + s[4:])                # only the year foreign
        for c in cand:
            if c != s and c not in out:
                out.append(c)
    return out


def loose_parse(v: Any):
    """The lenient reading a tuple-comparing implementation would use (reference for counting only)."""
    if not isinstance(v, str):
        return None
    parts = v.strip().split("-")
    if len(parts) != 3:
        return None
    try:
        return tuple(int(p) for p in parts)
    except ValueError:
        return None


def misc_versions(supported: List[str]) -> List[Any]:
    base = list(supported) + MALFORMED + NON_STRINGS
    # appended last: the indices of the older entries stay valid
    return base + [c for c in lookalikes(supported) if c not in MALFORMED]


def twostep_values(supported: List[str]) -> List[Any]:
    """One or more representatives of every requested-version class, for the two-initialize part."""
    return list(supported) + ["2099-01-01", "1999-12-31", "2025-13-45", "latest", supported[0] + "\n",
                              _digits(supported[1], 0x0660), 12, None, ABSENT]


# ---------------------------------------------------------------------------
# one initialize case
# ---------------------------------------------------------------------------
def build_init(v: Any, ci: Any, absent_shape: str = "params-without-version") -> Dict[str, Any]:
    wire: Dict[str, Any] = {"jsonrpc": "2.0", "id": 7, "method": "initialize"}
    if v is ABSENT:
        if absent_shape == "no-params":
            return wire
        if absent_shape == "params-null":
            wire["params"] = None
            return wire
        if absent_shape == "params-empty":
            wire["params"] = {}
            return wire
    params: Dict[str, Any] = {"capabilities": {}}
    if v is not ABSENT:
        params["protocolVersion"] = v
    if ci is not ABSENT:
        params["clientInfo"] = ci
    wire["params"] = params
    return wire


async def judge_case(handler_factory, parse_message, supported, wire, v, count, bad):
    """Run one initialize on a fresh handler and judge it."""
    return (await judge_step(handler_factory(), parse_message, supported, wire, v, count, bad))["tag"]


async def judge_step(handler, parse_message, supported, wire, v, count, bad, carried=None, fresh=True, prev_answer=ABSENT):
    """One initialize on ``handler`` (passing session id ``carried``), judged.  Returns tag / session id / answer."""
    kind = request_kind(v, supported)
    count("cases")
    count("request:" + kind.split(":")[0])
    try:
        msg = parse_message(json.loads(json.dumps(wire)))
    except Exception:  # noqa: BLE001
        count("rejected-by-parse_message")
        return {"tag": "parse-rejected", "sid": None, "answered": ABSENT}
    try:
        ret = await handler.handle_message(msg, carried)
    except Exception as e:  # noqa: BLE001
        bad({"class": "initialize-raised", "request_kind": kind, "detail": type(e).__name__},
            f"handle_message raised {type(e).__name__}: {str(e)[:120]!r}", wire)
        return {"tag": "raised", "sid": None, "answered": ABSENT}
    if not (isinstance(ret, tuple) and len(ret) == 2) or ret[0] is None:
        bad({"class": "initialize-not-answered", "request_kind": kind}, f"handle_message returned {ret!r}", wire)
        return {"tag": "not-answered", "sid": None, "answered": ABSENT}
    resp, sid = ret
    if not isinstance(sid, str) and isinstance(carried, str) and handler.session_manager.get_session(carried) is not None:
        sid = carried   # no new id announced: the session in force is the one the connection carried
    try:
        d = resp.model_dump(exclude_none=True)
    except Exception:  # noqa: BLE001
        d = None
    rk, why = classify(d)
    if rk not in ("result", "error") or not strict_eq(d.get("id"), wire["id"]):
        bad({"class": "initialize-invalid-response", "request_kind": kind},
            f"response {d!r} is not a valid response to id {wire['id']!r} ({why})", wire)
        return {"tag": "invalid-response", "sid": None, "answered": ABSENT}
    if rk == "error":
        if kind == "supported":
            bad({"class": "supported-request-rejected", "request_kind": kind},
                f"initialize for a supported version was rejected: {d['error']!r}", wire)
        else:
            # "... and otherwise with a version it does support": an error is not such an answer
            n_sessions = len(handler.session_manager.list_sessions())
            bad({"class": "error-instead-of-counter-proposal", "request_kind": kind,
                 "code": d["error"].get("code")},
                f"requested {v!r}: the server answered with the error {d['error']!r} instead of a version it supports "
                f"(sessions in the store: {n_sessions})", wire)
        count("answer:error")
        return {"tag": "error", "sid": None, "answered": ABSENT}
    result = d.get("result")
    # the response as the client sees it keeps null members; read the raw attribute too
    raw = getattr(resp, "result", None)
    answered = raw.get("protocolVersion", ABSENT) if isinstance(raw, dict) else ABSENT
    sessions = handler.session_manager.list_sessions()
    stored_obj = handler.session_manager.get_session(sid) if isinstance(sid, str) else None
    stored = stored_obj.protocol_version if stored_obj is not None else ABSENT
    ok_answer = isinstance(answered, str) and answered in supported
    tag = "ok"
    if not ok_answer:
        how = "echo-of-request" if (v is not ABSENT and strict_eq(answered, v)) else "other"
        st = ("same-as-answer" if stored is not ABSENT and strict_eq(stored, answered) else
              "none" if stored is ABSENT else "different")
        bad({"class": "unsupported-version-acknowledged", "request_kind": kind, "answered": how, "stored": st},
            f"requested {v!r}: server answered protocolVersion={answered!r}, which is not one of {supported}; "
            f"session stores {stored!r}", wire)
        tag = "acknowledged-unsupported"
        count("answer:unsupported")
    else:
        if kind == "supported" and answered != v:
            bad({"class": "supported-version-not-echoed", "request_kind": kind},
                f"requested supported {v!r}, server answered {answered!r}", wire)
            tag = "not-echoed"
        count("answer:echo-supported" if kind == "supported" else "answer:counter-proposal")
        if kind != "supported" and tag == "ok":
            tag = "counter-proposal"
        elif tag == "ok":
            tag = "echo"
    if stored is ABSENT:
        bad({"class": "no-session-recorded", "request_kind": kind},
            f"initialize answered with session id {sid!r} but get_session finds nothing (store: {len(sessions)})", wire)
    else:
        others = [s.protocol_version for s in sessions.values()] if fresh else []
        if not strict_eq(stored, answered) or any(not strict_eq(o, answered) for o in others):
            what = ("requested" if v is not ABSENT and strict_eq(stored, v) else
                    "answer-of-the-first-initialize" if prev_answer is not ABSENT and strict_eq(stored, prev_answer) else "other")
            bad({"class": "session-version-differs-from-answer", "request_kind": kind, "stored": what},
                f"answered {answered!r} but the session records {stored!r} (all sessions: {others!r})", wire)
        else:
            count("session-version-equals-answer")
    if not isinstance(result, dict):
        bad({"class": "initialize-invalid-response", "request_kind": kind}, f"result is {result!r}", wire)
    snap = _snapshot(resp)
    if _snapshot(resp) != snap:
        bad({"class": "response-dump-unstable", "request_kind": kind}, f"two dumps of the same response differ: {snap}", wire)
    return {"tag": tag, "sid": sid if isinstance(sid, str) else None, "answered": answered, "resp": resp, "snap": snap}


def _snapshot(resp) -> str:
    """The response as it would be serialised now (null members kept), as canonical JSON text."""
    try:
        return json.dumps(resp.model_dump(), sort_keys=True, default=repr)
    except Exception as e:  # noqa: BLE001
        return "<undumpable: %s>" % type(e).__name__


def check_held_response(r: Dict[str, Any], handler, bad, wire, when: str):
    """A response object the caller still holds must not change when later messages are handled, and must still say
    what the session recorded for it says."""
    if r.get("resp") is None:
        return
    now = _snapshot(r["resp"])
    if now != r["snap"]:
        raw = getattr(r["resp"], "result", None)
        pv = raw.get("protocolVersion", ABSENT) if isinstance(raw, dict) else ABSENT
        bad({"class": "held-response-changed", "when": when,
             "member": "protocolVersion" if not strict_eq(pv, r["answered"]) else "other"},
            f"the response object of the earlier initialize changed {when}: it was {r['snap']}, it is now {now}", wire)
        r["snap"] = now     # a later check reports only a further change
        return
    s1 = handler.session_manager.get_session(r["sid"]) if r.get("sid") else None
    raw = getattr(r["resp"], "result", None)
    pv = raw.get("protocolVersion", ABSENT) if isinstance(raw, dict) else ABSENT
    if s1 is not None and not r.get("sid_taken_over") and not strict_eq(pv, s1.protocol_version):
        bad({"class": "held-response-disagrees-with-its-session", "when": when},
            f"the earlier response says {pv!r}, its session now records {s1.protocol_version!r}", wire)


def _handler_factory():
    from chuk_mcp.protocol.types.capabilities import ServerCapabilities
    from chuk_mcp.protocol.types.info import ServerInfo
    from chuk_mcp.server.protocol_handler import ProtocolHandler

    info = ServerInfo(name="vf-c04", version="0.0.1")
    caps = ServerCapabilities()
    return lambda: ProtocolHandler(info, caps)


# ---------------------------------------------------------------------------
# other session stores an application may plug in (handler.session_manager = ...)
# ---------------------------------------------------------------------------
STORE_KINDS = ["recording-store", "rows-as-dicts:fresh-record-on-every-read", "in-memory-subclass:deep-copies-on-read"]
# stores whose generate_session_id (the documented extension point) REPEATS ids: used by the two-handshake part only
REPEATING_STORES = ["in-memory-subclass:constant-session-id", "in-memory-subclass:ids-cycle-through-2-values"]
PRE_VERSIONS: List[Any] = ["2025-03-26", "2024-10-07", "2099-01-01", "latest", None]   # versions of sessions restored through the store API


def make_store(kind: str):
    import copy
    import itertools as _it

    from chuk_mcp.server.session.base import BaseSessionManager, SessionInfo
    from chuk_mcp.server.session.memory import InMemorySessionManager

    if kind == "recording-store":
        class RecordingStore(BaseSessionManager):
            """Keeps the records it is given and logs the arguments of every call."""

            def __init__(self):
                self.rows: Dict[str, Any] = {}
                self.calls: List[Any] = []
                self._n = _it.count(1)

            def create_session(self, client_info, protocol_version, metadata=None):
                self.calls.append(["create_session", repr(protocol_version)[:40]])
                sid = f"rec-{next(self._n)}-{self.generate_session_id()}"
                self.rows[sid] = SessionInfo(sid, client_info, protocol_version, 0.0, 0.0, metadata or {})
                return sid

            def get_session(self, session_id):
                self.calls.append(["get_session"])
                return self.rows.get(session_id)

            def update_activity(self, session_id):
                self.calls.append(["update_activity"])
                return session_id in self.rows

            def cleanup_expired(self, max_age=3600):
                return 0

            def list_sessions(self):
                return dict(self.rows)

            def delete_session(self, session_id):
                return self.rows.pop(session_id, None) is not None

        return RecordingStore()
    if kind.startswith("rows-as-dicts"):
        class RowStore(BaseSessionManager):
            """Rows are plain JSON-like dicts (as a database would hold them); every read builds a fresh SessionInfo."""

            def __init__(self):
                self.rows: Dict[str, Dict[str, Any]] = {}

            def _rec(self, sid):
                r = self.rows[sid]
                return SessionInfo(sid, copy.deepcopy(r["client_info"]), copy.deepcopy(r["protocol_version"]), r["created_at"],
                                   r["last_activity"], dict(r["metadata"]))

            def create_session(self, client_info, protocol_version, metadata=None):
                sid = self.generate_session_id()
                self.rows[sid] = {"client_info": copy.deepcopy(client_info), "protocol_version": copy.deepcopy(protocol_version),
                                  "created_at": 0.0, "last_activity": 0.0, "metadata": dict(metadata or {})}
                return sid

            def get_session(self, session_id):
                return self._rec(session_id) if session_id in self.rows else None

            def update_activity(self, session_id):
                return session_id in self.rows

            def cleanup_expired(self, max_age=3600):
                return 0

            def list_sessions(self):
                return {sid: self._rec(sid) for sid in self.rows}

            def delete_session(self, session_id):
                return self.rows.pop(session_id, None) is not None

        return RowStore()

    if kind in REPEATING_STORES:
        class RepeatingIds(InMemorySessionManager):
            def __init__(self):
                super().__init__()
                self._k = 0

            def generate_session_id(self):
                self._k += 1
                return "the-one-id" if kind.endswith("constant-session-id") else f"id-{self._k % 2}"

        return RepeatingIds()

    class CopyingStore(InMemorySessionManager):
        """The built-in store, handing out deep copies on every read."""

        def get_session(self, session_id):
            return copy.deepcopy(super().get_session(session_id))

        def list_sessions(self):
            return copy.deepcopy(super().list_sessions())

    return CopyingStore()


def grid_strings(cfg) -> List[str]:
    y = cfg["year"]
    if cfg["mode"] == "all":
        return [f"{y:04d}-{cfg['mm']:02d}-{dd:02d}" for dd in range(100)]
    m = cfg["mm"]
    return [f"{y:04d}-{m:02d}-{d:02d}" for d in range(1, calendar.monthrange(y, m)[1] + 1)]


def run_block(cfg) -> Dict[str, Any]:
    from chuk_mcp.protocol.messages.json_rpc_message import parse_message

    supported = supported_set()
    factory = _handler_factory()
    store_kind = STORE_KINDS[cfg["store"]] if cfg.get("store") is not None else None
    if store_kind is not None:
        plain_factory = factory

        def factory():
            h = plain_factory()
            h.session_manager = make_store(store_kind)      # the application plugs in its own store
            return h
    counters: Dict[str, int] = {}
    first: Dict[str, Dict[str, Any]] = {}
    tags = set()

    def count(k, n=1):
        counters[k] = counters.get(k, 0) + n

    cur: Dict[str, Any] = {}

    def bad(sig, msg, wire):
        if store_kind is not None:
            sig = dict(sig, store=store_kind)
            msg = f"[session store: {store_kind}] {msg}"
        key = json.dumps(sig, sort_keys=True)
        e = first.get(key)
        if e is None:
            first[key] = {"sig": sig, "msg": f"{msg}; input={json.dumps(wire, ensure_ascii=True)}", "n": 1,
                          "single": cur["single"], "rank": cur["rank"]}
        else:
            e["n"] += 1
        count("violating-judgements")

    # cases: (requested value, clientInfo index, envelope shape, rank, single-case cfg)
    W = "params-without-version"
    single = cfg["part"] == "single"
    versions = misc_versions(supported)
    if cfg["part"] == "grid":
        cases = []
        for v in grid_strings(cfg):
            for k in range(len(CLIENT_INFOS)):
                rank = int(v.replace("-", "")) * 2 + k
                cases.append((v, k, W, rank, {"part": "single", "src": "grid", "v": v, "ci": k, "shape": W}))
    elif cfg["part"] == "misc":  # one requested value, every clientInfo variant
        if cfg["v"] == -1:
            combos = [(sh, k) for sh in ABSENT_SHAPES for k in
                      (range(len(CLIENT_INFOS)) if sh == W else [0])]
        else:
            combos = [(W, k) for k in range(len(CLIENT_INFOS))]
        cases = []
        for n, (sh, k) in enumerate(combos):
            v = ABSENT if cfg["v"] == -1 else versions[cfg["v"]]
            one = {"part": "single", "src": "misc", "v": cfg["v"], "ci": k, "shape": sh}
            if cfg.get("store") is not None:
                one["store"] = cfg["store"]
            cases.append((v, k, sh, 10**12 + (cfg["v"] + 1) * 16 + n, one))
    else:  # single case (second pass / replay file)
        v = cfg["v"] if cfg["src"] == "grid" else (ABSENT if cfg["v"] == -1 else versions[cfg["v"]])
        cases = [(v, cfg["ci"], cfg["shape"], 0, cfg)]

    async def block():
        for v, k, shape, rank, scfg in cases:
            cur["single"], cur["rank"] = scfg, rank
            tags.add(await judge_case(factory, parse_message, supported, build_init(v, CLIENT_INFOS[k], shape), v,
                                      count, bad))

    loop = new_loop(horizon=5)
    status, val = loop.run_main(block())
    errors = loop.collect_errors()
    loop.abandon()
    if status != "ok":
        raise core.HarnessError(f"block {cfg} did not complete: {status} {core.clean_repr(val)}")
    if errors:
        raise core.HarnessError(f"block {cfg}: event loop reported {errors[:2]}")
    if single:
        return {"outcome": "+".join(sorted(tags)), "input": build_init(cases[0][0], CLIENT_INFOS[cases[0][1]], cases[0][2]),
                "violations": [{"sig": e["sig"], "msg": e["msg"]} for e in first.values()],
                "counters": {"single-cases": 1}}
    for key, e in first.items():
        count("sig:" + key, e["n"])
        count(twopass.fail_key(e["sig"], e["rank"], e["single"]))
    return {"outcome": "+".join(sorted(tags)), "failing_signatures": sorted(first), "violations": [],
            "counters": counters}


# ---------------------------------------------------------------------------
# pairing: real client <-> real handler
# ---------------------------------------------------------------------------
def run_pairing(cfg) -> Dict[str, Any]:
    import anyio
    from chuk_mcp.protocol.messages.initialize.send_messages import send_initialize
    from chuk_mcp.protocol.messages.json_rpc_message import parse_message
    from chuk_mcp.protocol.types.errors import VersionMismatchError

    supported = supported_set()
    client_list = [PAIR_U[i] for i in cfg["sup"]]
    preferred = None if cfg["pref"] < 0 else PAIR_U[cfg["pref"]]
    handler = _handler_factory()()
    wire_log: List[Any] = []
    pump_errors: List[str] = []
    state: Dict[str, Any] = {"session": None}

    def to_wire(obj):
        return json.loads(json.dumps(obj.model_dump(exclude_none=True)))

    loop = new_loop(horizon=200)
    with sched.patched_uuid():
        async def main():
            c2s_send, c2s_recv = anyio.create_memory_object_stream(math.inf)
            s2c_send, s2c_recv = anyio.create_memory_object_stream(math.inf)

            async def pump():
                async for obj in c2s_recv:
                    w = to_wire(obj)
                    wire_log.append(w)
                    try:
                        resp, sid = await handler.handle_message(parse_message(w), state["session"])
                    except Exception as e:  # noqa: BLE001 - recorded; the client will time out
                        pump_errors.append(f"{type(e).__name__}: {str(e)[:100]}")
                        continue
                    if sid:
                        state["session"] = sid
                    if resp is not None:
                        if w.get("method") == "initialize":
                            state["held"] = (resp, _snapshot(resp))   # the server side keeps the object while the handshake goes on
                        await s2c_send.send(parse_message(to_wire(resp)))

            async with anyio.create_task_group() as tg:
                tg.start_soon(pump)
                try:
                    r = await send_initialize(s2c_recv, c2s_send, timeout=5.0,
                                              supported_versions=list(client_list), preferred_version=preferred)
                    out = ("ok", r.protocolVersion)
                except VersionMismatchError as e:
                    out = ("version-mismatch", [getattr(e, "requested", None), getattr(e, "supported", None)])
                except TimeoutError:
                    out = ("timeout", None)
                except Exception as e:  # noqa: BLE001
                    out = ("other-exception", type(e).__name__ + ": " + str(e)[:100])
                # let the pump see what the client wrote last (initialized notification)
                await anyio.sleep(0.01)
                tg.cancel_scope.cancel()
            return out

        status, val = loop.run_main(main())
        errors = loop.collect_errors()
        loop.abandon()
    if status != "ok":
        raise core.HarnessError(f"pairing {cfg} did not complete: {status} {core.clean_repr(val)}")
    kind, detail = val
    inter = [v for v in client_list if v in supported]
    proposed = [w.get("params", {}).get("protocolVersion") for w in wire_log if w.get("method") == "initialize"]
    sess = handler.session_manager.get_session(state["session"]) if state["session"] else None
    obs: Dict[str, Any] = {
        "client_supported": client_list, "preferred": preferred, "proposed": proposed, "end": kind,
        "detail": sched.jsonable(detail), "server_session_version": getattr(sess, "protocol_version", None),
        "wire_methods": [w.get("method") for w in wire_log],
    }
    viol = []

    def vkind(v):
        if not isinstance(v, str):
            return "non-string"
        a, b = v in client_list, v in supported
        return "both" if a and b else "client-only" if a else "server-only" if b else "neither"

    if len(proposed) != 1:
        raise core.HarnessError(f"seam missing: the pump saw {len(proposed)} initialize requests ({wire_log!r})")
    if kind == "ok":
        if not (isinstance(detail, str) and detail in inter):
            viol.append({"sig": {"class": "handshake-agreed-outside-intersection", "agreed": vkind(detail),
                                 "proposed": request_kind(proposed[0], supported)},
                         "msg": f"client supported={client_list} preferred={preferred!r} proposed {proposed[0]!r}: "
                                f"send_initialize succeeded with protocolVersion={detail!r}; "
                                f"client∩server={inter}, server supports {supported}"})
        if sess is None or not strict_eq(sess.protocol_version, detail):
            viol.append({"sig": {"class": "sides-disagree-after-success"},
                         "msg": f"client settled on {detail!r}, server session records "
                                f"{getattr(sess, 'protocol_version', None)!r} (client list {client_list}, preferred {preferred!r})"})
    elif kind != "version-mismatch":
        viol.append({"sig": {"class": "handshake-ended-otherwise", "end": kind},
                     "msg": f"client supported={client_list} preferred={preferred!r}: handshake ended with {kind} "
                            f"{detail!r}; pump errors {pump_errors[:1]}"})
    if state.get("held") is not None and _snapshot(state["held"][0]) != state["held"][1]:
        viol.append({"sig": {"class": "held-response-changed", "when": "after-the-rest-of-the-handshake"},
                     "msg": f"the initialize response object changed while the handshake went on: was {state['held'][1]}, "
                            f"is {_snapshot(state['held'][0])} (client list {client_list}, preferred {preferred!r})"})
    if errors:
        viol.append({"sig": {"class": "loop-error"}, "msg": f"{errors[:2]}"})
    obs["outcome"] = kind + (":" + vkind(detail) if kind == "ok" else "")
    if cfg.get("single"):
        obs["violations"] = viol
        obs["counters"] = {"single-cases": 1}
        return obs
    obs["violations"] = []
    obs["failing_signatures"] = sorted(json.dumps(v["sig"], sort_keys=True) for v in viol)
    obs["counters"] = {"pairing-cases": 1, "intersection-empty" if not inter else "intersection-nonempty": 1}
    rank = 0
    for i in cfg["sup"]:
        rank = rank * 8 + i + 1
    rank = (len(cfg["sup"]) * 8**4 + rank) * 8 + cfg["pref"] + 1
    for v in viol:
        obs["counters"][twopass.fail_key(v["sig"], rank, dict(cfg, single=True))] = 1
        k = "sig:" + json.dumps(v["sig"], sort_keys=True)
        obs["counters"][k] = obs["counters"].get(k, 0) + 1
    if viol:
        obs["counters"]["violating-judgements"] = len(viol)
    return obs


CARRY = ["no-session-id", "first-session-id", "never-issued-session-id"]
TWO_CLIENTS = [{"name": "vf-client", "version": "0.1"}, {"name": "vf-client-reconnected", "version": "0.2", "x": [1]}]


def run_twostep(cfg) -> Dict[str, Any]:
    """Two initialize requests on ONE handler; the second optionally carries the first one's session id.
    Each answer's session (the id returned by THAT initialize) must record exactly the version answered by it."""
    from chuk_mcp.protocol.messages.json_rpc_message import parse_message

    supported = supported_set()
    vals = twostep_values(supported)
    v1, v2 = vals[cfg["a"]], vals[cfg["b"]]
    carry = CARRY[cfg["carry"]]
    handler = _handler_factory()()
    store_kind = REPEATING_STORES[cfg["store"]] if cfg.get("store") is not None else None
    if store_kind:
        handler.session_manager = make_store(store_kind)
    pre = cfg.get("pre")          # instead of a first initialize: a session restored through the store API with this version
    counters: Dict[str, int] = {}
    viol: List[dict] = []
    step = {"n": "first-initialize"}

    def count(k, n=1):
        counters[k] = counters.get(k, 0) + n

    def bad(sig, msg, wire):
        if store_kind:
            sig = dict(sig, store=store_kind)
        if pre is not None:
            sig = dict(sig, carried_session_was="restored-through-the-store-api", restored_version=request_kind(PRE_VERSIONS[pre], supported))
        viol.append({"sig": dict(sig, step=step["n"], carried=carry if step["n"] != "first-initialize" else "n/a"),
                     "msg": f"{step['n']} (second one carries: {carry}; first requested {v1!r}): {msg}; "
                            f"input={json.dumps(wire, ensure_ascii=True)}"})

    out: Dict[str, Any] = {}

    async def main():
        w1 = build_init(v1, TWO_CLIENTS[0])
        w1["id"] = 7
        if pre is not None:
            sid0 = handler.session_manager.create_session({"name": "restored"}, PRE_VERSIONS[pre])
            r1 = {"tag": "restored", "sid": sid0, "answered": PRE_VERSIONS[pre], "resp": None}
        else:
            r1 = await judge_step(handler, parse_message, supported, w1, v1, count, bad)
        step["n"] = "second-initialize"
        carried = None if carry == "no-session-id" else r1["sid"] if carry == "first-session-id" else "never-issued-session-id"
        w2 = build_init(v2, TWO_CLIENTS[1])
        r2 = await judge_step(handler, parse_message, supported, w2, v2, count, bad, carried=carried, fresh=False,
                              prev_answer=r1["answered"])
        out["r1"], out["r2"] = r1, r2
        r1["sid_taken_over"] = bool(r1["sid"]) and r1["sid"] == r2["sid"]
        check_held_response(r1, handler, bad, w2, "after-a-second-initialize")
        # ... and after traffic that mutates nothing
        for later in ({"jsonrpc": "2.0", "id": 8, "method": "ping"}, {"jsonrpc": "2.0", "method": "notifications/initialized"}):
            try:
                await handler.handle_message(parse_message(later), r2["sid"])
            except Exception:  # noqa: BLE001 - dispatch robustness is C08's subject
                pass
        check_held_response(r1, handler, bad, w2, "after-ping-and-initialized")
        r2["sid_taken_over"] = False
        check_held_response(r2, handler, bad, w2, "after-ping-and-initialized")
        # the first answer's session must still be what was answered then, unless the second initialize took over that id
        if r1["sid"] and r2["sid"] and r1["sid"] != r2["sid"]:
            s1 = handler.session_manager.get_session(r1["sid"])
            if s1 is not None and not strict_eq(s1.protocol_version, r1["answered"]):
                bad({"class": "first-session-version-rewritten", "request_kind": request_kind(v2, supported)},
                    f"first initialize answered {r1['answered']!r}; after the second one its session records "
                    f"{s1.protocol_version!r}", w2)

    loop = new_loop(horizon=5)
    with sched.patched_uuid():
        status, val = loop.run_main(main())
        errors = loop.collect_errors()
        loop.abandon()
    if status != "ok":
        raise core.HarnessError(f"two-step {cfg} did not complete: {status} {core.clean_repr(val)}")
    if errors:
        raise core.HarnessError(f"two-step {cfg}: event loop reported {errors[:2]}")
    r1, r2 = out["r1"], out["r2"]
    obs: Dict[str, Any] = {
        "requested": [repr(v1), repr(v2)], "carry": carry,
        "answered": [repr(r1["answered"]), repr(r2["answered"])],
        "same_session_id": bool(r1["sid"]) and r1["sid"] == r2["sid"],
        "outcome": f"{r1['tag']}/{r2['tag']}",
    }
    if cfg.get("single"):
        obs["violations"] = viol
        obs["counters"] = {"single-cases": 1}
        return obs
    obs["violations"] = []
    obs["failing_signatures"] = sorted(json.dumps(v["sig"], sort_keys=True) for v in viol)
    c = {"twostep-cases": 1, "twostep-initializes": 2}
    rank = (cfg["a"] * 64 + cfg["b"]) * 4 + cfg["carry"]
    for v in viol:
        c[twopass.fail_key(v["sig"], rank, dict(cfg, single=True))] = 1
        k = "sig:" + json.dumps(v["sig"], sort_keys=True)
        c[k] = c.get(k, 0) + 1
    if viol:
        c["violating-judgements"] = len(viol)
    obs["counters"] = c
    return obs


def twostep_configs(supported: List[str]) -> List[Dict[str, Any]]:
    n = len(twostep_values(supported))
    out = [{"part": "twostep", "a": a, "b": b, "carry": k} for a in range(n) for b in range(n) for k in range(len(CARRY))]
    # two handshakes on a store whose ids repeat: the record under the repeated id is the LATER handshake's
    out += [{"part": "twostep", "a": a, "b": b, "carry": k, "store": st} for st in range(len(REPEATING_STORES))
            for a in range(n) for b in range(n) for k in (0, 1)]
    # an initialize arriving on a session that was restored through the store API (with any version on record)
    out += [{"part": "twostep", "a": 0, "b": b, "carry": 1, "pre": p} for p in range(len(PRE_VERSIONS)) for b in range(n)]
    return out


# ---------------------------------------------------------------------------
# queries first, initialize afterwards: looking a version up must not change what servers acknowledge
# ---------------------------------------------------------------------------
CANARY = "2098-07-06"      # an unsupported date that no execution ever passes to a query function
QUERY_CHUNK = 6


def versioning_queries():
    """Every public function of chuk_mcp.protocol.types.versioning and every public callable attribute of its classes
    (found by introspection), with the number of positional parameters."""
    import inspect

    import chuk_mcp.protocol.types.versioning as V

    found = []
    for name, fn in sorted(vars(V).items()):
        if name.startswith("_"):
            continue
        if inspect.isfunction(fn) and fn.__module__ == V.__name__:
            found.append((name, fn))
        elif inspect.isclass(fn) and fn.__module__ == V.__name__:
            for an in sorted(dir(fn)):
                if an.startswith("_"):
                    continue
                attr = getattr(fn, an)
                if callable(attr):
                    found.append((f"{name}.{an}", attr))
    out = []
    for name, fn in found:
        try:
            n = len([p for p in inspect.signature(fn).parameters.values()
                     if p.kind in (p.POSITIONAL_ONLY, p.POSITIONAL_OR_KEYWORD)])
        except (TypeError, ValueError):
            continue
        out.append((name, fn, n))
    return out


def call_all_queries(v: Any, supported: List[str], queries) -> int:
    """Pass ``v`` to every query in every argument position (alone, next to a supported version, inside lists)."""
    s0 = supported[0]
    cands = [v, s0, [v], [v, s0], list(supported)]
    calls = 0
    for _name, fn, n in queries:
        if n == 0:
            argsets = [()]
        elif n == 1:
            argsets = [(c,) for c in cands]
        elif n == 2:
            argsets = [(a, b) for a in cands for b in cands]
        else:
            continue
        for args in argsets:
            calls += 1
            try:
                fn(*[list(a) if isinstance(a, list) else a for a in args])
            except Exception:  # noqa: BLE001 - a query may reject the value; it must not change the module's answers
                pass
    return calls


def query_values(supported: List[str]) -> List[Any]:
    dates = ["2026-01-01", "2099-01-01", "1999-12-31", "2025-13-45", "2025-00-00", "0000-00-00", "9999-12-31"]
    for sv in supported:          # both calendar neighbours of every supported date
        y, m, d = (int(x) for x in sv.split("-"))
        for dd in (d - 1, d + 1):
            if 1 <= dd <= 28:
                dates.append(f"{y:04d}-{m:02d}-{dd:02d}")
    vals: List[Any] = []
    for v in dates + lookalikes(supported) + MALFORMED + [None, 12, 1.5, True, ["2025-06-18"], {"v": 1}]:
        if v not in vals and v != CANARY and v not in supported:
            vals.append(v)
    return vals


def run_queries(cfg) -> Dict[str, Any]:
    from chuk_mcp.protocol.messages.json_rpc_message import parse_message

    supported = supported_set()
    queries = versioning_queries()
    vals = query_values(supported)
    chunk = [vals[i] for i in cfg["vals"]]
    factory = _handler_factory()
    counters: Dict[str, int] = {}
    viol: List[dict] = []
    tags = set()
    phase = {"n": ""}

    def count(k, n=1):
        counters[k] = counters.get(k, 0) + n

    def bad(sig, msg, wire):
        viol.append({"sig": dict(sig, phase=phase["n"]),
                     "msg": f"[{phase['n']}] {msg}; input={json.dumps(wire, ensure_ascii=True)}; queries called before: "
                            f"{len(queries)} public functions of the versioning module with this value"})

    async def one(handler, v, fresh):
        r = await judge_step(handler, parse_message, supported, build_init(v, CLIENT_INFOS[1]), v, count, bad, fresh=fresh)
        tags.add(r["tag"])

    async def main():
        phase["n"] = "canary-never-queried:at-start"
        await one(factory(), CANARY, True)
        pre = factory()                     # a handler that exists before anything is looked up
        for k, v in enumerate(chunk):
            count("query-calls", call_all_queries(v, supported, queries))
            phase["n"] = "fresh-handler:right-after-querying-the-value"
            await one(factory(), v, True)
            phase["n"] = "pre-existing-handler:right-after-querying-the-value"
            await one(pre, v, False)
            phase["n"] = "fresh-handler:value-queried-earlier-in-the-process"
            for u in chunk[:k]:
                await one(factory(), u, True)
        # control: a supported version is queried too and must still be echoed
        sv = supported[cfg["vals"][0] % len(supported)]
        count("query-calls", call_all_queries(sv, supported, queries))
        phase["n"] = "fresh-handler:supported-version-after-all-queries"
        await one(factory(), sv, True)
        phase["n"] = "canary-never-queried:at-end"
        await one(factory(), CANARY, True)

    loop = new_loop(horizon=5)
    with sched.patched_uuid():
        status, val = loop.run_main(main())
        errors = loop.collect_errors()
        loop.abandon()
    if status != "ok":
        raise core.HarnessError(f"queries {cfg} did not complete: {status} {val!r}")
    if errors:
        raise core.HarnessError(f"queries {cfg}: event loop reported {errors[:2]}")
    obs: Dict[str, Any] = {"outcome": "+".join(sorted(tags)), "values": [repr(v)[:40] for v in chunk]}
    if cfg.get("single"):
        obs["violations"] = viol
        obs["counters"] = {"single-cases": 1}
        return obs
    obs["violations"] = []
    obs["failing_signatures"] = sorted({json.dumps(v["sig"], sort_keys=True) for v in viol})
    c = dict(counters)
    c["query-chunks"] = 1
    c["query-values"] = len(chunk)
    seen_sig = set()
    for v in viol:
        k = json.dumps(v["sig"], sort_keys=True)
        c["sig:" + k] = c.get("sig:" + k, 0) + 1
        if k not in seen_sig:
            seen_sig.add(k)
            c[twopass.fail_key(v["sig"], cfg["vals"][0], dict(cfg, single=True))] = 1
    if viol:
        c["violating-judgements"] = len(viol)
    obs["counters"] = c
    return obs


# ---------------------------------------------------------------------------
# a caller edits the LIST a public function handed it: no server may change its mind
# ---------------------------------------------------------------------------
NEW_VERSION = "2030-01-01"
LIST_MUTATIONS = ["append", "insert-front", "extend", "clear", "remove-first", "replace-first", "slice-assign", "pop-last",
                  "reverse"]


def list_returning_callables():
    """Public callables without required parameters, of the versioning module, its classes and the initialize
    send_messages module, that return a list (found by calling them)."""
    import inspect

    import chuk_mcp.protocol.messages.initialize.send_messages as M
    import chuk_mcp.protocol.types.versioning as V

    cands = []
    for mod in (V, M):
        for name, obj in sorted(vars(mod).items()):
            if name.startswith("_"):
                continue
            if inspect.isfunction(obj) and obj.__module__ == mod.__name__ and not inspect.iscoroutinefunction(obj):
                cands.append((f"{mod.__name__.rsplit('.', 1)[1]}.{name}", obj))
            elif inspect.isclass(obj) and obj.__module__ == mod.__name__ and mod is V:
                for an in sorted(dir(obj)):
                    attr = getattr(obj, an)
                    if not an.startswith("_") and callable(attr) and not inspect.iscoroutinefunction(attr):
                        cands.append((f"{name}.{an}", attr))
    out = []
    for name, fn in cands:
        try:
            required = [p for p in inspect.signature(fn).parameters.values()
                        if p.default is p.empty and p.kind in (p.POSITIONAL_ONLY, p.POSITIONAL_OR_KEYWORD)]
            if required:
                continue
            if isinstance(fn(), list):
                out.append((name, fn))
        except Exception:  # noqa: BLE001
            continue
    return out


def run_listmut(cfg) -> Dict[str, Any]:
    import chuk_mcp.protocol.messages.initialize.send_messages as M
    import chuk_mcp.protocol.types.versioning as V
    from chuk_mcp.protocol.messages.json_rpc_message import parse_message

    supported = supported_set()                   # the true set, read BEFORE anything is edited
    fns = dict(list_returning_callables())
    name, mut = cfg["fn"], LIST_MUTATIONS[cfg["mut"]]
    if name not in fns:
        raise core.HarnessError(f"list-returning callable {name} disappeared")
    module_lists = [("versioning.SUPPORTED_VERSIONS", V.SUPPORTED_VERSIONS)]
    if isinstance(getattr(M, "SUPPORTED_PROTOCOL_VERSIONS", None), list):
        module_lists.append(("send_messages.SUPPORTED_PROTOCOL_VERSIONS", M.SUPPORTED_PROTOCOL_VERSIONS))
    snapshots = [list(lst) for _n, lst in module_lists]
    factory = _handler_factory()
    counters: Dict[str, int] = {}
    viol: List[dict] = []
    tags = set()
    phase = {"n": ""}

    def count(k, n=1):
        counters[k] = counters.get(k, 0) + n

    def bad(sig, msg, wire):
        viol.append({"sig": dict(sig, after_editing_the_list_returned_by=name, edit=mut, phase=phase["n"]),
                     "msg": f"a caller did `{mut}` on the list returned by {name}() [{phase['n']}]: {msg}; "
                            f"input={json.dumps(wire, ensure_ascii=True)}"})

    async def one(handler, v, fresh):
        r = await judge_step(handler, parse_message, supported, build_init(v, CLIENT_INFOS[1]), v, count, bad, fresh=fresh)
        tags.add(r["tag"])

    async def main():
        pre = factory()
        lst = fns[name]()
        if mut == "append":
            lst.append(NEW_VERSION)
        elif mut == "insert-front":
            lst.insert(0, NEW_VERSION)
        elif mut == "extend":
            lst.extend([NEW_VERSION, "bogus"])
        elif mut == "clear":
            lst.clear()
        elif mut == "remove-first" and lst:
            lst.remove(lst[0])
        elif mut == "replace-first" and lst:
            lst[0] = NEW_VERSION
        elif mut == "slice-assign":
            lst[:] = [NEW_VERSION]
        elif mut == "pop-last" and lst:
            lst.pop()
        elif mut == "reverse":
            lst.reverse()
        for v in [NEW_VERSION, "bogus"] + list(supported):
            phase["n"] = "fresh-handler"
            await one(factory(), v, True)
            phase["n"] = "handler-built-before-the-edit"
            await one(pre, v, False)

    loop = new_loop(horizon=5)
    try:
        with sched.patched_uuid():
            status, val = loop.run_main(main())
            errors = loop.collect_errors()
            loop.abandon()
    finally:
        # put the library's own lists back (in place) and say so if the caller's edit had reached them
        changed = []
        for (lname, lst), snap in zip(module_lists, snapshots):
            if list(lst) != snap:
                changed.append((lname, list(lst)))
                lst[:] = snap
    if status != "ok":
        raise core.HarnessError(f"listmut {cfg} did not complete: {status} {val!r}")
    if errors:
        raise core.HarnessError(f"listmut {cfg}: event loop reported {errors[:2]}")
    for lname, now in changed:
        viol.insert(0, {"sig": {"class": "library-list-changed-by-caller", "list": lname, "through": name, "edit": mut},
                        "msg": f"editing ({mut}) the list returned by {name}() changed the library's own {lname} to {now}"})
    obs: Dict[str, Any] = {"outcome": "+".join(sorted(tags)) + ("|library-list-changed" if changed else ""), "fn": name, "edit": mut}
    if cfg.get("single"):
        obs["violations"] = viol
        obs["counters"] = {"single-cases": 1}
        return obs
    obs["violations"] = []
    c = dict(counters)
    c["list-edit-executions"] = 1
    seen_sig = set()
    for v in viol:
        k = json.dumps(v["sig"], sort_keys=True)
        c["sig:" + k] = c.get("sig:" + k, 0) + 1
        if k not in seen_sig:
            seen_sig.add(k)
            c[twopass.fail_key(v["sig"], cfg["mut"], dict(cfg, single=True))] = 1
    if viol:
        c["violating-judgements"] = len(viol)
    obs["counters"] = c
    return obs


def listmut_configs() -> List[Dict[str, Any]]:
    return [{"part": "listmut", "fn": name, "mut": k} for name, _f in list_returning_callables() for k in range(len(LIST_MUTATIONS))]


def queries_configs(supported: List[str]) -> List[Dict[str, Any]]:
    n = len(query_values(supported))
    return [{"part": "queries", "vals": list(range(i, min(n, i + QUERY_CHUNK)))} for i in range(0, n, QUERY_CHUNK)]


# ---------------------------------------------------------------------------
# sequences of handshakes and session removals on ONE server: every live session keeps what ITS handshake answered
# ---------------------------------------------------------------------------
SEQ_UNSUPPORTED = "2099-01-01"
SEQ_MAX_DELETE = 3          # delete_session of the k-th live session, k < 3
SEQ_TICK = 10               # seconds of (stubbed) clock between two steps


class _SeqClock:
    def __init__(self):
        self.now = 1_700_000_000.0

    def time(self):
        return self.now


def run_sequences(ctl: explorer.Ctl, cfg: Dict[str, Any]) -> Dict[str, Any]:
    import chuk_mcp.server.session.memory as mem
    from chuk_mcp.protocol.messages.json_rpc_message import parse_message

    supported = supported_set()
    versions = list(supported) + [SEQ_UNSUPPORTED]
    L = cfg["L"]
    counters: Dict[str, int] = {"sequences": 1}
    viol: List[dict] = []
    steps: List[str] = []
    ref: Dict[str, Any] = {}        # live session id -> (answered version, clientInfo name, created at)
    live: List[str] = []            # in handshake order
    removed: set = set()
    state = {"removal_before": False}

    def count(k, n=1):
        counters[k] = counters.get(k, 0) + n

    def bad(sig, msg, wire=None):
        viol.append({"sig": dict(sig, after_a_removal=state["removal_before"]),
                     "msg": f"steps {steps}: {msg}" + (f"; input={json.dumps(wire, ensure_ascii=True)}" if wire else "")})

    clock = _SeqClock()
    orig_time = mem.time

    async def main():
        if cfg["kind"] == "MCPServer":
            from chuk_mcp.server.server import MCPServer

            handler = MCPServer("vf-c04-seq", "0.0.1").protocol_handler
        else:
            handler = _handler_factory()()
        sm = handler.session_manager

        def resync(op):
            """After a removal the store says which sessions are left (which ones a removal takes is C19's subject)."""
            for sid in list(live):
                if sm.get_session(sid) is None:
                    live.remove(sid)
                    ref.pop(sid, None)
                    removed.add(sid)
            state["removal_before"] = True

        def check_all(after):
            for sid in live:
                answered, name, _t = ref[sid]
                rec = sm.get_session(sid)
                if rec is None:
                    bad({"class": "session-of-an-earlier-handshake-lost", "after_op": after},
                        f"after {after}: the session of the handshake answered {answered!r} for {name!r} is gone although "
                        f"nothing removed it")
                    return False
                if not strict_eq(rec.protocol_version, answered):
                    bad({"class": "earlier-session-rewritten", "field": "protocol_version", "after_op": after},
                        f"after {after}: the session handed to {name!r} was answered {answered!r} but now records "
                        f"{rec.protocol_version!r} (clientInfo {rec.client_info!r})")
                    return False
                got_name = rec.client_info.get("name") if isinstance(rec.client_info, dict) else None
                if got_name != name:
                    bad({"class": "earlier-session-rewritten", "field": "client_info", "after_op": after},
                        f"after {after}: the session handed to {name!r} now records clientInfo {rec.client_info!r}")
                    return False
            for sid in removed:
                if sid not in ref and sm.get_session(sid) is not None:
                    bad({"class": "removed-session-resurrected", "after_op": after},
                        f"after {after}: a removed session id is found in the store again without a handshake that got it")
                    return False
            return True

        for n in range(L):
            menu = [("init", i) for i in range(len(versions))] + \
                   [("delete", k) for k in range(min(SEQ_MAX_DELETE, len(live)))] + [("cleanup-oldest", None), ("clear", None)]
            kind, arg = menu[ctl.choose(len(menu), f"step{n}")]
            clock.now += SEQ_TICK
            count("sequence-steps")
            if kind == "init":
                v = versions[arg]
                name = f"client-of-step-{n}"
                steps.append(f"initialize({v})")
                wire = build_init(v, {"name": name, "version": str(n)})
                wire["id"] = 100 + n
                r = await judge_step(handler, parse_message, supported, wire, v, count, bad, fresh=False)
                if viol:
                    return
                sid = r["sid"]
                if sid is None:
                    return          # (an error answer is judged above; nothing recorded to follow)
                if sid in ref:
                    a0, n0, _ = ref[sid]
                    bad({"class": "live-session-id-handed-out-again", "after_op": "initialize"},
                        f"this initialize was given session id {sid!r}, which is the id of the still live session of {n0!r} "
                        f"(answered {a0!r})", wire)
                    return
                ref[sid] = (r["answered"], name, clock.now)
                live.append(sid)
                removed.discard(sid)
                after = "initialize"
            elif kind == "delete":
                steps.append(f"delete_session(live#{arg})")
                sm.delete_session(live[arg])
                resync(kind)
                after = "delete_session"
            elif kind == "cleanup-oldest":
                # the largest whole max_age that still makes the oldest live session "idle for longer than the limit"
                age = int(clock.now - ref[live[0]][2]) - 1 if live else 3600
                steps.append(f"cleanup_expired({age})")
                sm.cleanup_expired(age)
                resync(kind)
                after = "cleanup_expired"
            else:
                steps.append("clear_all_sessions()")
                sm.clear_all_sessions()
                resync(kind)
                after = "clear_all_sessions"
            count("op:" + kind)
            if not check_all(after):
                return

    loop = new_loop(horizon=5)
    mem.time = clock
    try:
        with sched.patched_uuid():
            status, val = loop.run_main(main())
            errors = loop.collect_errors()
            loop.abandon()
    finally:
        mem.time = orig_time
    if status != "ok":
        raise core.HarnessError(f"sequence {cfg} {steps} did not complete: {status} {val!r}")
    if errors:
        raise core.HarnessError(f"sequence {cfg} {steps}: event loop reported {errors[:2]}")
    counters["live-sessions-checked"] = len(live)
    return {"outcome": f"live{len(live)}:removed{len(removed)}" + (":violation" if viol else ""), "steps": steps,
            "violations": viol[:1], "counters": counters}


# ---------------------------------------------------------------------------
# the deployment EDITS the library's supported list before serving (the only configuration knob there is):
# "supported" then means the live list, for every requested value
# ---------------------------------------------------------------------------
CONFIG_EDITS = ["remove-oldest", "remove-middle", "keep-only-newest", "append-a-new-version", "insert-a-new-version-second",
                "replace-oldest-by-a-new-version", "reverse-all-but-the-newest", "duplicate-the-oldest",
                # the newest entry retired: observed and counted, NOT judged (see the report - the unchanged tree keeps
                # counter-proposing the import-time CURRENT_VERSION constant)
                "remove-newest"]
CONFIG_NEW = "2030-01-01"


def configured_list(edit: str, base: List[str]) -> List[str]:
    b = list(base)
    if edit == "remove-oldest":
        return b[:-1]
    if edit == "remove-middle":
        return b[:1] + b[2:]
    if edit == "keep-only-newest":
        return b[:1]
    if edit == "append-a-new-version":
        return b + [CONFIG_NEW]
    if edit == "insert-a-new-version-second":
        return b[:1] + [CONFIG_NEW] + b[1:]
    if edit == "replace-oldest-by-a-new-version":
        return b[:-1] + [CONFIG_NEW]
    if edit == "reverse-all-but-the-newest":
        return b[:1] + b[1:][::-1]
    if edit == "duplicate-the-oldest":
        return b + b[-1:]
    return b[1:]


def run_configured(cfg) -> Dict[str, Any]:
    import chuk_mcp.protocol.types.versioning as V
    from chuk_mcp.protocol.messages.json_rpc_message import parse_message

    base = supported_set()
    edit = CONFIG_EDITS[cfg["edit"]]
    live = configured_list(edit, base)
    judged = edit != "remove-newest"
    values: List[Any] = list(base) + [CONFIG_NEW, "2099-01-01", "1999-12-31", base[-1] + "\n", "latest", 12, None, ABSENT]
    factory = _handler_factory()
    counters: Dict[str, int] = {}
    viol: List[dict] = []
    tags = set()
    phase = {"n": ""}

    def count(k, n=1):
        counters[k] = counters.get(k, 0) + n

    def bad(sig, msg, wire):
        if not judged:
            count("not-judged:newest-version-retired:" + sig["class"])
            return
        viol.append({"sig": dict(sig, supported_list_edited=edit, handler=phase["n"]),
                     "msg": f"the deployment edited the library's supported list ({edit}): it is now {live}; [{phase['n']}] {msg}; "
                            f"input={json.dumps(wire, ensure_ascii=True)}"})

    snapshot = list(V.SUPPORTED_VERSIONS)
    pre = factory()                       # a handler built BEFORE the list was edited

    async def main():
        for v in values:
            for name, h, fresh in (("handler-built-after-the-edit", factory(), True), ("handler-built-before-the-edit", pre, False)):
                phase["n"] = name
                r = await judge_step(h, parse_message, live, build_init(v, CLIENT_INFOS[1]), v, count, bad, fresh=fresh)
                tags.add(r["tag"])

    loop = new_loop(horizon=5)
    try:
        V.SUPPORTED_VERSIONS[:] = live
        with sched.patched_uuid():
            status, val = loop.run_main(main())
            errors = loop.collect_errors()
            loop.abandon()
    finally:
        V.SUPPORTED_VERSIONS[:] = snapshot
    if status != "ok":
        raise core.HarnessError(f"configured {cfg} did not complete: {status} {val!r}")
    if errors:
        raise core.HarnessError(f"configured {cfg}: event loop reported {errors[:2]}")
    firsts: Dict[str, dict] = {}
    for v in viol:
        firsts.setdefault(json.dumps(v["sig"], sort_keys=True), v)
    counters["configured-list-executions"] = 1
    return {"outcome": edit + ":" + "+".join(sorted(tags)), "violations": list(firsts.values())[:6], "counters": counters}


# ---------------------------------------------------------------------------
# one handler shared by two OS threads (the usual sync bridge: each worker runs its own event loop): two initialize
# requests, every interleaving at the session store's create_session entry / exit
# ---------------------------------------------------------------------------
def run_threads(ctl: explorer.Ctl, cfg: Dict[str, Any]) -> Dict[str, Any]:
    import asyncio
    import threading

    from chuk_mcp.protocol.messages.json_rpc_message import parse_message
    from chuk_mcp.server.session.memory import InMemorySessionManager

    supported = supported_set()
    vals = list(supported) + ["2099-01-01"]
    reqs = [vals[cfg["a"]], vals[cfg["b"]]]
    handler = _handler_factory()()
    go = [threading.Semaphore(0), threading.Semaphore(0)]
    arrived = threading.Semaphore(0)
    state = {"where": ["not-started", "not-started"], "done": [False, False]}
    me = threading.local()

    def point(name):
        i = me.i
        state["where"][i] = name
        arrived.release()
        go[i].acquire()

    class SlowStore(InMemorySessionManager):
        """A store whose write takes time (network, lock): control returns to the scheduler on entry and on exit."""

        def create_session(self, client_info, protocol_version, metadata=None):
            point("entering-create_session")
            sid = super().create_session(client_info, protocol_version, metadata)
            point("leaving-create_session")
            return sid

    handler.session_manager = SlowStore()
    results: List[Any] = [None, None]

    def worker(i):
        me.i = i
        point("started")
        wire = build_init(reqs[i], {"name": f"thread-{i}", "version": "1"})
        wire["id"] = 70 + i
        loop = asyncio.new_event_loop()
        try:
            results[i] = ("returned", loop.run_until_complete(handler.handle_message(parse_message(wire))))
        except Exception as e:  # noqa: BLE001
            results[i] = ("raised", e)
        finally:
            loop.close()
            state["done"][i] = True
            state["where"][i] = "done"
            arrived.release()

    order: List[str] = []
    with sched.patched_uuid():
        threads = [threading.Thread(target=worker, args=(i,), daemon=True) for i in range(2)]
        for t in threads:
            t.start()
        for _ in range(2):
            if not arrived.acquire(timeout=20):
                raise core.HarnessError("thread harness: a worker did not start")
        while not all(state["done"]):
            menu = [i for i in range(2) if not state["done"][i]]
            i = menu[ctl.choose(len(menu), "which-thread-runs")] if len(menu) > 1 else menu[0]
            order.append(f"T{i}:{state['where'][i]}")
            go[i].release()
            if not arrived.acquire(timeout=20):
                raise core.HarnessError(f"thread harness: thread {i} did not reach its next point (order {order})")
        for t in threads:
            t.join(timeout=20)
    viol: List[dict] = []
    tags = []
    for i in range(2):
        v = reqs[i]
        how, ret = results[i]
        other = reqs[1 - i]

        def bad(cls, msg, **extra):
            viol.append({"sig": {"class": cls, "one_handler": "shared-by-two-threads", "request_kind": request_kind(v, supported),
                                 "other_threads_request": request_kind(other, supported), **extra},
                         "msg": f"two threads share one handler and initialize with {reqs[0]!r} / {reqs[1]!r}; schedule {order}; "
                                f"thread {i}: {msg}"})

        if how == "raised":
            tags.append("raised")
            bad("initialize-raised", f"raised {type(ret).__name__}: {ret}")
            continue
        resp, sid = ret
        d = resp.model_dump(exclude_none=True) if resp is not None else None
        if d is None or classify(d)[0] != "result" or not strict_eq(d.get("id"), 70 + i):
            tags.append("invalid")
            bad("initialize-invalid-response", f"{d!r}")
            continue
        answered = d["result"].get("protocolVersion")
        rec = handler.session_manager.get_session(sid) if isinstance(sid, str) else None
        tags.append("echo" if answered == v else "counter")
        if not (isinstance(answered, str) and answered in supported):
            bad("unsupported-version-acknowledged", f"answered {answered!r}")
        elif v in supported and answered != v:
            bad("supported-version-not-echoed", f"requested {v!r}, answered {answered!r}",
                answered="the-other-threads-version" if answered == other else "other")
        if rec is None:
            bad("no-session-recorded", f"session id {sid!r}")
        elif not strict_eq(rec.protocol_version, answered):
            bad("session-version-differs-from-answer", f"answered {answered!r}, the session of this request records "
                                                       f"{rec.protocol_version!r}",
                answered="the-other-threads-version" if answered == other else "other")
        elif not isinstance(rec.client_info, dict) or rec.client_info.get("name") != f"thread-{i}":
            bad("session-of-another-request", f"session records clientInfo {rec.client_info!r}")
    return {"outcome": "/".join(tags), "order": order, "violations": viol, "counters": {"thread-schedules": 1}}


def run_one(ctl: explorer.Ctl, cfg: Dict[str, Any]) -> Dict[str, Any]:
    if cfg["part"] == "configured":
        return run_configured(cfg)
    if cfg["part"] == "threads":
        return run_threads(ctl, cfg)
    if cfg["part"] == "sequences":
        return run_sequences(ctl, cfg)
    if cfg["part"] == "queries":
        return run_queries(cfg)
    if cfg["part"] == "listmut":
        return run_listmut(cfg)
    if cfg["part"] == "pairing":
        return run_pairing(cfg)
    if cfg["part"] == "twostep":
        return run_twostep(cfg)
    return run_block(cfg)


# ---------------------------------------------------------------------------
def grid_configs(tier: str) -> List[Dict[str, Any]]:
    out = []
    if tier == "quick":
        for y in (2023, 2024, 2026, 2027):          # every real calendar date
            for m in range(1, 13):
                out.append({"part": "grid", "mode": "calendar", "year": y, "mm": m})
        for mm in range(100):                        # all 10^4 strings 2025-dd-dd (includes 2025's calendar dates)
            out.append({"part": "grid", "mode": "all", "year": 2025, "mm": mm})
    else:
        for y in range(1990, 2190):
            for mm in range(100):
                out.append({"part": "grid", "mode": "all", "year": y, "mm": mm})
    return out


def in_grid(tier: str, v: Any) -> bool:
    if not (isinstance(v, str) and DATE_RE.fullmatch(v)):
        return False
    y = int(v[:4])
    if tier == "thorough":
        return 1990 <= y <= 2189
    if y == 2025:
        return True
    return y in (2023, 2024, 2026, 2027) and request_kind(v, []) == "calendar-date"


def pairing_configs(tier: str) -> List[Dict[str, Any]]:
    maxlen = 2 if tier == "quick" else 3
    out = []
    for L in range(1, maxlen + 1):
        for sup in itertools.permutations(range(len(PAIR_U)), L):
            for pref in range(-1, len(PAIR_U)):
                out.append({"part": "pairing", "sup": list(sup), "pref": pref})
    return out


def run(tier: str, only=None) -> core.Result:
    res = core.Result("C04", "exploration")
    supported = supported_set()
    versions = misc_versions(supported)
    keys = [json.dumps(v, sort_keys=True) for v in versions]
    if len(set(keys)) != len(keys):
        raise core.HarnessError("misc version table has duplicates")
    # the parts with the most varied signatures first (the runner keeps the first 400 violations)
    parts = {
        "misc": [{"part": "misc", "v": i} for i in range(-1, len(versions))],
        "other-session-stores": [{"part": "misc", "v": i, "store": k} for k in range(len(STORE_KINDS))
                                 for i in range(-1, len(versions))],
        "twostep": twostep_configs(supported),
        "pairing": pairing_configs(tier),
        "grid": grid_configs(tier),
    }
    for name, cfgs in parts.items():
        if only and name not in only:
            continue
        out = explorer.explore(RUN, cfgs)
        sched.absorb(res, name, RUN, out, cfgs)
    # second pass: per signature the first failing cases (enumeration order), each executed alone, carry the violations
    twopass.second_pass(res, RUN, list(parts), per_sig=3)
    if not only or "configured" in only:
        ccfgs = [{"part": "configured", "edit": k} for k in range(len(CONFIG_EDITS))]
        outc = explorer.explore(RUN, ccfgs)
        sched.absorb(res, "supported-list-edited-by-the-deployment", RUN, outc, ccfgs)
        tcfgs = [{"part": "threads", "a": a, "b": b} for a in range(len(supported) + 1) for b in range(len(supported) + 1)]
        outt = explorer.explore(RUN, tcfgs, workers=4)
        sched.absorb(res, "one-handler-two-threads-at-the-store-seam", RUN, outt, tcfgs)
    cf = res.parts.get("supported-list-edited-by-the-deployment", {}).get("counters", {})
    res.coverage["configured_list_initializes"] = cf.get("cases", 0)
    res.coverage["newest_version_retired_not_judged"] = {k: v for k, v in cf.items() if k.startswith("not-judged:")}
    res.coverage["thread_schedules"] = res.parts.get("one-handler-two-threads-at-the-store-seam", {}).get("executions", 0)
    if not only or "sequences" in only:
        L = 5 if tier == "quick" else 6
        scfgs = [{"part": "sequences", "kind": k, "L": L} for k in ("ProtocolHandler", "MCPServer")]
        outs = explorer.explore(RUN, scfgs)
        sched.absorb(res, "handshake-and-removal-sequences", RUN, outs, scfgs)
    sq = res.parts.get("handshake-and-removal-sequences", {})
    res.coverage["sequences_executed"] = sq.get("executions", 0)
    res.coverage["sequence_steps"] = sq.get("counters", {}).get("sequence-steps", 0)
    # LAST (it calls the versioning module's query functions, so whatever they might leave behind in this process cannot
    # reach the parts above): every public query with the value first, then initialize with it
    if not only or "queries" in only:
        qcfgs = queries_configs(supported)
        outq = explorer.explore(RUN, qcfgs)
        sched.absorb(res, "queries-then-initialize", RUN, outq, qcfgs, min_outcomes=1)
        lcfgs = listmut_configs()
        outl = explorer.explore(RUN, lcfgs)
        sched.absorb(res, "caller-edits-a-returned-list", RUN, outl, lcfgs, min_outcomes=1)
        twopass.second_pass(res, RUN, ["queries-then-initialize", "caller-edits-a-returned-list"], per_sig=3,
                            name="failing-query-chunks-one-by-one")
        res.coverage["list_returning_callables"] = [n for n, _f in list_returning_callables()]
        if not res.coverage["list_returning_callables"]:
            res.harness_errors.append("introspection found no public callable returning a list of versions")
    qc = dict(res.parts.get("queries-then-initialize", {}).get("counters", {}))
    for k, v in res.parts.get("caller-edits-a-returned-list", {}).get("counters", {}).items():
        qc[k] = qc.get(k, 0) + v
    res.coverage["query_values"] = qc.get("query-values", 0)
    res.coverage["query_calls"] = qc.get("query-calls", 0)
    res.coverage["query_part_initializes"] = qc.get("cases", 0)
    res.coverage["versioning_queries_found"] = [n for n, _f, _k in versioning_queries()]
    if not {"ProtocolVersion.is_supported", "get_version_info"} <= set(res.coverage["versioning_queries_found"]):
        res.harness_errors.append(f"introspection lost the versioning queries: {res.coverage['versioning_queries_found']}")
    g = res.parts.get("grid", {}).get("counters", {})
    m = res.parts.get("misc", {}).get("counters", {})
    p = res.parts.get("pairing", {}).get("counters", {})
    os_ = res.parts.get("other-session-stores", {}).get("counters", {})
    res.coverage["other_store_cases"] = os_.get("cases", 0)
    t = res.parts.get("twostep", {}).get("counters", {})
    evaluations = (g.get("cases", 0) + m.get("cases", 0) + p.get("pairing-cases", 0) + t.get("twostep-cases", 0)
                   + qc.get("cases", 0) + sq.get("executions", 0) + os_.get("cases", 0) + cf.get("cases", 0)
                   + res.parts.get("one-handler-two-threads-at-the-store-seam", {}).get("executions", 0))
    res.coverage["twostep_cases"] = t.get("twostep-cases", 0)
    # (d) strings that a lenient parser reads as a supported date without being the supported string
    look = {sv: sum(1 for v in versions if isinstance(v, str) and v != sv and loose_parse(v) == loose_parse(sv))
            for sv in supported}
    res.coverage["malformed_strings_parsing_to_each_supported_date"] = look
    if min(look.values()) < 12:
        res.harness_errors.append(f"look-alike table too thin: {look}")
    # distinct inputs: grid strings are distinct by construction; misc values already inside the grid are not counted again
    misc_dup = sum(len(CLIENT_INFOS) for v in versions if in_grid(tier, v))
    res.coverage["evaluations"] = evaluations
    res.coverage["distinct_nontrivial"] = evaluations - (misc_dup if "misc" in res.parts and "grid" in res.parts else 0)
    res.coverage["grid_cases"] = g.get("cases", 0)
    res.coverage["misc_cases"] = m.get("cases", 0)
    res.coverage["pairing_handshakes"] = p.get("pairing-cases", 0)
    res.coverage["misc_cases_also_in_grid"] = misc_dup
    bysig: Dict[str, int] = {}
    for cc in (g, m, p, t, qc, os_):
        for k, n in cc.items():
            if k.startswith("sig:"):
                bysig[k[4:]] = bysig.get(k[4:], 0) + n
    res.coverage["violating_judgements"] = sum(cc.get("violating-judgements", 0) for cc in (g, m, p, t, qc, os_))
    res.coverage["violating_judgements_by_signature"] = dict(sorted(bysig.items()))
    res.coverage["rejected_by_parse_message"] = g.get("rejected-by-parse_message", 0) + m.get("rejected-by-parse_message", 0)
    res.coverage["library_supported_set"] = supported
    res.coverage["exhaustive"] = True
    res.coverage["samples"] = [
        {"part": "grid", "input": build_init("2025-06-31", CLIENT_INFOS[1])},
        {"part": "misc", "input": build_init("\u0662\u0660\u0662\u0665-\u0660\u0666-\u0661\u0668", ABSENT)},
        {"part": "misc", "input": build_init(ABSENT, ABSENT, "no-params")},
        {"part": "pairing", "client_supported": ["2099-01-01", "2025-03-26"], "preferred": "bogus"},
        {"part": "twostep", "first": build_init("2025-03-26", TWO_CLIENTS[0]), "second": build_init("2099-01-01", TWO_CLIENTS[1]),
         "second_carries": "first-session-id"},
    ]
    res.coverage["rule"] = (
        "requested protocolVersion = " + (
            "every real calendar date of 2023, 2024, 2026, 2027 and all 10^4 strings 2025-dd-dd"
            if tier == "quick" else "every string dddd-dd-dd with year 1990..2189 (2*10^6)") +
        ", each with and without clientInfo; plus each supported version, "
        f"{len(MALFORMED)} malformed strings (wrong widths, whitespace/NUL/BOM, separators, full-width and Arabic-Indic digits, "
        f"look-alike letters, concatenations), {len(versions) - len(supported) - len(MALFORMED) - len(NON_STRINGS)} generated look-alikes "
        "of EVERY supported date (a lenient strip/split/int parser reads them as that date: trailing newline / CRLF / VT / NBSP / "
        "U+2028 / U+3000, surrounding blanks, leading '+', unpadded and over-padded fields, digit-group underscore, full-width / "
        f"Arabic-Indic / extended Arabic-Indic / Devanagari digits), {len(NON_STRINGS)} non-strings (null, bools, ints, floats, lists, objects) and 'absent' in "
        "4 envelope shapes; each on a fresh ProtocolHandler; the same misc values on handlers whose session_manager was replaced by "
        "three other BaseSessionManager stores (a recording store, one that keeps rows as dicts and builds a fresh SessionInfo on "
        "every read, an InMemorySessionManager subclass returning deep copies): get_session(id).protocol_version after the "
        "handshake must be the answered version for every store.  Two-step: every ordered pair of 12 requested values (one or more per "
        "class: each supported, future / past / non-calendar date, word, supported+newline, Arabic-Indic look-alike, int, null, "
        "absent) as two initialize requests on ONE handler, the second carrying no session id / the first one's / a never-issued "
        "one; the session id returned by each initialize must record the version answered by that initialize; the same pairs on stores "
        "whose generate_session_id repeats ids (constant, cycling through two); an initialize carrying the id of a session restored "
        "through the store API with a supported / older / future / word / null version on record, for each of the 12 requested values.  Sequences: every "
        "sequence of length " + ("5" if tier == "quick" else "6") + " over {initialize with each supported version or 2099-01-01 (a new clientInfo "
        "name each time), delete_session of the 1st/2nd/3rd live session, cleanup_expired with the limit that ages out exactly "
        "the oldest, clear_all_sessions} on one ProtocolHandler and on one MCPServer, stubbed clock; after EVERY step every live "
        "session must still record the version answered in ITS handshake and its own clientInfo name, no live id is handed out "
        "again, no removed id reappears without a handshake.  Configured list: the library's live supported list edited in 8 ways "
        "(oldest / middle removed, only the newest kept, a new version appended / inserted / replacing the oldest, reordered, "
        "duplicated) before 11 requested values are initialized on a handler built after and one built before the edit, judged "
        "against the LIVE list (list restored afterwards).  Threads: one handler shared by two OS threads (own event loops), two "
        "initializes over every ordered pair of the supported versions and 2099-01-01, every interleaving of the threads at the "
        "entry and exit of the store's create_session.  Queries-then-initialize: for "
        "unsupported dates (incl. both neighbours of every supported date), every generated look-alike, every malformed string "
        "and 6 non-strings, in chunks of 6: a never-queried canary is initialized first; then for each value every public "
        "function of chuk_mcp.protocol.types.versioning and every public ProtocolVersion method (found by introspection) is called "
        "with it in every argument position (alone, beside a supported version, inside lists), then initialize with it on a "
        "fresh handler, on a handler built before any query, and again for the values queried earlier in the execution; the "
        "canary once more at the end; all judged by the same oracle; every public callable without parameters that returns a list "
        "(found by calling them: versioning functions, ProtocolVersion methods, the initialize module's helpers) x 9 in-place edits of "
        "the returned list (append / insert / extend / clear / remove / replace / slice-assign / pop / reverse), then initialize "
        "with the added and with every supported version on a fresh and on an older handler; the library's own lists must be "
        "unchanged (restored if not).  Pairing: every repetition-free ordered client list of length <= "
        + ("2" if tier == "quick" else "3") + " over the 3 supported versions + 2099-01-01 + 1999-12-31 + 'bogus', x preferred in that "
        "universe or None, real send_initialize against the real handler over memory streams.  distinct = distinct "
        "(requested value, clientInfo, envelope) inputs / (list, preferred) configurations; all are non-trivial (each is judged)"
    )
    res.assumptions = [
        "editing chuk_mcp.protocol.types.versioning.SUPPORTED_VERSIONS in place is the deployment's way of configuring what the "
        "server supports; retiring the NEWEST entry is run and counted but not judged: the unchanged tree then still counter-proposes "
        "the import-time CURRENT_VERSION (reported as an open observation)",
        "the supported set is read from chuk_mcp.protocol.types.versioning.SUPPORTED_VERSIONS (the statement is relative to it)",
        "every requested value - supported, unsupported, malformed, non-string, absent - must be answered with a success result "
        "carrying a supported version and a session recording it; an error answer is a violation (the statement says: otherwise "
        "with a version it does support)",
        "a response object handed back by handle_message is held by the harness across later messages (second initialize, ping, "
        "initialized) and must serialise to the same text afterwards",
        "an absent protocolVersion may be answered with any supported version (not with an error)",
        "two-step part: if a second initialize returns no new session id while carrying a live one, the carried session is taken as "
        "the session it recorded; whether a second initialize creates a new session is C19's subject",
        "the pairing pump carries wire dicts (model_dump(exclude_none) -> JSON -> parse_message) like a transport; "
        "a handshake ending in VersionMismatchError is accepted even when client and server lists intersect",
        "virtual-time loop schedules ready callbacks FIFO like stock asyncio",
        "sequences part: which sessions a removal operation takes is read back from the store (map behaviour is C19's subject); "
        "an id of a removed session may be handed to a later handshake; ids are compared as opaque values",
        "calling the versioning module's public query functions with any value is an observation: it must not change what any "
        "server answers afterwards (this part runs last in the process so that it cannot influence the others)",
    ]
    return res
